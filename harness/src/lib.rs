//! Shared helpers for the correspondence harness.
//! Every family binary supports:  `<fam> gen <seed> <n> <tier>`  and  `<fam> run` (cases on stdin);
//! both print `<case>\t<impl-output>` per case.
pub mod rng;

use std::io::BufRead;

/// Run a family: `gen` draws `n` cases from the seeded generator, `run` reads cases from stdin.
/// `exec` must map a case line to the implementation's canonical output line.
pub fn family_main(
    generate: impl Fn(&mut rng::Rng, usize, &str) -> Vec<String>,
    exec: impl Fn(&str) -> String + std::panic::RefUnwindSafe,
) {
    let args: Vec<String> = std::env::args().collect();
    let mode = args.get(1).map(|s| s.as_str()).unwrap_or("");
    let cases: Vec<String> = match mode {
        "gen" => {
            let seed: u64 = args.get(2).and_then(|s| s.parse().ok()).unwrap_or(0);
            let n: usize = args.get(3).and_then(|s| s.parse().ok()).unwrap_or(100);
            let tier = args.get(4).map(|s| s.as_str()).unwrap_or("quick");
            let mut r = rng::Rng::new(seed);
            generate(&mut r, n, tier)
        }
        "run" => std::io::stdin().lock().lines().map(|l| l.unwrap()).filter(|l| !l.is_empty()).collect(),
        _ => {
            eprintln!("usage: {} gen <seed> <n> <tier> | run", args[0]);
            std::process::exit(2);
        }
    };
    // silence panic backtraces; a panic in the real code is an observable output
    std::panic::set_hook(Box::new(|_| {}));
    let out = std::io::stdout();
    use std::io::Write;
    let mut w = std::io::BufWriter::new(out.lock());
    for c in cases {
        let o = match std::panic::catch_unwind(|| exec(&c)) {
            Ok(o) => o,
            Err(_) => "panic".to_string(),
        };
        writeln!(w, "{}\t{}", c, o).unwrap();
    }
}

/// `key=value` fields separated by spaces.
pub fn fields(s: &str) -> std::collections::HashMap<String, String> {
    s.split(' ')
        .filter_map(|kv| {
            let mut it = kv.splitn(2, '=');
            Some((it.next()?.to_string(), it.next()?.to_string()))
        })
        .collect()
}

pub fn hex(bs: &[u8]) -> String {
    if bs.is_empty() { return "-".into(); }
    bs.iter().map(|b| format!("{:02x}", b)).collect()
}

pub fn unhex(s: &str) -> Vec<u8> {
    if s == "-" { return vec![]; }
    (0..s.len() / 2).map(|i| u8::from_str_radix(&s[2 * i..2 * i + 2], 16).unwrap()).collect()
}

pub fn nat_list(s: &str) -> Vec<u64> {
    if s.is_empty() || s == "-" { return vec![]; }
    s.split(',').map(|x| x.parse().unwrap()).collect()
}

pub fn show_list(l: &[u64]) -> String {
    if l.is_empty() { "-".into() } else { l.iter().map(|x| x.to_string()).collect::<Vec<_>>().join(",") }
}
