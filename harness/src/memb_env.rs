//! Shared environment for the `commit` and `memb` families (included with `#[path]`, not part of lib.rs).
//! Production type configuration `RaftTypeConfig<FileStorageEngine, FileStateMachine>`:
//! real BufferedRaftLog, real RaftMembership (hook `verif_new`), real ReplicationHandler, real
//! DefaultStateMachineHandler, real GrpcTransport object (never connected: no RPC is issued here).
#![allow(dead_code)]
use std::path::PathBuf;
use std::sync::Arc;
use std::sync::OnceLock;

use d_engine_core::alias::{MOF, ROF, SMHOF, TROF};
use d_engine_core::{
    DefaultPurgeExecutor, DefaultStateMachineHandler, ElectionHandler, InternalEvent, LogSizePolicy, Membership,
    RaftContext, RaftCoreHandlers, RaftLog, RaftNodeConfig, RaftStorageHandles, ReplicationHandler, StateMachine,
    TypeConfig,
};
use d_engine_proto::common::membership_change::Change;
use d_engine_proto::common::{
    AddNode, BatchPromote, BatchRemove, Entry, EntryPayload, MembershipChange, NodeRole, NodeStatus, PromoteLearner,
    RemoveNode,
};
use d_engine_proto::server::cluster::NodeMeta;
use d_engine_server::node::RaftTypeConfig;
use d_engine_server::{FileStateMachine, FileStorageEngine};
use tokio::sync::mpsc;

pub type T = RaftTypeConfig<FileStorageEngine, FileStateMachine>;
pub type M = <T as TypeConfig>::M;
pub type TR = <T as TypeConfig>::TR;

unsafe extern "C" {
    fn dup(fd: i32) -> i32;
    fn dup2(old: i32, new: i32) -> i32;
    fn close(fd: i32) -> i32;
}

/// The engine prints banners with `println!` (e.g. "LEADER: ACCEPTING NEW NODE"); `family_main` writes the
/// result lines to the same stdout. While a case runs, fd 1 points to /dev/null so that those banners
/// cannot land in the middle of a result line. (stdout is flushed first: a pending partial line goes to
/// the real fd before the switch.)
pub struct StdoutGag {
    saved: i32,
}
impl StdoutGag {
    pub fn new() -> StdoutGag {
        use std::io::Write;
        use std::os::fd::AsRawFd;
        let _ = std::io::stdout().flush();
        let null = std::fs::OpenOptions::new().write(true).open("/dev/null").unwrap();
        let saved = unsafe { dup(1) };
        unsafe { dup2(null.as_raw_fd(), 1) };
        StdoutGag { saved }
    }
}
impl Drop for StdoutGag {
    fn drop(&mut self) {
        use std::io::Write;
        let _ = std::io::stdout().flush();
        unsafe {
            dup2(self.saved, 1);
            close(self.saved);
        }
    }
}

pub fn rt() -> &'static tokio::runtime::Runtime {
    static RT: OnceLock<tokio::runtime::Runtime> = OnceLock::new();
    RT.get_or_init(|| tokio::runtime::Builder::new_current_thread().enable_all().build().unwrap())
}

pub fn tmp() -> tempfile::TempDir {
    std::fs::create_dir_all("/verif/target/tmp").unwrap();
    tempfile::tempdir_in("/verif/target/tmp").unwrap()
}

pub fn role_of(c: &str) -> i32 {
    match c {
        "f" => NodeRole::Follower as i32,
        "c" => NodeRole::Candidate as i32,
        "L" => NodeRole::Leader as i32,
        "l" => NodeRole::Learner as i32,
        _ => panic!("role"),
    }
}
pub fn role_ch(r: i32) -> &'static str {
    if r == NodeRole::Follower as i32 {
        "f"
    } else if r == NodeRole::Candidate as i32 {
        "c"
    } else if r == NodeRole::Leader as i32 {
        "L"
    } else if r == NodeRole::Learner as i32 {
        "l"
    } else {
        "u"
    }
}
pub fn status_of(c: &str) -> i32 {
    match c {
        "a" => NodeStatus::Active as i32,
        "p" => NodeStatus::Promotable as i32,
        "r" => NodeStatus::ReadOnly as i32,
        "u" => NodeStatus::Unspecified as i32,
        _ => panic!("status"),
    }
}
pub fn status_ch(s: i32) -> &'static str {
    if s == NodeStatus::Active as i32 {
        "a"
    } else if s == NodeStatus::Promotable as i32 {
        "p"
    } else if s == NodeStatus::ReadOnly as i32 {
        "r"
    } else {
        "u"
    }
}

pub fn addr(id: u32) -> String { format!("127.0.0.1:{}", 9000 + id) }

/// `2:f:a,3:l:p` -> NodeMeta list (`-` = empty)
pub fn parse_nodes(s: &str) -> Vec<NodeMeta> {
    if s.is_empty() || s == "-" {
        return vec![];
    }
    s.split(',')
        .map(|x| {
            let p: Vec<&str> = x.split(':').collect();
            let id: u32 = p[0].parse().unwrap();
            NodeMeta { id, address: addr(id), role: role_of(p[1]), status: status_of(p[2]) }
        })
        .collect()
}

pub fn show_nodes(mut v: Vec<NodeMeta>) -> String {
    v.sort_by_key(|n| n.id);
    if v.is_empty() {
        return "-".into();
    }
    v.iter().map(|n| format!("{}:{}:{}", n.id, role_ch(n.role), status_ch(n.status))).collect::<Vec<_>>().join(",")
}

pub fn ids(s: &str) -> Vec<u32> {
    if s.is_empty() || s == "-" { vec![] } else { s.split(',').map(|x| x.parse().unwrap()).collect() }
}

/// Membership change ops (shared syntax):
/// `add:ID:STATUS` `rm:ID` `pro:ID` `bp:ID,ID..[:STATUS]` `br:ID,ID..` `nil`
pub fn parse_change(op: &str) -> Option<MembershipChange> {
    let p: Vec<&str> = op.split(':').collect();
    let ch = match p[0] {
        "add" => Some(Change::AddNode(AddNode {
            node_id: p[1].parse().unwrap(),
            address: addr(p[1].parse().unwrap()),
            status: status_of(p[2]),
        })),
        "rm" => Some(Change::RemoveNode(RemoveNode { node_id: p[1].parse().unwrap() })),
        "pro" => Some(Change::Promote(PromoteLearner { node_id: p[1].parse().unwrap(), status: NodeStatus::Active as i32 })),
        "bp" => Some(Change::BatchPromote(BatchPromote {
            node_ids: ids(p[1]),
            new_status: if p.len() > 2 { status_of(p[2]) } else { NodeStatus::Active as i32 },
        })),
        "br" => Some(Change::BatchRemove(BatchRemove { node_ids: ids(p[1]) })),
        "nil" => None,
        _ => return None.or_else(|| panic!("change op {}", op)),
    };
    Some(MembershipChange { change: ch })
}

pub fn is_change_op(op: &str) -> bool {
    matches!(op.split(':').next().unwrap_or(""), "add" | "rm" | "pro" | "bp" | "br" | "nil")
}

pub fn node_config(node_id: u32, initial: Vec<NodeMeta>, dir: &std::path::Path, catchup: u64) -> RaftNodeConfig {
    let mut c = RaftNodeConfig::default();
    c.cluster.node_id = node_id;
    c.cluster.initial_cluster = initial;
    c.cluster.db_root_dir = dir.join("db");
    c.cluster.log_dir = dir.join("logs");
    c.raft.learner_check_throttle_ms = 0;
    c.raft.learner_catchup_threshold = catchup;
    c.raft.snapshot.snapshots_dir = dir.join("snapshots");
    c.raft.snapshot.max_log_entries_before_snapshot = 1_000_000;
    c
}

pub struct Env {
    pub dir: tempfile::TempDir,
    pub cfg: Arc<RaftNodeConfig>,
    pub ctx: RaftContext<T>,
    pub tx: mpsc::UnboundedSender<InternalEvent>,
    pub rx: mpsc::UnboundedReceiver<InternalEvent>,
}

pub fn storage_dir(dir: &std::path::Path) -> PathBuf { dir.join("storage") }
pub fn sm_dir(dir: &std::path::Path) -> PathBuf { dir.join("sm") }

impl Env {
    /// Compose the context the way `NodeBuilder::build` does (no IO thread: the log stays in memory).
    pub async fn new(node_id: u32, initial: Vec<NodeMeta>, catchup: u64) -> Env {
        let dir = tmp();
        let cfg = node_config(node_id, initial.clone(), dir.path(), catchup);
        let storage = Arc::new(FileStorageEngine::new(storage_dir(dir.path())).unwrap());
        let sm = Arc::new(FileStateMachine::new(sm_dir(dir.path())).await.unwrap());
        let (log, _rx) = d_engine_core::BufferedRaftLog::<T>::new(node_id, cfg.raft.persistence.clone(), storage);
        let raft_log: Arc<ROF<T>> = Arc::new(log);
        let membership: Arc<MOF<T>> = Arc::new(M::verif_new(node_id, initial, cfg.clone()));
        let policy = LogSizePolicy::new(
            cfg.raft.snapshot.max_log_entries_before_snapshot,
            cfg.raft.snapshot.snapshot_cool_down_since_last_check,
        );
        let smh: Arc<SMHOF<T>> = Arc::new(DefaultStateMachineHandler::new(
            node_id,
            sm.last_applied().index,
            sm.clone(),
            cfg.raft.snapshot.clone(),
            policy,
            None,
            Arc::new(std::sync::atomic::AtomicUsize::new(0)),
        ));
        let transport: Arc<TROF<T>> = Arc::new(TR::verif_new(node_id));
        let cfg = Arc::new(cfg);
        let ctx = RaftContext::<T> {
            node_id,
            storage: RaftStorageHandles { raft_log: raft_log.clone(), state_machine: sm },
            transport,
            membership,
            handlers: RaftCoreHandlers {
                election_handler: ElectionHandler::new(node_id),
                replication_handler: ReplicationHandler::new(node_id),
                state_machine_handler: smh,
                purge_executor: Arc::new(DefaultPurgeExecutor::new(raft_log)),
            },
            node_config: cfg.clone(),
        };
        let (tx, rx) = mpsc::unbounded_channel();
        Env { dir, cfg, ctx, tx, rx }
    }

    /// append entries with the given terms at the next indexes (command payloads)
    pub async fn append_terms(&self, terms: &[u64]) {
        let log = self.ctx.raft_log();
        let mut idx = log.last_entry_id();
        let mut es = vec![];
        for t in terms {
            idx += 1;
            es.push(Entry { index: idx, term: *t, payload: Some(EntryPayload::command(bytes::Bytes::from_static(b"x"))) });
        }
        log.append_entries(es).await.unwrap();
    }

    /// Drain the internal event channel into short tags (only deterministic, protocol-level events).
    pub fn events(&mut self) -> Vec<String> {
        let mut out = vec![];
        while let Ok(e) = self.rx.try_recv() {
            match e {
                InternalEvent::NotifyNewCommitIndex(d) => out.push(format!("N{}", d.new_commit_index)),
                InternalEvent::BecomeFollower(_) => out.push("BF".into()),
                InternalEvent::PromoteReadyLearners => out.push("PR".into()),
                InternalEvent::MembershipApplied => out.push("MA".into()),
                InternalEvent::StepDownSelfRemoved => out.push("SD".into()),
                InternalEvent::NoopCommitted { .. } => out.push("NC".into()),
                InternalEvent::BecomeLeader => out.push("BL".into()),
                InternalEvent::BecomeCandidate => out.push("BC".into()),
                InternalEvent::BecomeLearner => out.push("BLr".into()),
                _ => {}
            }
        }
        out
    }

    pub async fn members(&self) -> String { show_nodes(self.ctx.membership().members().await) }
}

pub fn show_map(m: &std::collections::HashMap<u32, u64>) -> String {
    let mut v: Vec<_> = m.iter().collect();
    v.sort();
    if v.is_empty() { "-".into() } else { v.iter().map(|(k, x)| format!("{}:{}", k, x)).collect::<Vec<_>>().join(",") }
}

pub fn err_tag(e: &d_engine_core::Error) -> String {
    let s = format!("{:?}", e);
    for (needle, t) in [
        ("HigherTerm", "higher-term"),
        ("NodeAlreadyExists", "exists"),
        ("NoMetadataFoundForNode", "no-node"),
        ("NotLearner", "not-learner"),
        ("JoinClusterError", "join-error"),
        ("InvalidPromotion", "invalid-promotion"),
    ] {
        if s.contains(needle) {
            return t.into();
        }
    }
    "error".into()
}
