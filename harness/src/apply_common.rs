//! Shared by the `apply` (C06) and `watch` (C24) families: a harness-defined `TypeConfig` over the REAL
//! `DefaultCommitHandler`, `DefaultStateMachineHandler`, `BufferedRaftLog`, and a recording/gated wrapper
//! around the REAL `FileStateMachine` (observer: it records every `apply_chunk` input and delegates).
#![allow(dead_code)]
use async_trait::async_trait;
use bytes::Bytes;
use d_engine_core::{
    ApplyEntry, ApplyResult, BufferedRaftLog, Command, DefaultCommitHandler, DefaultStateMachineHandler, Error,
    MockElectionCore, MockMembership, MockPurgeExecutor, MockReplicationCore, MockSnapshotPolicy, MockStorageEngine,
    MockTransport, ScanResult, StateMachine, TypeConfig,
};
use d_engine_proto::client::WriteCommand;
use d_engine_proto::common::membership_change::Change;
use d_engine_proto::common::{AddNode, Entry, EntryPayload, LogId, PromoteLearner};
use d_engine_proto::server::storage::SnapshotMetadata;
use d_engine_server::storage::FileStateMachine;
use prost::Message;
use std::sync::atomic::{AtomicBool, AtomicU64, Ordering};
use std::sync::{Arc, Mutex};

#[derive(Debug, Clone, Copy, Default, Eq, PartialEq, Ord, PartialOrd)]
pub struct Tc;

impl TypeConfig for Tc {
    type R = BufferedRaftLog<Self>;
    type SE = MockStorageEngine;
    type E = MockElectionCore<Self>;
    type TR = MockTransport<Self>;
    type SM = RecSm;
    type M = MockMembership<Self>;
    type REP = MockReplicationCore<Self>;
    type C = DefaultCommitHandler<Self>;
    type SMH = DefaultStateMachineHandler<Self>;
    type SNP = MockSnapshotPolicy;
    type PE = MockPurgeExecutor;
}

/// One recorded state-machine input.
#[derive(Clone, Debug)]
pub enum Rec {
    Chunk(Vec<(u64, Command)>),
    /// apply_snapshot_from_file(last_included.index)
    Snap(u64),
}

/// Recording, optionally gated wrapper around the real File state machine.
pub struct RecSm {
    pub inner: FileStateMachine,
    /// every apply_chunk call ((index, command) list) and every snapshot install, in call order
    pub chunks: Mutex<Vec<Rec>>,
    pub gated: AtomicBool,
    pub gate: tokio::sync::Semaphore,
    pub waiting: AtomicBool,
    pub done: AtomicU64,
    /// run the inner (file IO) apply on a helper thread with its own runtime and join it synchronously, so
    /// that the caller's runtime never gets to poll other tasks in the middle of apply_chunk
    pub sync_inner: AtomicBool,
}

impl std::fmt::Debug for RecSm {
    fn fmt(&self, f: &mut std::fmt::Formatter<'_>) -> std::fmt::Result {
        write!(f, "RecSm")
    }
}

impl RecSm {
    pub fn new(inner: FileStateMachine, gated: bool) -> Self {
        RecSm {
            inner,
            chunks: Mutex::new(vec![]),
            gated: AtomicBool::new(gated),
            gate: tokio::sync::Semaphore::new(0),
            waiting: AtomicBool::new(false),
            done: AtomicU64::new(0),
            sync_inner: AtomicBool::new(false),
        }
    }
}

struct DoneGuard<'a>(&'a AtomicU64);
impl Drop for DoneGuard<'_> {
    fn drop(&mut self) {
        self.0.fetch_add(1, Ordering::SeqCst);
    }
}

#[async_trait]
impl StateMachine for RecSm {
    async fn start(&self) -> Result<(), Error> {
        self.inner.start().await
    }
    fn stop(&self) -> Result<(), Error> {
        self.inner.stop()
    }
    fn is_running(&self) -> bool {
        self.inner.is_running()
    }
    fn get(&self, key_buffer: &[u8]) -> Result<Option<Bytes>, Error> {
        self.inner.get(key_buffer)
    }
    fn entry_term(&self, entry_id: u64) -> Option<u64> {
        self.inner.entry_term(entry_id)
    }
    async fn apply_chunk(&self, chunk: &[ApplyEntry]) -> Result<Vec<ApplyResult>, Error> {
        if self.gated.load(Ordering::SeqCst) {
            self.waiting.store(true, Ordering::SeqCst);
            let p = self.gate.acquire().await.expect("gate closed");
            p.forget();
            self.waiting.store(false, Ordering::SeqCst);
        }
        let _g = DoneGuard(&self.done);
        self.chunks.lock().unwrap().push(Rec::Chunk(chunk.iter().map(|e| (e.index, e.command.clone())).collect()));
        if self.sync_inner.load(Ordering::SeqCst) {
            let inner = &self.inner;
            return std::thread::scope(|sc| {
                sc.spawn(|| {
                    let rt = tokio::runtime::Builder::new_current_thread().enable_all().build().unwrap();
                    rt.block_on(inner.apply_chunk(chunk))
                })
                .join()
                .unwrap_or_else(|_| Err(Error::Fatal("state machine panicked".into())))
            });
        }
        self.inner.apply_chunk(chunk).await
    }
    fn len(&self) -> usize {
        self.inner.len()
    }
    fn update_last_applied(&self, last_applied: LogId) {
        self.inner.update_last_applied(last_applied)
    }
    fn last_applied(&self) -> LogId {
        self.inner.last_applied()
    }
    fn persist_last_applied(&self, last_applied: LogId) -> Result<(), Error> {
        self.inner.persist_last_applied(last_applied)
    }
    fn update_last_snapshot_metadata(&self, m: &SnapshotMetadata) -> Result<(), Error> {
        self.inner.update_last_snapshot_metadata(m)
    }
    fn snapshot_metadata(&self) -> Option<SnapshotMetadata> {
        self.inner.snapshot_metadata()
    }
    fn persist_last_snapshot_metadata(&self, m: &SnapshotMetadata) -> Result<(), Error> {
        self.inner.persist_last_snapshot_metadata(m)
    }
    async fn apply_snapshot_from_file(&self, m: &SnapshotMetadata, p: std::path::PathBuf) -> Result<(), Error> {
        self.chunks.lock().unwrap().push(Rec::Snap(m.last_included.map(|l| l.index).unwrap_or(0)));
        self.inner.apply_snapshot_from_file(m, p).await
    }
    async fn generate_snapshot_data(&self, d: std::path::PathBuf, l: LogId) -> Result<Bytes, Error> {
        self.inner.generate_snapshot_data(d, l).await
    }
    fn save_hard_state(&self) -> Result<(), Error> {
        self.inner.save_hard_state()
    }
    fn flush(&self) -> Result<(), Error> {
        self.inner.flush()
    }
    async fn flush_async(&self) -> Result<(), Error> {
        self.inner.flush_async().await
    }
    async fn reset(&self) -> Result<(), Error> {
        self.inner.reset().await
    }
    fn scan_prefix(&self, prefix: &[u8]) -> Result<ScanResult, Error> {
        self.inner.scan_prefix(prefix)
    }
}

pub const TERM: u64 = 1;

pub fn key_bytes(k: u64) -> Bytes {
    Bytes::from(format!("k{}", k))
}
pub fn val_bytes(v: u64) -> Bytes {
    Bytes::from(format!("{}", v))
}
pub fn key_num(b: &[u8]) -> String {
    let s = String::from_utf8_lossy(b);
    s.strip_prefix('k').map(|x| x.to_string()).unwrap_or_else(|| format!("?{}", dv::hex(b)))
}
pub fn val_num(b: &[u8]) -> String {
    String::from_utf8_lossy(b).to_string()
}

/// Payload tokens shared with the Lean drivers:
/// `p.K.V` put, `d.K` delete, `c.K.E.V` CAS (E = `n` for None), `n` noop, `g1`/`g0` config (membership
/// accepts / rejects it), `b` undecodable command bytes, `e` entry without payload.
pub fn payload_of(tok: &str, index: u64) -> Option<Option<EntryPayload>> {
    let f: Vec<&str> = tok.split('.').collect();
    let cmd = |wc: WriteCommand| {
        let mut buf = Vec::new();
        wc.encode(&mut buf).unwrap();
        Some(Some(EntryPayload::command(Bytes::from(buf))))
    };
    match (f[0], f.len()) {
        ("p", 3) => cmd(WriteCommand::insert(key_bytes(f[1].parse().ok()?), val_bytes(f[2].parse().ok()?))),
        ("d", 2) => cmd(WriteCommand::delete(key_bytes(f[1].parse().ok()?))),
        ("c", 4) => {
            let e = if f[2] == "n" { None } else { Some(val_bytes(f[2].parse().ok()?)) };
            cmd(WriteCommand::compare_and_swap(key_bytes(f[1].parse().ok()?), e, val_bytes(f[3].parse().ok()?)))
        }
        ("n", 1) => Some(Some(EntryPayload::noop())),
        ("g1", 1) => Some(Some(EntryPayload::config(Change::AddNode(AddNode {
            node_id: index as u32,
            address: "a".into(),
            status: 1,
        })))),
        ("g0", 1) => Some(Some(EntryPayload::config(Change::Promote(PromoteLearner { node_id: index as u32, status: 2 })))),
        ("b", 1) => Some(Some(EntryPayload::command(if index % 2 == 0 {
            Bytes::from_static(&[0xff, 0xff, 0xff])
        } else {
            Bytes::new() // decodes to WriteCommand { operation: None }
        }))),
        ("e", 1) => Some(None),
        _ => None,
    }
}

pub fn entry_of(tok: &str, index: u64) -> Option<Entry> {
    Some(Entry { index, term: TERM, payload: payload_of(tok, index)? })
}

pub fn show_cmd(c: &Command) -> String {
    match c {
        Command::Noop => "n".into(),
        Command::Insert { key, value, ttl_secs } => {
            format!("p.{}.{}{}", key_num(key), val_num(value), ttl_secs.map(|t| format!(".ttl{}", t)).unwrap_or_default())
        }
        Command::Delete { key } => format!("d.{}", key_num(key)),
        Command::CompareAndSwap { key, expected, value } => format!(
            "c.{}.{}.{}",
            key_num(key),
            expected.as_ref().map(|e| val_num(e)).unwrap_or_else(|| "n".into()),
            val_num(value)
        ),
    }
}

/// Membership mock: AddNode succeeds, Promote fails; every call is recorded as (node_id = entry index, ok).
pub fn membership(calls: Arc<Mutex<Vec<(u64, bool)>>>) -> MockMembership<Tc> {
    let mut m = MockMembership::<Tc>::new();
    m.expect_notify_config_applied().returning(|_| {});
    m.expect_apply_config_change().returning(move |ch| match ch.change {
        Some(Change::AddNode(a)) => {
            calls.lock().unwrap().push((a.node_id as u64, true));
            Ok(())
        }
        Some(Change::Promote(p)) => {
            calls.lock().unwrap().push((p.node_id as u64, false));
            Err(Error::Fatal("membership rejects this change".into()))
        }
        _ => Ok(()),
    });
    m
}

pub async fn yields(n: usize) {
    for _ in 0..n {
        tokio::task::yield_now().await;
    }
}
