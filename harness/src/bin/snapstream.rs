//! Family `snapstream` (C17): the REAL follower-side snapshot receive path
//! `DefaultStateMachineHandler::apply_snapshot_stream_from_leader` (→ `process_snapshot_stream` → `SnapshotAssembler`
//! `write_chunk`/`finalize` → decompress → real `FileStateMachine::apply_snapshot_from_file`) fed mutated chunk streams
//! through the mpsc channel it takes.
//!
//! The snapshot is a real one: a leader-side File state machine (k1=1,k2=2,k3=3) + real `create_snapshot`; its archive
//! is cut into `n` chunks shaped like `load_snapshot_data` shapes them (metadata on chunk 0 only, CRC32 big-endian,
//! leader_term = label term, leader_id = 1, total_chunks = n).
//!
//! case  : `n=<chunks>|item;item;...`   item = `<i>[+mod]*` or `hold` (last item: the channel is NOT closed → timeout)
//!   mods: `sum` checksum bytes corrupted · `data` data byte flipped (checksum stale) · `fix` data zeroed AND checksum
//!         recomputed (valid checksum, wrong content) · `term<k>` · `lead<k>` · `seq<k>` · `tot<k>` · `nometa` ·
//!         `meta` (real metadata attached) · `nolast` (metadata without last_included) · `old` (metadata label = the
//!         follower's existing old snapshot 1-1) · `empty` (no payload, correct 4-byte CRC of the empty string) · `lost`
//!         (no payload AND no checksum bytes) · `sumlen<k>` (checksum field of k bytes agreeing with the CRC as far as
//!         it can: low-order bytes / zero-extended)
//! output: `res=<ok|err:class> acks=<seq/status/next,...> sm=<k=v,...> la=<i.t> dir=<entries>`
//!   dir entries (sorted): `final:<i>-<t>=<A|OLD|cat|other>` (A = the leader's archive, cat = concatenation of the
//!   data of all stream items in order), `part` (temp assembly file), `other:<name>`.
//! case  : `loader|<n>`  — sender side: real `load_snapshot_data` with chunk_size = ceil(len/n); output = which of the
//!   structural facts hold (`total seq meta sum cat term lead`).
use bytes::Bytes;
use d_engine_core::{
    BufferedRaftLog, DefaultCommitHandler, DefaultStateMachineHandler, MockElectionCore, MockMembership,
    MockPurgeExecutor, MockReplicationCore, MockSnapshotPolicy, MockStorageEngine, MockTransport, SnapshotConfig,
    StateMachine, StateMachineHandler, TypeConfig,
};
use d_engine_proto::client::WriteCommand;
use d_engine_proto::common::{Entry, EntryPayload, LogId};
use d_engine_proto::server::storage::{snapshot_ack::ChunkStatus, SnapshotChunk, SnapshotMetadata};
use d_engine_server::storage::TtlLease;
use d_engine_server::FileStateMachine;
use dv::{family_main, rng::Rng};
use futures::StreamExt;
use prost::Message;
use std::path::Path;
use std::sync::atomic::AtomicUsize;
use std::sync::{Arc, OnceLock};

const TMP: &str = "/verif/target/tmp";
const OLD: &[u8] = b"OLD-SNAPSHOT-FILE";

#[derive(Debug)]
struct Tc;
impl TypeConfig for Tc {
    type R = BufferedRaftLog<Self>;
    type SE = MockStorageEngine;
    type E = MockElectionCore<Self>;
    type TR = MockTransport<Self>;
    type SM = FileStateMachine;
    type M = MockMembership<Self>;
    type REP = MockReplicationCore<Self>;
    type C = DefaultCommitHandler<Self>;
    type SMH = DefaultStateMachineHandler<Self>;
    type SNP = MockSnapshotPolicy;
    type PE = MockPurgeExecutor;
}

fn key(n: u64) -> Bytes { Bytes::from(format!("k{}", n)) }
fn val(n: u64) -> Bytes { Bytes::from(format!("v{}", n)) }

fn put(index: u64, term: u64, k: u64, v: u64) -> Entry {
    let wc = WriteCommand::insert(key(k), val(v));
    Entry { index, term, payload: Some(EntryPayload::command(Bytes::from(wc.encode_to_vec()))) }
}

fn snap_config(dir: &Path, chunk_size: usize) -> SnapshotConfig {
    let mut sc = SnapshotConfig::default();
    sc.snapshots_dir = dir.to_path_buf();
    sc.retained_log_entries = 1;
    sc.chunk_size = chunk_size;
    sc.receive_chunk_timeout_in_sec = 5;
    sc
}

fn handler(sm: Arc<FileStateMachine>, dir: &Path, chunk_size: usize) -> DefaultStateMachineHandler<Tc> {
    std::fs::create_dir_all(dir).unwrap();
    DefaultStateMachineHandler::<Tc>::new(1, sm.last_applied().index, sm, snap_config(dir, chunk_size), MockSnapshotPolicy::new(), None, Arc::new(AtomicUsize::new(0)))
}

async fn open_sm(p: &Path) -> Arc<FileStateMachine> {
    let mut sm = FileStateMachine::new(p.to_path_buf()).await.expect("open sm");
    sm.set_lease(Arc::new(TtlLease::new(d_engine_core::config::LeaseConfig::default())));
    let sm = Arc::new(sm);
    sm.start().await.expect("start");
    sm
}

unsafe extern "C" {
    fn dup(fd: i32) -> i32;
    fn dup2(a: i32, b: i32) -> i32;
    fn close(fd: i32) -> i32;
}
/// `create_snapshot` prints progress lines with `println!`; keep them out of the protocol stream.
struct QuietStdout(i32);
impl QuietStdout {
    fn new() -> Self {
        use std::io::Write;
        use std::os::fd::AsRawFd;
        std::io::stdout().flush().unwrap();
        let null = std::fs::OpenOptions::new().write(true).open("/dev/null").unwrap();
        unsafe { let saved = dup(1); dup2(null.as_raw_fd(), 1); QuietStdout(saved) }
    }
}
impl Drop for QuietStdout {
    fn drop(&mut self) { unsafe { dup2(self.0, 1); close(self.0); } }
}

struct Leader { root: tempfile::TempDir, archive: Vec<u8>, meta: SnapshotMetadata }
static LEADER: OnceLock<Leader> = OnceLock::new();

/// Leader side, once per process: real state machine, real create_snapshot.
async fn leader() -> &'static Leader {
    if let Some(l) = LEADER.get() { return l; }
    let root = tempfile::tempdir_in(TMP).unwrap();
    let sm = open_sm(&root.path().join("a")).await;
    let h = handler(sm.clone(), &root.path().join("a_snap"), 1 << 20);
    for (i, (k, v)) in [(1u64, 1u64), (2, 2), (3, 3)].iter().enumerate() {
        h.apply_chunk(vec![put(i as u64 + 1, 2, *k, *v)]).await.expect("apply leader");
    }
    // one more entry so that the label (last_applied - retained) is 3
    h.apply_chunk(vec![Entry { index: 4, term: 2, payload: Some(EntryPayload::noop()) }]).await.expect("apply leader");
    let (meta, path) = { let _q = QuietStdout::new(); h.create_snapshot().await.expect("create_snapshot") };
    let archive = std::fs::read(&path).expect("archive");
    sm.close_storage();
    let _ = LEADER.set(Leader { root, archive, meta });
    LEADER.get().unwrap()
}

fn crc(data: &[u8]) -> Bytes { Bytes::copy_from_slice(&crc32fast::hash(data).to_be_bytes()) }

fn pieces(archive: &[u8], n: usize) -> Vec<Vec<u8>> {
    (0..n).map(|i| archive[i * archive.len() / n..(i + 1) * archive.len() / n].to_vec()).collect()
}

fn classify(msg: &str) -> &'static str {
    let table = [
        ("Out-of-order chunk", "order"), ("Leader changed", "leader"), ("Checksum validation failed", "checksum"),
        ("Missing metadata", "nometa"), ("Received chunks(", "count"), ("No chunk received", "timeout"),
        ("snapshot_metadata is empty", "nolast"), ("Failed to unpack", "archive"), ("Invalid", "archive"),
        ("compressed", "archive"), ("gzip", "archive"), ("TooSmall", "archive"), ("InvalidGzipHeader", "archive"), ("too small", "archive"),
    ];
    for (needle, t) in table { if msg.contains(needle) { return t; } }
    "other"
}

async fn run_stream(n: usize, items: &[&str]) -> String {
    let l = leader().await;
    let label = l.meta.last_included.expect("label");
    let parts = pieces(&l.archive, n);
    let root = tempfile::tempdir_in(TMP).unwrap();
    // follower: own state (k9=9 applied at 1.1) and an old final snapshot file
    let b_sm = open_sm(&root.path().join("b")).await;
    let snap_dir = root.path().join("b_snap");
    let b_h = handler(b_sm.clone(), &snap_dir, 1 << 20);
    b_h.apply_chunk(vec![put(1, 1, 9, 9)]).await.expect("apply follower");
    let cfg = snap_config(&snap_dir, 1 << 20);
    let old_name = format!("{}1-1.tar.gz", cfg.snapshots_dir_prefix);
    std::fs::write(snap_dir.join(&old_name), OLD).unwrap();

    let mut hold = false;
    let mut stream: Vec<SnapshotChunk> = vec![];
    for it in items {
        if *it == "hold" { hold = true; continue; }
        let mut ms = it.split('+');
        let i: usize = match ms.next().and_then(|s| s.parse().ok()) { Some(i) if i < n => i, _ => return "bad-case".into() };
        let mut c = SnapshotChunk {
            leader_term: label.term, leader_id: 1, seq: i as u32, total_chunks: n as u32,
            chunk_checksum: crc(&parts[i]),
            metadata: if i == 0 { Some(l.meta.clone()) } else { None },
            data: Bytes::from(parts[i].clone()),
        };
        for m in ms {
            // both idempotent: `sum` = a checksum that certainly does not match the current data,
            // `data` = first byte differs from the pristine piece while the checksum stays that of the old data
            if m == "sum" { let mut s = crc(&c.data).to_vec(); s[0] ^= 0xff; c.chunk_checksum = Bytes::from(s); }
            else if m == "data" {
                let mut d = c.data.to_vec();
                if !d.is_empty() { d[0] = parts[i][0] ^ 0xff; }
                let mut s = crc(&d).to_vec(); s[0] ^= 0xff;
                c.chunk_checksum = Bytes::from(s); c.data = Bytes::from(d);
            }
            // payload lost, checksum = CRC32 of the empty string (a correct 4-byte checksum)
            else if m == "empty" { c.data = Bytes::new(); c.chunk_checksum = crc(&[]); }
            // payload AND checksum lost (CRC32("") = 0 and an empty field decodes to 0 — must still not validate)
            else if m == "lost" { c.data = Bytes::new(); c.chunk_checksum = Bytes::new(); }
            // checksum field of k bytes that agrees with the payload's CRC as far as it can: k < 4 → its low-order
            // k bytes, k > 4 → the CRC zero-extended on the left (same big-endian integer)
            else if let Some(k) = m.strip_prefix("sumlen") {
                let Ok(k) = k.parse::<usize>() else { return "bad-case".into() };
                if k > 64 { return "bad-case".into(); }
                let good = crc(&c.data).to_vec();
                let s: Vec<u8> = if k <= 4 { good[4 - k..].to_vec() } else { let mut z = vec![0u8; k - 4]; z.extend_from_slice(&good); z };
                c.chunk_checksum = Bytes::from(s);
            }
            else if m == "fix" { let d = vec![0u8; c.data.len()]; c.chunk_checksum = crc(&d); c.data = Bytes::from(d); }
            else if m == "nometa" { c.metadata = None; }
            else if m == "meta" { c.metadata = Some(l.meta.clone()); }
            else if m == "nolast" { c.metadata = Some(SnapshotMetadata { last_included: None, checksum: Bytes::new() }); }
            else if m == "old" { c.metadata = Some(SnapshotMetadata { last_included: Some(LogId { index: 1, term: 1 }), checksum: Bytes::new() }); }
            else if let Some(k) = m.strip_prefix("term") { c.leader_term = k.parse().unwrap_or(0); }
            else if let Some(k) = m.strip_prefix("lead") { c.leader_id = k.parse().unwrap_or(0); }
            else if let Some(k) = m.strip_prefix("seq") { c.seq = k.parse().unwrap_or(0); }
            else if let Some(k) = m.strip_prefix("tot") { c.total_chunks = k.parse().unwrap_or(0); }
            else { return "bad-case".into(); }
        }
        stream.push(c);
    }
    let cat: Vec<u8> = stream.iter().flat_map(|c| c.data.to_vec()).collect();
    let (tx, rx) = tokio::sync::mpsc::channel(1024);
    let (ack_tx, mut ack_rx) = tokio::sync::mpsc::channel(4096);
    for c in stream { tx.send(c).await.unwrap(); }
    let keep = if hold { Some(tx) } else { drop(tx); None };
    let res = b_h.apply_snapshot_stream_from_leader(label.term, rx, ack_tx, &cfg).await;
    drop(keep);
    let res = match res { Ok(()) => "ok".to_string(), Err(e) => { let k = classify(&format!("{e:?}")); format!("err:{}", if k == "nolast" || k == "archive" { "final" } else { k }) } };
    let mut acks = vec![];
    while let Ok(a) = ack_rx.try_recv() {
        let st = match ChunkStatus::try_from(a.status) {
            Ok(ChunkStatus::Accepted) => "acc", Ok(ChunkStatus::ChecksumMismatch) => "sum", Ok(ChunkStatus::OutOfOrder) => "ooo",
            Ok(ChunkStatus::Failed) => "fail", _ => "other",
        };
        acks.push(format!("{}/{}/{}", a.seq, st, a.next_requested));
    }
    let kv: Vec<String> = [1u64, 2, 3, 9].iter()
        .filter_map(|k| b_sm.get(&key(*k)).expect("get").map(|b| format!("{}={}", k, String::from_utf8_lossy(&b[1..])))).collect();
    let la = b_sm.last_applied();
    let mut dir: Vec<String> = vec![];
    for e in std::fs::read_dir(&snap_dir).unwrap() {
        let e = e.unwrap();
        let name = e.file_name().to_string_lossy().to_string();
        if name == "temp-snapshot.part.tar.gz" { dir.push("part".into()); continue; }
        if let Some(rest) = name.strip_prefix(&cfg.snapshots_dir_prefix).and_then(|r| r.strip_suffix(".tar.gz")) {
            let bytes = std::fs::read(e.path()).unwrap_or_default();
            let what = if bytes == l.archive { "A" } else if bytes == OLD { "OLD" } else if bytes == cat { "cat" } else { "other" };
            dir.push(format!("final:{}={}", rest, what));
        } else {
            dir.push(format!("other:{}", name));
        }
    }
    dir.sort();
    b_sm.close_storage();
    format!("res={} acks={} sm={} la={}.{} dir={}", res, if acks.is_empty() { "-".into() } else { acks.join(",") },
        if kv.is_empty() { "-".into() } else { kv.join(",") }, la.index, la.term, dir.join(","))
}

async fn run_loader(n: usize) -> String {
    let l = leader().await;
    let len = l.archive.len();
    let cs = len.div_ceil(n.max(1)).max(1);
    // a second handler over the leader's snapshot dir with the wanted chunk size
    let sm = open_sm(&l.root.path().join("a_loader")).await;
    let h = handler(sm.clone(), &l.root.path().join("a_snap"), cs);
    let mut st = match h.load_snapshot_data(l.meta.clone()).await { Ok(s) => s, Err(_) => return "load-err".into() };
    let mut chunks = vec![];
    while let Some(c) = st.next().await { match c { Ok(c) => chunks.push(c), Err(_) => return "chunk-err".into() } }
    sm.close_storage();
    let label = l.meta.last_included.unwrap();
    let mut facts = vec![];
    if chunks.len() == len.div_ceil(cs) && chunks.iter().all(|c| c.total_chunks as usize == chunks.len()) { facts.push("total"); }
    if chunks.iter().enumerate().all(|(i, c)| c.seq as usize == i) { facts.push("seq"); }
    if chunks.iter().enumerate().all(|(i, c)| c.metadata.is_some() == (i == 0)) && chunks.first().and_then(|c| c.metadata.clone()) == Some(l.meta.clone()) { facts.push("meta"); }
    if chunks.iter().all(|c| c.chunk_checksum == crc(&c.data)) { facts.push("sum"); }
    if chunks.iter().flat_map(|c| c.data.to_vec()).collect::<Vec<u8>>() == l.archive { facts.push("cat"); }
    if chunks.iter().all(|c| c.leader_term == label.term) { facts.push("term"); }
    if chunks.iter().all(|c| c.leader_id == 1) { facts.push("lead"); }
    facts.join(" ")
}

fn exec(case: &str) -> String {
    let Some((head, body)) = case.split_once('|') else { return "bad-case".into() };
    std::fs::create_dir_all(TMP).unwrap();
    // the handler unpacks snapshots into `tempfile::tempdir()`: keep that under /verif/target/tmp
    unsafe { std::env::set_var("TMPDIR", TMP) };
    // paused clock: the receive timeout elapses in virtual time as soon as the runtime is otherwise idle
    let rt = tokio::runtime::Builder::new_current_thread().enable_all().start_paused(true).build().unwrap();
    if head == "loader" {
        let Ok(n) = body.parse::<usize>() else { return "bad-case".into() };
        return rt.block_on(run_loader(n));
    }
    let Some(n) = head.strip_prefix("n=").and_then(|s| s.parse::<usize>().ok()) else { return "bad-case".into() };
    if n == 0 || n > 6 { return "bad-case".into() }
    let items: Vec<&str> = body.split(';').filter(|s| !s.is_empty()).collect();
    rt.block_on(run_stream(n, &items))
}

// ------------------------------------------------------------------------------------------ generator
fn generate(r: &mut Rng, count: usize, tier: &str) -> Vec<String> {
    let mut out = vec![
        "n=1|0".to_string(), "n=3|0;1;2".to_string(), "n=3|".to_string(), "n=2|0;hold".to_string(),
        "loader|1".to_string(), "loader|3".to_string(), "loader|7".to_string(),
    ];
    let sum_mods = ["lost", "empty", "sumlen0", "sumlen1", "sumlen3", "sumlen5", "sumlen8", "empty+sumlen0", "empty+sumlen8", "sum", "data"];
    let mods = ["lost", "empty", "sumlen0", "sumlen1", "sumlen3", "sumlen5", "sumlen8", "sum", "data", "fix", "term1", "term3", "lead2", "seq0", "seq1", "seq2", "seq9", "tot0", "tot1", "tot2", "tot3", "tot9",
        "nometa", "meta", "nolast", "old"];
    for i in 0..count {
        let n = 1 + r.below(4) as usize;
        let mut items: Vec<String> = (0..n).map(|i| i.to_string()).collect();
        let muts = match i % 5 { 0 => 0, 1 | 2 => 1, 3 => 2, _ => 1 + r.below(3) };
        for _ in 0..muts {
            match r.below(9) {
                0 if !items.is_empty() => { let j = r.below(items.len() as u64) as usize; items.remove(j); }            // drop
                1 if !items.is_empty() => { let j = r.below(items.len() as u64) as usize; let c = items[j].clone(); items.insert(j, c); } // duplicate
                2 if items.len() >= 2 => { let j = r.below(items.len() as u64 - 1) as usize; items.swap(j, j + 1); }  // reorder
                3 => { let k = r.below(items.len() as u64 + 1) as usize; items.truncate(k); }                       // early close
                4 => { items.push(r.below(n as u64).to_string()); }                                                 // extra chunk
                _ if !items.is_empty() => { let j = r.below(items.len() as u64) as usize; items[j] = format!("{}+{}", items[j], r.pick(&mods)); }
                _ => {}
            }
        }
        if r.chance(1, 12) { items.push("hold".into()); }
        out.push(format!("n={}|{}", n, items.join(";")));
        if i % 6 == 0 {
            // padded / substituted streams: the count check is satisfied by a chunk whose checksum FIELD is malformed
            // (wrong length, or lost together with the payload) — complete archive announced one chunk longer and
            // padded, or the last genuine chunk replaced
            let n = 1 + r.below(3) as usize;
            let m = *r.pick(&sum_mods);
            let mut it: Vec<String> = (0..n).map(|i| i.to_string()).collect();
            if r.chance(1, 2) {
                it[0] = format!("0+tot{}", n + 1);
                it.push(format!("{}+seq{}+{}", n - 1, n, m));
            } else {
                let last = it.len() - 1;
                it[last] = format!("{}+{}", it[last], m);
            }
            out.push(format!("n={}|{}", n, it.join(";")));
        }
    }
    if tier == "thorough" {
        // small scope: every stream of length <= 3 over the chunks of a 2-chunk snapshot, plain or with one header mod
        let alpha = ["0", "1", "1+lost", "1+seq2+lost", "0+tot3", "1+sumlen8", "1+empty", "0+sum", "1+sum", "1+term9", "1+lead9", "0+nometa", "0+tot1", "0+tot3", "1+seq0", "0+seq1", "0+fix", "1+fix"];
        for a in alpha { out.push(format!("n=2|{a}")); for b in alpha { out.push(format!("n=2|{a};{b}")); for c in alpha { out.push(format!("n=2|{a};{b};{c}")); } } }
    }
    out
}

fn main() { family_main(generate, exec); }
