//! Family `apply` (C06): the REAL `DefaultCommitHandler::run` loop (spawned task), the REAL
//! `DefaultStateMachineHandler` and the REAL `StateMachineWorker::run` loop (spawned task) over a real
//! `BufferedRaftLog` (memory part) and a recording, gated wrapper around the real `FileStateMachine`,
//! on a current-thread runtime, driven actor by actor:
//!
//! Case: `mb=<max_batch_size>|op;op;...`
//!   a:<payload>   append one entry to the raft log (payload tokens: see apply_common.rs)
//!   c:<n>         a commit notification with index n arrives (held back until the next `p`)
//!   p             the commit handler task runs until its channel is empty (held-back notifications are
//!                 put on the real channel first; the worker can only advance up to the state-machine gate)
//!   w             the SM worker applies the batch it holds at the gate (no-op if it holds none)
//!   r             node restart: tasks aborted, channels dropped, handler rebuilt from sm.last_applied()
//! After the last op the gate is opened and the shutdown signal sent (worker's graceful drain).
//! Output: `la=<handler.last_applied after each op> chunks=<a-b/..> applied=<i:cmd,..> kv=<k:v,..>
//!          smla=<n> cfg=<i:ok,..> ac=<ApplyCompleted.last_index,..>`
#[path = "../apply_common.rs"]
mod common;
use common::*;
use d_engine_core::{
    BufferedRaftLog, CommitHandler, CommitHandlerDependencies, DefaultCommitHandler, DefaultStateMachineHandler,
    FlushPolicy, InternalEvent, MockSnapshotPolicy, MockStorageEngine, NewCommitData, PersistenceConfig,
    PersistenceStrategy, RaftLog, SnapshotConfig, StateMachine, StateMachineHandler, StateMachineWorker,
};
use d_engine_server::storage::FileStateMachine;
use dv::{family_main, fields, rng::Rng};
use std::sync::atomic::{AtomicUsize, Ordering};
use std::sync::{Arc, Mutex, OnceLock};
use std::time::Duration;
use tokio::sync::{mpsc, watch};
use tokio::task::JoinHandle;

fn rt() -> &'static tokio::runtime::Runtime {
    static RT: OnceLock<tokio::runtime::Runtime> = OnceLock::new();
    RT.get_or_init(|| tokio::runtime::Builder::new_current_thread().enable_all().build().unwrap())
}

struct Node {
    handler: Arc<DefaultStateMachineHandler<Tc>>,
    commit_tx: mpsc::UnboundedSender<NewCommitData>,
    shutdown_tx: watch::Sender<()>,
    run_h: JoinHandle<()>,
    worker_h: JoinHandle<()>,
    ev_rx: mpsc::UnboundedReceiver<InternalEvent>,
}

fn build(
    sm: &Arc<RecSm>,
    log: &Arc<BufferedRaftLog<Tc>>,
    memb: &Arc<d_engine_core::MockMembership<Tc>>,
    mb: usize,
    snap_dir: &std::path::Path,
) -> Node {
    let mut sc = SnapshotConfig::default();
    sc.snapshots_dir = snap_dir.to_path_buf();
    let handler = Arc::new(DefaultStateMachineHandler::<Tc>::new(
        1,
        sm.last_applied().index,
        sm.clone(),
        sc,
        MockSnapshotPolicy::new(),
        None,
        Arc::new(AtomicUsize::new(0)),
    ));
    let (commit_tx, commit_rx) = mpsc::unbounded_channel();
    let (shutdown_tx, shutdown_rx) = watch::channel(());
    let (ev_tx, ev_rx) = mpsc::unbounded_channel();
    let (sm_apply_tx, sm_apply_rx) = mpsc::unbounded_channel();
    let deps = CommitHandlerDependencies::<Tc> {
        state_machine_handler: handler.clone(),
        raft_log: log.clone(),
        membership: memb.clone(),
        internal_event_tx: ev_tx.clone(),
        sm_apply_tx,
        shutdown_signal: shutdown_rx.clone(),
        max_batch_size: mb,
    };
    let mut ch = DefaultCommitHandler::<Tc>::new(1, 1, TERM, deps, commit_rx);
    let run_h = tokio::spawn(async move {
        let _ = ch.run().await;
    });
    let worker = StateMachineWorker::<Tc>::new(1, handler.clone(), sm_apply_rx, ev_tx, shutdown_rx);
    let worker_h = tokio::spawn(async move {
        let _ = worker.run().await;
    });
    Node { handler, commit_tx, shutdown_tx, run_h, worker_h, ev_rx }
}

/// Wait until the state machine wrapper has finished one more apply_chunk call (real file IO inside),
/// then give the worker a few polls to store last_applied, notify and reach the gate again.
async fn wait_done(sm: &RecSm, before: u64) {
    let mut spins = 0u64;
    while sm.done.load(Ordering::SeqCst) == before {
        tokio::task::yield_now().await;
        spins += 1;
        if spins > 200 {
            tokio::time::sleep(Duration::from_micros(200)).await;
        }
        if spins > 200_000 {
            break;
        }
    }
    yields(12).await;
}

fn drain_events(n: &mut Node, ac: &mut Vec<u64>) {
    while let Ok(ev) = n.ev_rx.try_recv() {
        if let InternalEvent::ApplyCompleted { last_index, .. } = ev {
            ac.push(last_index);
        }
    }
}

async fn exec_async(case: &str) -> String {
    let Some((head, body)) = case.rsplit_once('|') else { return "bad-case".into() };
    let mb: usize = match fields(head).get("mb").and_then(|x| x.parse().ok()) {
        Some(v) => v,
        None => return "bad-case".into(),
    };
    std::fs::create_dir_all("/verif/target/tmp").ok();
    let dir = tempfile::tempdir_in("/verif/target/tmp").unwrap();
    let fsm = FileStateMachine::new(dir.path().join("sm")).await.unwrap();
    let sm = Arc::new(RecSm::new(fsm, true));
    let (log, _io_rx) = BufferedRaftLog::<Tc>::new(
        1,
        PersistenceConfig {
            strategy: PersistenceStrategy::MemFirst,
            flush_policy: FlushPolicy::Batch { idle_flush_interval_ms: 1000 },
            max_buffered_entries: 100_000,
        },
        Arc::new(MockStorageEngine::with_id(format!("apply-{}", dir.path().display()))),
    );
    let log = Arc::new(log);
    let calls = Arc::new(Mutex::new(vec![]));
    let memb = Arc::new(membership(calls.clone()));
    let snap = dir.path().join("snap");
    let mut node = build(&sm, &log, &memb, mb, &snap);
    let mut held: Vec<u64> = vec![];
    let mut next_index = 1u64;
    let mut la = vec![];
    let mut ac = vec![];
    for op in body.split(';').filter(|t| !t.is_empty()) {
        let (k, arg) = op.split_once(':').unwrap_or((op, ""));
        match k {
            "a" => {
                let Some(e) = entry_of(arg, next_index) else { return "bad-case".into() };
                next_index += 1;
                log.append_entries(vec![e]).await.unwrap();
            }
            "c" => {
                let Ok(c) = arg.parse::<u64>() else { return "bad-case".into() };
                held.push(c);
            }
            "p" => {
                for c in held.drain(..) {
                    let _ = node.commit_tx.send(NewCommitData { new_commit_index: c, role: 1, current_term: TERM });
                }
                yields(12).await;
            }
            "w" => {
                if sm.waiting.load(Ordering::SeqCst) {
                    let before = sm.done.load(Ordering::SeqCst);
                    sm.gate.add_permits(1);
                    wait_done(&sm, before).await;
                }
            }
            "r" => {
                node.run_h.abort();
                node.worker_h.abort();
                yields(6).await;
                drain_events(&mut node, &mut ac);
                sm.waiting.store(false, Ordering::SeqCst);
                held.clear();
                node = build(&sm, &log, &memb, mb, &snap);
                yields(2).await;
            }
            _ => return "bad-case".into(),
        }
        drain_events(&mut node, &mut ac);
        la.push(node.handler.last_applied());
    }
    // final: open the gate, graceful shutdown (worker drains its channel), wait for the worker to end
    sm.gated.store(false, Ordering::SeqCst);
    sm.gate.add_permits(1 << 20);
    let _ = node.shutdown_tx.send(());
    let _ = tokio::time::timeout(Duration::from_secs(10), &mut node.worker_h).await;
    let _ = tokio::time::timeout(Duration::from_secs(10), &mut node.run_h).await;
    drain_events(&mut node, &mut ac);

    let chunks = sm.chunks.lock().unwrap().clone();
    let show_chunks = if chunks.is_empty() {
        "-".to_string()
    } else {
        chunks
            .iter()
            .map(|c| format!("{}-{}", c.first().map(|x| x.0).unwrap_or(0), c.last().map(|x| x.0).unwrap_or(0)))
            .collect::<Vec<_>>()
            .join("/")
    };
    let applied: Vec<String> = chunks.iter().flatten().map(|(i, c)| format!("{}:{}", i, show_cmd(c))).collect();
    let mut kv = vec![];
    for k in 0..8u64 {
        if let Ok(Some(v)) = sm.get(&key_bytes(k)) {
            kv.push(format!("{}:{}", k, val_num(&v)));
        }
    }
    let cfg: Vec<String> = calls.lock().unwrap().iter().map(|(i, ok)| format!("{}:{}", i, *ok as u8)).collect();
    let j = |v: Vec<String>| if v.is_empty() { "-".to_string() } else { v.join(",") };
    format!(
        "la={} fla={} chunks={} applied={} kv={} smla={} cfg={} ac={}",
        dv::show_list(&la),
        node.handler.last_applied(),
        show_chunks,
        j(applied),
        j(kv),
        sm.last_applied().index,
        j(cfg),
        dv::show_list(&ac)
    )
}

fn exec(case: &str) -> String {
    rt().block_on(exec_async(case))
}

const PAYLOADS: [&str; 12] =
    ["p.1.1", "p.2.5", "p.1.7", "d.1", "d.2", "c.1.n.3", "c.1.1.4", "c.2.5.6", "c.1.7.9", "n", "g1", "p.3.3"];

fn payload(r: &mut Rng, malformed: bool) -> String {
    if malformed {
        match r.below(10) {
            0 => return "b".into(),
            1 => return "e".into(),
            2 | 3 => return "g0".into(),
            _ => {}
        }
    }
    match r.below(6) {
        0 => "n".into(),
        1 => "g1".into(),
        2 => format!("p.{}.{}", r.below(4), r.below(4)),
        3 => format!("d.{}", r.below(4)),
        4 => {
            let e = if r.chance(1, 3) { "n".to_string() } else { r.below(4).to_string() };
            format!("c.{}.{}.{}", r.below(4), e, r.below(4))
        }
        _ => (*r.pick(&PAYLOADS)).to_string(),
    }
}

fn generate(r: &mut Rng, n: usize, tier: &str) -> Vec<String> {
    let mut out = vec![];
    // small-scope exhaustive: every schedule of {c:k, p, w} of length <= L over a fixed 4-entry log
    let depth = if tier == "thorough" { 6 } else { 4 };
    let alphabet = ["c:2", "c:4", "p", "w", "c:3"];
    let mut stack: Vec<Vec<&str>> = vec![vec![]];
    while let Some(s) = stack.pop() {
        if !s.is_empty() {
            out.push(format!("mb=2|a:p.1.1;a:n;a:c.1.1.2;a:g1;{}", s.join(";")));
        }
        if s.len() < depth {
            for a in alphabet.iter() {
                if tier != "thorough" && *a == "c:3" { continue; }
                let mut t = s.clone();
                t.push(a);
                stack.push(t);
            }
        }
    }
    if tier != "thorough" && out.len() > n / 2 {
        // keep a seeded sample of the enumeration in quick tier
        let mut keep = vec![];
        for c in out.drain(..) {
            if r.chance((n / 2) as u64, 340) { keep.push(c); }
        }
        out = keep;
    }
    for i in 0..n {
        let malformed = i % 5 == 4;
        let mb = *r.pick(&[0u64, 1, 2, 3, 10]);
        let mut ops = vec![];
        let mut len = 0u64;
        let mut commit = 0u64;
        let nops = 4 + r.below(20);
        for _ in 0..r.range(1, 6) {
            ops.push(format!("a:{}", payload(r, malformed)));
            len += 1;
        }
        for _ in 0..nops {
            match r.below(12) {
                0..=2 => {
                    ops.push(format!("a:{}", payload(r, malformed)));
                    len += 1;
                }
                3..=5 => {
                    // mostly monotone commit indexes within the log; sometimes stale or beyond the log
                    let c = match r.below(8) {
                        0 => r.below(len + 3),
                        1 => len + r.below(3),
                        _ => { commit = (commit + r.range(1, 3)).min(len.max(1)); commit }
                    };
                    ops.push(format!("c:{}", c));
                }
                6..=8 => ops.push("p".into()),
                9 | 10 => ops.push("w".into()),
                _ => if r.chance(1, 3) { ops.push("r".into()) } else { ops.push("w".into()) },
            }
        }
        out.push(format!("mb={}|{}", mb, ops.join(";")));
    }
    out
}

fn main() {
    family_main(generate, exec);
}
