//! Family `commit` (C09, part of C27): a real `LeaderState` over a real `BufferedRaftLog`, real
//! `ReplicationHandler` and real `RaftMembership`, fed AppendEntries acknowledgement sequences
//! (success / conflict / higher-term, out of order, from voters, learners and strangers), local
//! log-flush events, leader appends and membership flips.
//!
//! case   = `t=<term> c=<commit> cu=<catchup> log=<term of idx1,..> peers=<id:role:status,..>|op;op;..`
//! ops    = `ok:P:T:M` success ack of peer P, response term T, match index M
//!          `cf:P:T:CT:CI` conflict (`-` = field absent)      `ht:P:T` result HigherTerm(T)
//!          `fl:D` LogFlushed(D)     `ap:N` leader appends N entries of its term
//!          `add:ID:S` `rm:ID` `pro:ID` `bp:IDS` `br:IDS`  membership change applied + MembershipApplied
//! output = one record per step (step 0 = after becoming leader), joined by ` | `:
//!          `c<commit> t<term> m[id:idx,..] n[id:idx,..] p[ids] e[events]`
#[path = "../memb_env.rs"]
mod env;
use d_engine_core::leader_state::LeaderState;
use d_engine_core::role_state::RaftRoleState;
use d_engine_core::{Membership, RaftLog};
use d_engine_proto::common::{LogId, NodeRole, NodeStatus};
use d_engine_proto::server::cluster::NodeMeta;
use d_engine_proto::server::replication::{append_entries_response, AppendEntriesResponse, ConflictResult, SuccessResult};
use dv::{family_main, fields, nat_list, rng::Rng};
use env::*;

fn record(st: &LeaderState<T>, env: &mut Env, extra: Vec<String>) -> String {
    let snap = st.leader_state_snapshot();
    let mut pend: Vec<u32> = st.pending_promotions.iter().map(|p| p.node_id).collect();
    pend.sort();
    let mut ev = env.events();
    ev.extend(extra);
    format!(
        "c{} t{} m[{}] n[{}] p[{}] e[{}]",
        st.commit_index(),
        st.current_term(),
        show_map(&snap.match_index),
        show_map(&snap.next_index),
        if pend.is_empty() { "-".to_string() } else { pend.iter().map(|x| x.to_string()).collect::<Vec<_>>().join(",") },
        if ev.is_empty() { "-".to_string() } else { ev.join(",") }
    )
}

fn opt(s: &str) -> Option<u64> { if s == "-" { None } else { Some(s.parse().unwrap()) } }

async fn run(case: &str) -> String {
    let (head, ops) = case.split_once('|').unwrap_or((case, ""));
    let f = fields(head);
    let g = |k: &str| -> u64 { f.get(k).and_then(|s| s.parse().ok()).expect("field") };
    let mut initial = vec![NodeMeta { id: 1, address: addr(1), role: NodeRole::Follower as i32, status: NodeStatus::Active as i32 }];
    initial.extend(parse_nodes(f.get("peers").map(|s| s.as_str()).unwrap_or("-")));
    let mut env = Env::new(1, initial, g("cu")).await;
    env.append_terms(&nat_list(f.get("log").map(|s| s.as_str()).unwrap_or("-"))).await;

    let mut st = LeaderState::<T>::new(1, env.cfg.clone());
    st.update_current_term(g("t"));
    // same three steps as raft.rs BecomeLeader (without the noop proposal)
    let peer_ids = env.ctx.membership().get_peers_id_with_condition(|_| true).await;
    st.init_peers_next_index_and_match_index(env.ctx.raft_log().last_entry_id(), peer_ids).unwrap();
    let mem = env.ctx.membership.clone();
    st.init_cluster_metadata(&mem).await.unwrap();
    if g("c") > 0 {
        st.update_commit_index(g("c")).unwrap();
    }
    let mut out = vec![record(&st, &mut env, vec![])];
    for op in ops.split(';').filter(|s| !s.is_empty()) {
        let p: Vec<&str> = op.split(':').collect();
        let mut extra = vec![];
        let tx = env.tx.clone();
        match p[0] {
            "ok" | "cf" | "ht" => {
                let peer: u32 = p[1].parse().unwrap();
                let (term, result) = match p[0] {
                    "ok" => {
                        let t: u64 = p[2].parse().unwrap();
                        let m: u64 = p[3].parse().unwrap();
                        (t, append_entries_response::Result::Success(SuccessResult { last_match: Some(LogId { term: t, index: m }) }))
                    }
                    "cf" => (
                        p[2].parse().unwrap(),
                        append_entries_response::Result::Conflict(ConflictResult { conflict_term: opt(p[3]), conflict_index: opt(p[4]) }),
                    ),
                    _ => (st.current_term(), append_entries_response::Result::HigherTerm(p[2].parse().unwrap())),
                };
                let resp = AppendEntriesResponse { node_id: peer, term, result: Some(result) };
                if let Err(e) = st.handle_append_result(peer, Ok(resp), &env.ctx, &tx).await {
                    extra.push(format!("!{}", err_tag(&e)));
                }
            }
            "fl" => st.handle_log_flushed(p[1].parse().unwrap(), &env.ctx, &tx).await,
            "ap" => {
                let n: usize = p[1].parse().unwrap();
                let t = st.current_term();
                env.append_terms(&vec![t; n]).await;
            }
            _ if is_change_op(op) => {
                let ch = parse_change(op).unwrap();
                match env.ctx.membership().apply_config_change(ch).await {
                    Ok(()) => {
                        if let Err(e) = st.handle_membership_applied(&env.ctx, &tx).await {
                            extra.push(format!("!{}", err_tag(&e)));
                        }
                    }
                    Err(e) => extra.push(format!("!{}", err_tag(&e))),
                }
            }
            _ => extra.push("!bad-op".into()),
        }
        out.push(record(&st, &mut env, extra));
    }
    out.join(" | ")
}

fn exec(case: &str) -> String {
    let _gag = StdoutGag::new();
    rt().block_on(run(case))
}

// ------------------------------------------------------------------------------------ generator
fn gen_log(r: &mut Rng, term: u64, maxlen: u64) -> Vec<u64> {
    let n = r.below(maxlen + 1);
    let mut t = 1 + r.below(term);
    let mut v = vec![];
    for _ in 0..n {
        if t < term && r.chance(1, 3) { t += 1 + r.below(term - t); }
        v.push(t);
    }
    // most of the time the tail is of the leader's own term
    if r.chance(2, 3) {
        for _ in 0..r.below(3) { v.push(term); }
    }
    v
}

fn show_peers(ps: &[(u32, &str, &str)]) -> String {
    if ps.is_empty() { "-".into() } else { ps.iter().map(|(i, ro, s)| format!("{}:{}:{}", i, ro, s)).collect::<Vec<_>>().join(",") }
}

fn gen_case(r: &mut Rng, malformed: bool) -> String {
    let term = 1 + r.below(4);
    let log = gen_log(r, term, 6);
    let last = log.len() as u64;
    let commit = if last == 0 { 0 } else { r.below(last + 1) };
    let nv = r.below(5); // voter peers 0..4
    let nl = r.below(3); // learner peers 0..2
    let mut peers: Vec<(u32, &str, &str)> = vec![];
    let mut id = 2;
    for _ in 0..nv { peers.push((id, "f", "a")); id += 1; }
    for _ in 0..nl {
        let s = *r.pick(&["p", "p", "r", "a"]);
        peers.push((id, "l", s));
        id += 1;
    }
    if malformed && r.chance(1, 3) && !peers.is_empty() {
        // voter role with a non-Active status / candidate role: the status-vs-role corner (Q3)
        let k = r.below(peers.len() as u64) as usize;
        peers[k].1 = *r.pick(&["f", "c", "l"]);
        peers[k].2 = *r.pick(&["a", "p", "r"]);
    }
    let nops = 1 + r.below(9);
    let mut ops = vec![];
    let mut cur_last = last;
    let maxid = id + 1;
    for _ in 0..nops {
        let peer = if peers.is_empty() || (malformed && r.chance(1, 6)) { 2 + r.below(maxid as u64) as u32 } else { peers[r.below(peers.len() as u64) as usize].0 };
        match r.below(20) {
            0..=9 => {
                let t = match r.below(12) { 0 => term.saturating_sub(1), 1 if malformed => term + 1, _ => term };
                let m = match r.below(6) { 0 => r.below(cur_last + 3), 1 => cur_last, 2 => commit, _ => r.below(cur_last + 1) };
                ops.push(format!("ok:{}:{}:{}", peer, t, m));
            }
            10 | 11 => {
                let ct = match r.below(3) { 0 => "-".to_string(), _ => (1 + r.below(term + 1)).to_string() };
                let ci = match r.below(4) { 0 => "-".to_string(), _ => r.below(cur_last + 3).to_string() };
                let t = if r.chance(1, 8) { term.saturating_sub(1) } else { term };
                ops.push(format!("cf:{}:{}:{}:{}", peer, t, ct, ci));
            }
            12 => {
                if malformed { ops.push(format!("ht:{}:{}", peer, term + r.below(2))); } else { ops.push(format!("fl:{}", cur_last)); }
            }
            13 | 14 | 15 => ops.push(format!("fl:{}", r.below(cur_last + 1))),
            16 | 17 => { let n = 1 + r.below(2); cur_last += n; ops.push(format!("ap:{}", n)); }
            18 => {
                // learner -> voter flip in mid-flight
                let ls: Vec<u32> = peers.iter().filter(|p| p.1 == "l").map(|p| p.0).collect();
                if !ls.is_empty() {
                    if r.chance(1, 2) { ops.push(format!("pro:{}", ls[r.below(ls.len() as u64) as usize])); }
                    else { ops.push(format!("bp:{}", ls.iter().map(|x| x.to_string()).collect::<Vec<_>>().join(","))); }
                } else { ops.push(format!("add:{}:p", maxid)); }
            }
            _ => {
                match r.below(3) {
                    0 => ops.push(format!("rm:{}", peer)),
                    1 => ops.push(format!("add:{}:{}", 2 + r.below(maxid as u64), r.pick(&["p", "r", "a"]))),
                    _ => ops.push(format!("br:{}", peer)),
                }
            }
        }
    }
    format!(
        "t={} c={} cu={} log={} peers={}|{}",
        term, commit, 1 + r.below(3), dv::show_list(&log), show_peers(&peers), ops.join(";")
    )
}

/// small-scope exhaustive: all match vectors over `nv` voter peers with values 0..=maxv, one flush
fn enumerate(nv: u32, maxv: u64, out: &mut Vec<String>) {
    let total = (maxv + 1).pow(nv);
    let peers: Vec<(u32, &str, &str)> = (0..nv).map(|i| (2 + i, "f", "a")).collect();
    let log: Vec<u64> = (0..maxv).map(|i| if i == 0 { 1 } else { 2 }).collect();
    for code in 0..total {
        let mut c = code;
        let mut ops = vec![];
        for i in 0..nv {
            let v = c % (maxv + 1);
            c /= maxv + 1;
            if v > 0 { ops.push(format!("ok:{}:2:{}", 2 + i, v)); }
        }
        ops.push(format!("fl:{}", maxv));
        out.push(format!("t=2 c=0 cu=1 log={} peers={}|{}", dv::show_list(&log), show_peers(&peers), ops.join(";")));
    }
}

fn generate(r: &mut Rng, n: usize, tier: &str) -> Vec<String> {
    let mut out = vec![];
    // boundary: no peers at all (single voter), only learners, one voter
    out.push("t=1 c=0 cu=1 log=1,1 peers=-|fl:2;fl:2;ap:1;fl:1".to_string());
    out.push("t=2 c=0 cu=1 log=1,2 peers=2:l:p|fl:2;ok:2:2:2;ap:1;fl:3".to_string());
    out.push("t=2 c=0 cu=1 log=1,2 peers=2:f:a|fl:2;ok:2:2:1;ok:2:2:2;ok:2:2:1".to_string());
    if tier == "thorough" {
        for nv in 1..=4 { enumerate(nv, 3, &mut out); }
    } else {
        for nv in 1..=3 { enumerate(nv, 2, &mut out); }
    }
    for i in 0..n {
        out.push(gen_case(r, i % 5 == 4));
    }
    out
}

fn main() { family_main(generate, exec); }
