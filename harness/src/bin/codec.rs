//! Family `codec` (C37): the REAL write path from a client operation to the command the state machine gets.
//!
//! Cases
//!   op|put:<k>:<v>:<ttl>      WriteOperation::Insert, ttl = `_` (None) or a decimal u64 (Some)
//!   op|del:<k>                WriteOperation::Delete
//!   op|cas:<k>:<e>:<v>        WriteOperation::CompareAndSwap, e = `_` (None) | hex | `-` (Some(empty))
//!        → `write_op_to_proto` (leader_state.rs, hook) → `client_command_to_entry_payloads` (prost encode)
//!        → `Entry` → `decode_entries` (prost decode + `TryFrom<WriteCommand>`)
//!        output `bytes=<hex> cmd=<command>`
//!   wc|put:<k>:<v>:<ttl>  wc|del:<k>  wc|cas:<k>:<e>:<v>  wc|none
//!        a gRPC client's proto `WriteCommand` (ttl decimal u64) → `write_command_to_op` (proto_convert.rs, hook)
//!        → same chain; output `op=<operation> bytes=<hex> cmd=<command>` (`wc|none` panics: unreachable!())
//!   raw|<hex>                 arbitrary log bytes → `decode_entries`; output `cmd=<command>` or `err`
//! bytes are lowercase hex, `-` = empty.
use bytes::Bytes;
use d_engine_core::client::WriteOperation;
use d_engine_core::{Command, client_command_to_entry_payloads, decode_entries};
use d_engine_proto::client::WriteCommand;
use d_engine_proto::common::{Entry, EntryPayload, entry_payload::Payload};
use dv::{family_main, hex, rng::Rng, unhex};

fn b(s: &str) -> Bytes {
    Bytes::from(unhex(s))
}
fn optb(s: &str) -> Option<Bytes> {
    if s == "_" { None } else { Some(b(s)) }
}
fn show_opt(v: &Option<Bytes>) -> String {
    match v {
        None => "_".into(),
        Some(x) => hex(x),
    }
}
fn show_ttl(t: &Option<u64>) -> String {
    match t {
        None => "_".into(),
        Some(x) => x.to_string(),
    }
}

fn show_cmd(c: &Command) -> String {
    match c {
        Command::Noop => "noop".into(),
        Command::Insert { key, value, ttl_secs } => format!("put:{}:{}:{}", hex(key), hex(value), show_ttl(ttl_secs)),
        Command::Delete { key } => format!("del:{}", hex(key)),
        Command::CompareAndSwap { key, expected, value } => format!("cas:{}:{}:{}", hex(key), show_opt(expected), hex(value)),
    }
}
fn show_op(o: &WriteOperation) -> String {
    match o {
        WriteOperation::Insert { key, value, ttl_secs } => format!("put:{}:{}:{}", hex(key), hex(value), show_ttl(ttl_secs)),
        WriteOperation::Delete { key } => format!("del:{}", hex(key)),
        WriteOperation::CompareAndSwap { key, expected, new_value } => {
            format!("cas:{}:{}:{}", hex(key), show_opt(expected), hex(new_value))
        }
    }
}

fn decode(bytes: Bytes) -> String {
    let e = Entry { index: 1, term: 1, payload: Some(EntryPayload { payload: Some(Payload::Command(bytes)) }) };
    match decode_entries(vec![e]) {
        Ok(v) if v.len() == 1 && v[0].index == 1 && v[0].term == 1 => format!("cmd={}", show_cmd(&v[0].command)),
        Ok(_) => "cmd=wrong-shape".into(),
        Err(_) => "err".into(),
    }
}

/// leader side: native op → proto → payload bytes → decode
fn chain(op: WriteOperation) -> String {
    let wc = d_engine_core::leader_state::verif_write_op_to_proto(op);
    let payload = client_command_to_entry_payloads(vec![wc]).into_iter().next().unwrap();
    let bytes = match payload.payload {
        Some(Payload::Command(b)) => b,
        _ => return "payload-not-command".into(),
    };
    format!("bytes={} {}", hex(&bytes), decode(bytes))
}

fn exec(case: &str) -> String {
    let Some((kind, body)) = case.split_once('|') else { return "bad-case".into() };
    let f: Vec<&str> = body.split(':').collect();
    match kind {
        "op" => {
            let op = match (f[0], f.len()) {
                ("put", 4) => WriteOperation::Insert {
                    key: b(f[1]),
                    value: b(f[2]),
                    ttl_secs: if f[3] == "_" { None } else { Some(f[3].parse().unwrap()) },
                },
                ("del", 2) => WriteOperation::Delete { key: b(f[1]) },
                ("cas", 4) => WriteOperation::CompareAndSwap { key: b(f[1]), expected: optb(f[2]), new_value: b(f[3]) },
                _ => return "bad-case".into(),
            };
            chain(op)
        }
        "wc" => {
            let wc = match (f[0], f.len()) {
                ("put", 4) => WriteCommand::insert_with_ttl(b(f[1]), b(f[2]), f[3].parse().unwrap()),
                ("del", 2) => WriteCommand::delete(b(f[1])),
                ("cas", 4) => WriteCommand::compare_and_swap(b(f[1]), optb(f[2]), b(f[3])),
                ("none", 1) => WriteCommand { operation: None },
                _ => return "bad-case".into(),
            };
            let op = d_engine_server::verif_proto_convert::write_command_to_op(wc);
            format!("op={} {}", show_op(&op), chain(op))
        }
        "raw" => decode(b(body)),
        _ => "bad-case".into(),
    }
}

// ------------------------------------------------------------------------------------------ generator
fn rand_bytes(r: &mut Rng) -> String {
    match r.below(10) {
        0 | 1 => "-".into(),
        2 => "00".into(),
        3 => "ff".into(),
        4 => {
            // long enough for a 2-byte length varint (>= 128) and sometimes a 3-byte one
            let n = *r.pick(&[127usize, 128, 129, 300, 16383, 16384, 20000]);
            (0..n).map(|i| format!("{:02x}", (i * 7 + 3) % 256)).collect()
        }
        _ => {
            let n = r.range(1, 12);
            (0..n).map(|_| format!("{:02x}", r.below(256))).collect()
        }
    }
}
fn rand_ttl(r: &mut Rng) -> u64 {
    match r.below(6) {
        0 => 0,
        1 => *r.pick(&[1u64, 127, 128, 255, 256, 16383, 16384, 1 << 32, (1 << 32) - 1, 1 << 35, 1 << 56, 1 << 63, u64::MAX - 1, u64::MAX]),
        2 => r.next(),
        _ => r.range(1, 100_000),
    }
}

fn varint(mut v: u64) -> Vec<u8> {
    let mut out = vec![];
    loop {
        if v < 0x80 {
            out.push(v as u8);
            return out;
        }
        out.push((v & 0x7f) as u8 | 0x80);
        v >>= 7;
    }
}

/// one (possibly unknown / malformed) field
fn rand_field(r: &mut Rng, depth: u32) -> Vec<u8> {
    let tag = match r.below(16) {
        0 | 1 | 2 => r.range(4, 40),
        3 => *r.pick(&[0u64, 1 << 28, (1 << 29) - 1, 1 << 29, 1 << 40]),
        _ => r.range(1, 3),
    };
    let wt = match r.below(24) {
        0 | 1 => 0,
        2 => 1,
        3 => 5,
        4 => *r.pick(&[6u64, 7, 4]),
        5 | 6 => 3,
        7 | 8 if tag == 3 => 0,
        _ => 2,
    };
    let mut out = varint(tag << 3 | wt);
    match wt {
        0 => {
            if r.chance(1, 8) {
                // overlong / overflowing varint
                let n = r.range(9, 11);
                for i in 0..n {
                    out.push(if i + 1 == n { *r.pick(&[0x00u8, 0x01, 0x02, 0x7f]) } else { 0xff });
                }
            } else {
                out.extend(varint(rand_ttl(r)));
            }
        }
        1 => out.extend((0..if r.chance(1, 8) { 5 } else { 8 }).map(|i| i as u8)),
        5 => out.extend((0..if r.chance(1, 8) { 2 } else { 4 }).map(|i| i as u8)),
        3 => {
            // group: inner fields, then the end-group key (sometimes with the wrong tag / missing)
            if depth > 0 {
                let n = r.below(3);
                for _ in 0..n {
                    out.extend(rand_field(r, depth - 1));
                }
            }
            match r.below(8) {
                0 => {}
                1 => out.extend(varint((tag + 1) << 3 | 4)),
                _ => out.extend(varint(tag << 3 | 4)),
            }
        }
        2 => {
            let body: Vec<u8> = if depth > 0 && r.chance(2, 3) {
                let n = r.below(4);
                (0..n).flat_map(|_| rand_field(r, depth - 1)).collect()
            } else {
                dv::unhex(&rand_bytes(r))
            };
            let len = match r.below(16) {
                0 => body.len() as u64 + r.range(1, 3), // claims more than there is
                1 if !body.is_empty() => body.len() as u64 - 1, // claims less: the rest is parsed as further fields
                _ => body.len() as u64,
            };
            out.extend(varint(len));
            out.extend(body);
        }
        _ => {}
    }
    out
}

/// a well-formed field of sub-message `variant` (1 Insert, 2 Delete, 3 CompareAndSwap): known tags with the
/// right wire type, or an unknown tag with any skippable wire type (incl. a group)
fn good_field(r: &mut Rng, variant: u64, depth: u32) -> Vec<u8> {
    let ld = |tag: u64, body: Vec<u8>| {
        let mut o = varint(tag << 3 | 2);
        o.extend(varint(body.len() as u64));
        o.extend(body);
        o
    };
    let known: &[u64] = match variant {
        0 => &[],
        1 => &[1, 2, 3],
        2 => &[1],
        _ => &[1, 2, 3],
    };
    if !known.is_empty() && r.chance(3, 4) {
        let tag = *r.pick(known);
        if variant == 1 && tag == 3 {
            let mut o = varint(3 << 3);
            o.extend(varint(rand_ttl(r)));
            o
        } else {
            ld(tag, dv::unhex(&rand_bytes(r)))
        }
    } else {
        let tag = r.range(4, 300);
        match r.below(5) {
            0 => {
                let mut o = varint(tag << 3);
                o.extend(varint(r.next()));
                o
            }
            1 => {
                let mut o = varint(tag << 3 | 1);
                o.extend([1u8; 8]);
                o
            }
            2 => {
                let mut o = varint(tag << 3 | 5);
                o.extend([2u8; 4]);
                o
            }
            3 if depth > 0 => {
                let mut o = varint(tag << 3 | 3);
                for _ in 0..r.below(3) {
                    o.extend(good_field(r, 0, depth - 1));
                }
                o.extend(varint(tag << 3 | 4));
                o
            }
            _ => ld(tag, dv::unhex(&rand_bytes(r))),
        }
    }
}

/// a well-formed but unusual `WriteCommand` encoding: repeated / reordered / unknown fields, several
/// occurrences of the oneof (same variant merges, another variant replaces)
fn good_stream(r: &mut Rng) -> Vec<u8> {
    let mut out = vec![];
    for _ in 0..r.range(1, 3) {
        if r.chance(1, 5) {
            out.extend(good_field(r, 0, 2).into_iter()); // unknown at top level (tags ≥ 4 only when variant = 0)
            continue;
        }
        let variant = r.range(1, 3);
        let body: Vec<u8> = (0..r.below(5)).flat_map(|_| good_field(r, variant, 2)).collect();
        out.extend(varint(variant << 3 | 2));
        out.extend(varint(body.len() as u64));
        out.extend(body);
    }
    out
}

fn generate(r: &mut Rng, n: usize, _tier: &str) -> Vec<String> {
    let mut out: Vec<String> = vec![];
    // boundary grid: every shape × empty/non-empty × ttl boundaries
    for k in ["-", "6b"] {
        for v in ["-", "76"] {
            for ttl in ["_", "0", "1", "127", "128", "18446744073709551615"] {
                out.push(format!("op|put:{}:{}:{}", k, v, ttl));
                if ttl != "_" {
                    out.push(format!("wc|put:{}:{}:{}", k, v, ttl));
                }
            }
            for e in ["_", "-", "65"] {
                out.push(format!("op|cas:{}:{}:{}", k, e, v));
                out.push(format!("wc|cas:{}:{}:{}", k, e, v));
            }
        }
        out.push(format!("op|del:{}", k));
        out.push(format!("wc|del:{}", k));
    }
    out.push("wc|none".into());
    out.push("raw|-".into());
    for i in 0..n {
        match i % 5 {
            0 | 1 => {
                // structured valid operations
                let c = match r.below(7) {
                    0 | 1 | 2 => {
                        let ttl = if r.chance(1, 3) { "_".to_string() } else { rand_ttl(r).to_string() };
                        format!("put:{}:{}:{}", rand_bytes(r), rand_bytes(r), ttl)
                    }
                    3 => format!("del:{}", rand_bytes(r)),
                    _ => {
                        let e = if r.chance(1, 3) { "_".to_string() } else { rand_bytes(r) };
                        format!("cas:{}:{}:{}", rand_bytes(r), e, rand_bytes(r))
                    }
                };
                out.push(format!("op|{}", c));
            }
            2 => {
                let c = match r.below(6) {
                    0 | 1 | 2 => format!("put:{}:{}:{}", rand_bytes(r), rand_bytes(r), rand_ttl(r)),
                    3 => format!("del:{}", rand_bytes(r)),
                    _ => {
                        let e = if r.chance(1, 3) { "_".to_string() } else { rand_bytes(r) };
                        format!("cas:{}:{}:{}", rand_bytes(r), e, rand_bytes(r))
                    }
                };
                out.push(format!("wc|{}", c));
            }
            3 => out.push(format!("raw|{}", hex(&good_stream(r)))),
            _ => {
                // malformed / unusual byte streams for the decoder: repeated fields, repeated oneof variants,
                // unknown tags, wrong wire types, truncation, bad varints
                let nf = r.range(0, 3);
                let mut bytes: Vec<u8> = (0..nf).flat_map(|_| rand_field(r, 2)).collect();
                if r.chance(1, 6) && !bytes.is_empty() {
                    let cut = r.below(bytes.len() as u64) as usize;
                    bytes.truncate(cut);
                }
                out.push(format!("raw|{}", hex(&bytes)));
            }
        }
    }
    out
}

fn main() {
    family_main(generate, exec);
}
