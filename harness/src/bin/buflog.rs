//! Family `buflog` (C19, C18): the REAL `BufferedRaftLog` driven op by op.
//!
//! * The log is built with `BufferedRaftLog::new`; `start()` is NOT called. Its IO loop is the real
//!   `batch_processor`, obtained as a future through the hook `verif_io_loop` and polled by this harness only at
//!   the points the case prescribes (paused tokio clock, current-thread runtime) => deterministic IO stepping.
//! * Storage: an in-memory reference `StorageEngine` written here (`SimEngine`: map + purge boundary, volatile copy
//!   and durable copy, `flush()` copies volatile to durable) or the real `FileStorageEngine`; both wrapped in a
//!   journaling layer that records the sequence of store calls.
//! * Where two arms of the IO loop's `tokio::select!` are ready at once tokio picks at random. The case says in
//!   which order ready arms are meant to run; the harness knows which arms are ready at every poll, reads the arm
//!   trace of the real loop (hook `verif_arm_trace`) and re-runs the whole case (fresh runtime => fresh random
//!   seed) until the real code took the requested order (`sched-fail` after 2000 tries).
//!
//! Case:  `e=sim|op;op;...`  (or `e=file|...`)          entries are `index.term.payload` joined by `,` (`-` = none)
//!   a:<es>            append_entries
//!   f:<pi>.<pt>:<es>  filter_out_conflicts_and_append
//!   p:<i>.<t>         purge_logs_up_to
//!   r                 reset
//!   fl                flush
//!   al:<n>            pre_allocate_id_range(n)
//!   g:<a>.<b>         get_entries_range(a..=b)
//!   io                poll the IO loop (runs whatever arm is ready)
//!   close             close() (Shutdown task), poll the IO loop
//! f, p, r, fl, io, close take a scheduling annotation on the name: a leading `+` advances the paused clock by the
//! idle interval first (timer tick due; the loop is then also polled at the end of the op), and `@xyz` (a permutation
//! of c=command arm, n=notify arm, t=timer arm) is the order in which ready arms are meant to run (default `@cnt`).
//!   c:p / c:w         crash (process: volatile image survives / power loss: durable image survives), reopen with `new`
//! Output: one record per op joined by `;`:  `<result> <snapshot>`.
use std::collections::BTreeMap;
use std::future::Future;
use std::marker::PhantomData;
use std::ops::RangeInclusive;
use std::pin::Pin;
use std::sync::{Arc, Mutex};
use std::task::Poll;
use std::time::Duration;

use async_trait::async_trait;
use bytes::Bytes;
use d_engine_core::verif_arm_trace;
use d_engine_core::{
    BufferedRaftLog, Error, FlushPolicy, HardState, LogStore, MetaStore, MockCommitHandler, MockElectionCore,
    MockMembership, MockPurgeExecutor, MockReplicationCore, MockSnapshotPolicy, MockStateMachine,
    MockStateMachineHandler, MockTransport, PersistenceConfig, PersistenceStrategy, RaftLog, StorageEngine, TypeConfig,
};
use d_engine_proto::common::entry_payload::Payload;
use d_engine_proto::common::{Entry, EntryPayload, LogId};
use d_engine_server::{FileStorageEngine, RocksDBStorageEngine};
use dv::{family_main, rng::Rng};

const IDLE_MS: u64 = 1000;
const GRID_IDX: u64 = 10;
const GRID_TERM: u64 = 5;
const DUMP_MAX: u64 = 200;

// ------------------------------------------------------------------------------------ reference store
#[derive(Clone, Default, Debug)]
struct Img {
    ents: BTreeMap<u64, Entry>,
    boundary: Option<LogId>,
}

#[derive(Default, Debug)]
struct SimInner {
    v: Img,
    d: Img,
}

#[derive(Debug, Default)]
struct SimLogStore {
    inner: Mutex<SimInner>,
}

#[async_trait]
impl LogStore for SimLogStore {
    async fn persist_entries(&self, entries: Vec<Entry>) -> Result<(), Error> {
        let mut g = self.inner.lock().unwrap();
        for e in entries {
            g.v.ents.insert(e.index, e);
        }
        Ok(())
    }
    async fn entry(&self, index: u64) -> Result<Option<Entry>, Error> {
        Ok(self.inner.lock().unwrap().v.ents.get(&index).cloned())
    }
    fn get_entries(&self, range: RangeInclusive<u64>) -> Result<Vec<Entry>, Error> {
        if range.start() > range.end() {
            return Ok(vec![]);
        }
        Ok(self.inner.lock().unwrap().v.ents.range(range).map(|(_, e)| e.clone()).collect())
    }
    async fn purge(&self, cutoff: LogId) -> Result<(), Error> {
        let mut g = self.inner.lock().unwrap();
        g.v.ents.retain(|&i, _| i > cutoff.index);
        g.v.boundary = Some(cutoff);
        Ok(())
    }
    async fn truncate(&self, from: u64) -> Result<(), Error> {
        self.inner.lock().unwrap().v.ents.retain(|&i, _| i < from);
        Ok(())
    }
    async fn replace_range(&self, from: u64, new_entries: Vec<Entry>) -> Result<(), Error> {
        let mut g = self.inner.lock().unwrap();
        g.v.ents.retain(|&i, _| i < from);
        for e in new_entries {
            g.v.ents.insert(e.index, e);
        }
        Ok(())
    }
    fn is_write_durable(&self) -> bool {
        false
    }
    fn flush(&self) -> Result<(), Error> {
        let mut g = self.inner.lock().unwrap();
        g.d = g.v.clone();
        Ok(())
    }
    async fn flush_async(&self) -> Result<(), Error> {
        self.flush()
    }
    async fn reset(&self) -> Result<(), Error> {
        self.inner.lock().unwrap().v.ents.clear();
        Ok(())
    }
    fn last_index(&self) -> u64 {
        self.inner.lock().unwrap().v.ents.keys().next_back().copied().unwrap_or(0)
    }
    fn load_purge_boundary(&self) -> Result<Option<LogId>, Error> {
        Ok(self.inner.lock().unwrap().v.boundary)
    }
}

#[derive(Debug, Default)]
struct SimMetaStore {
    hs: Mutex<Option<HardState>>,
}
impl MetaStore for SimMetaStore {
    fn save_hard_state(&self, state: &HardState) -> Result<(), Error> {
        *self.hs.lock().unwrap() = Some(*state);
        Ok(())
    }
    fn load_hard_state(&self) -> Result<Option<HardState>, Error> {
        Ok(*self.hs.lock().unwrap())
    }
}

#[derive(Debug, Default)]
struct SimEngine {
    log: Arc<SimLogStore>,
    meta: Arc<SimMetaStore>,
}
impl StorageEngine for SimEngine {
    type LogStore = SimLogStore;
    type MetaStore = SimMetaStore;
    fn log_store(&self) -> Arc<SimLogStore> {
        self.log.clone()
    }
    fn meta_store(&self) -> Arc<SimMetaStore> {
        self.meta.clone()
    }
}

// ------------------------------------------------------------------------------------ journaling wrapper
#[derive(Clone, Copy, Debug, PartialEq, Eq)]
enum Act {
    Persist,
    Replace,
    Purge,
    Reset,
    Truncate,
    Flush,
}

struct JLog<L: LogStore> {
    inner: Arc<L>,
    journal: Arc<Mutex<Vec<Act>>>,
}
impl<L: LogStore> std::fmt::Debug for JLog<L> {
    fn fmt(&self, f: &mut std::fmt::Formatter<'_>) -> std::fmt::Result {
        f.write_str("JLog")
    }
}
impl<L: LogStore> JLog<L> {
    fn rec(&self, a: Act) {
        self.journal.lock().unwrap().push(a);
    }
}

#[async_trait]
impl<L: LogStore> LogStore for JLog<L> {
    async fn persist_entries(&self, entries: Vec<Entry>) -> Result<(), Error> {
        self.rec(Act::Persist);
        self.inner.persist_entries(entries).await
    }
    async fn entry(&self, index: u64) -> Result<Option<Entry>, Error> {
        self.inner.entry(index).await
    }
    fn get_entries(&self, range: RangeInclusive<u64>) -> Result<Vec<Entry>, Error> {
        self.inner.get_entries(range)
    }
    async fn purge(&self, cutoff: LogId) -> Result<(), Error> {
        self.rec(Act::Purge);
        self.inner.purge(cutoff).await
    }
    async fn truncate(&self, from: u64) -> Result<(), Error> {
        self.rec(Act::Truncate);
        self.inner.truncate(from).await
    }
    async fn replace_range(&self, from: u64, new_entries: Vec<Entry>) -> Result<(), Error> {
        self.rec(Act::Replace);
        self.inner.replace_range(from, new_entries).await
    }
    fn is_write_durable(&self) -> bool {
        self.inner.is_write_durable()
    }
    fn flush(&self) -> Result<(), Error> {
        self.rec(Act::Flush);
        self.inner.flush()
    }
    async fn flush_async(&self) -> Result<(), Error> {
        self.inner.flush_async().await
    }
    async fn reset(&self) -> Result<(), Error> {
        self.rec(Act::Reset);
        self.inner.reset().await
    }
    fn last_index(&self) -> u64 {
        self.inner.last_index()
    }
    fn load_purge_boundary(&self) -> Result<Option<LogId>, Error> {
        self.inner.load_purge_boundary()
    }
}

struct JEngine<E: StorageEngine> {
    inner: Arc<E>,
    log: Arc<JLog<E::LogStore>>,
}
impl<E: StorageEngine> std::fmt::Debug for JEngine<E> {
    fn fmt(&self, f: &mut std::fmt::Formatter<'_>) -> std::fmt::Result {
        f.write_str("JEngine")
    }
}
impl<E: StorageEngine> JEngine<E> {
    fn new(inner: Arc<E>, journal: Arc<Mutex<Vec<Act>>>) -> Self {
        let log = Arc::new(JLog { inner: inner.log_store(), journal });
        JEngine { inner, log }
    }
}
impl<E: StorageEngine> StorageEngine for JEngine<E> {
    type LogStore = JLog<E::LogStore>;
    type MetaStore = E::MetaStore;
    fn log_store(&self) -> Arc<Self::LogStore> {
        self.log.clone()
    }
    fn meta_store(&self) -> Arc<Self::MetaStore> {
        self.inner.meta_store()
    }
}

struct Cfg<E>(PhantomData<E>);
impl<E> std::fmt::Debug for Cfg<E> {
    fn fmt(&self, f: &mut std::fmt::Formatter<'_>) -> std::fmt::Result {
        f.write_str("Cfg")
    }
}
impl<E: StorageEngine + std::fmt::Debug> TypeConfig for Cfg<E> {
    type SE = JEngine<E>;
    type SM = MockStateMachine;
    type R = BufferedRaftLog<Self>;
    type M = MockMembership<Self>;
    type TR = MockTransport<Self>;
    type E = MockElectionCore<Self>;
    type REP = MockReplicationCore<Self>;
    type C = MockCommitHandler;
    type SMH = MockStateMachineHandler<Self>;
    type SNP = MockSnapshotPolicy;
    type PE = MockPurgeExecutor;
}

// ------------------------------------------------------------------------------------ engines under test
trait Backend: StorageEngine + std::fmt::Debug + Sized {
    type Ctx;
    fn fresh() -> (Arc<Self>, Self::Ctx);
    /// Image after a crash; `power` = power loss (only the durable copy survives). None = not supported.
    fn crash(old: Arc<Self>, ctx: &Self::Ctx, power: bool) -> Option<Arc<Self>>;
    /// (volatile entries, durable entries, boundary) for the snapshot.
    fn dump(e: &Self) -> (String, String, String);
}

impl Backend for SimEngine {
    type Ctx = ();
    fn fresh() -> (Arc<Self>, ()) {
        (Arc::new(SimEngine::default()), ())
    }
    fn crash(old: Arc<Self>, _: &(), power: bool) -> Option<Arc<Self>> {
        let g = old.log.inner.lock().unwrap();
        let (v, d) = if power { (g.d.clone(), g.d.clone()) } else { (g.v.clone(), g.d.clone()) };
        let hs = *old.meta.hs.lock().unwrap();
        Some(Arc::new(SimEngine {
            log: Arc::new(SimLogStore { inner: Mutex::new(SimInner { v, d }) }),
            meta: Arc::new(SimMetaStore { hs: Mutex::new(hs) }),
        }))
    }
    fn dump(e: &Self) -> (String, String, String) {
        let g = e.log.inner.lock().unwrap();
        let s = show_entries(&g.v.ents.values().cloned().collect::<Vec<_>>());
        let u = show_entries(&g.d.ents.values().cloned().collect::<Vec<_>>());
        let b = match g.v.boundary {
            Some(l) => format!("{}.{}", l.index, l.term),
            None => "-".into(),
        };
        (s, u, b)
    }
}

impl Backend for FileStorageEngine {
    type Ctx = tempfile::TempDir;
    fn fresh() -> (Arc<Self>, tempfile::TempDir) {
        std::fs::create_dir_all("/verif/target/tmp").unwrap();
        let dir = tempfile::tempdir_in("/verif/target/tmp").unwrap();
        let e = FileStorageEngine::new(dir.path().join("db")).unwrap();
        (Arc::new(e), dir)
    }
    fn crash(old: Arc<Self>, ctx: &tempfile::TempDir, power: bool) -> Option<Arc<Self>> {
        if power {
            return None;
        }
        // All file writes of FileLogStore are plain write(2) calls, so a process crash leaves exactly the
        // current file content; dropping the engine adds only an fsync.
        drop(old);
        Some(Arc::new(FileStorageEngine::new(ctx.path().join("db")).unwrap()))
    }
    fn dump(e: &Self) -> (String, String, String) {
        let s = show_entries(&e.log_store().get_entries(0..=u64::MAX).unwrap_or_default());
        let b = match e.log_store().load_purge_boundary() {
            Ok(Some(l)) => format!("{}.{}", l.index, l.term),
            _ => "-".into(),
        };
        (s, "?".into(), b)
    }
}

impl Backend for RocksDBStorageEngine {
    type Ctx = tempfile::TempDir;
    fn fresh() -> (Arc<Self>, tempfile::TempDir) {
        std::fs::create_dir_all("/verif/target/tmp").unwrap();
        let dir = tempfile::tempdir_in("/verif/target/tmp").unwrap();
        let e = RocksDBStorageEngine::new(dir.path().join("db")).unwrap();
        (Arc::new(e), dir)
    }
    fn crash(old: Arc<Self>, ctx: &tempfile::TempDir, power: bool) -> Option<Arc<Self>> {
        if power {
            return None;
        }
        // process crash: every write went to the WAL in the OS page cache, which survives; dropping the handle
        // releases the lock file (and flushes the memtable, which does not change what a reopen sees)
        drop(old);
        Some(Arc::new(RocksDBStorageEngine::new(ctx.path().join("db")).unwrap()))
    }
    fn dump(e: &Self) -> (String, String, String) {
        let s = show_entries(&e.log_store().get_entries(0..=u64::MAX).unwrap_or_default());
        let b = match e.log_store().load_purge_boundary() {
            Ok(Some(l)) => format!("{}.{}", l.index, l.term),
            _ => "-".into(),
        };
        (s, "?".into(), b)
    }
}

// ------------------------------------------------------------------------------------ case language
fn mk_entry(i: u64, t: u64, p: u64) -> Entry {
    Entry { index: i, term: t, payload: Some(EntryPayload::command(Bytes::from(vec![p as u8]))) }
}
fn payload_of(e: &Entry) -> u64 {
    match e.payload.as_ref().and_then(|p| p.payload.as_ref()) {
        Some(Payload::Command(b)) if !b.is_empty() => b[0] as u64,
        _ => 999,
    }
}
fn show_entries(es: &[Entry]) -> String {
    if es.is_empty() {
        return "-".into();
    }
    es.iter().map(|e| format!("{}.{}.{}", e.index, e.term, payload_of(e))).collect::<Vec<_>>().join(",")
}
fn parse_entries(s: &str) -> Option<Vec<Entry>> {
    if s == "-" || s.is_empty() {
        return Some(vec![]);
    }
    s.split(',')
        .map(|x| {
            let v: Vec<&str> = x.split('.').collect();
            if v.len() != 3 {
                return None;
            }
            Some(mk_entry(v[0].parse().ok()?, v[1].parse().ok()?, v[2].parse().ok()?))
        })
        .collect()
}
fn pair(s: &str) -> Option<(u64, u64)> {
    let mut it = s.split('.');
    let a = it.next()?.parse().ok()?;
    let b = it.next()?.parse().ok()?;
    if it.next().is_some() {
        return None;
    }
    Some((a, b))
}

#[derive(Clone, Copy, PartialEq, Eq, Debug)]
struct Sched {
    clock: bool,
    prio: [u8; 3],
}
const PLAIN: Sched = Sched { clock: false, prio: [b'c', b'n', b't'] };

#[derive(Clone, Debug)]
enum Op {
    Append(Vec<Entry>),
    Fca(u64, u64, Vec<Entry>, Sched),
    Purge(u64, u64, Sched),
    Reset(Sched),
    Flush(Sched),
    Alloc(u64),
    Get(u64, u64),
    Io(Sched),
    Close(Sched),
    Crash(bool),
}

fn parse_head(h: &str) -> Option<(&str, Sched)> {
    let (clock, h) = match h.strip_prefix('+') {
        Some(r) => (true, r),
        None => (false, h),
    };
    let mut it = h.split('@');
    let name = it.next()?;
    let prio = match it.next() {
        None => PLAIN.prio,
        Some(p) => {
            let b = p.as_bytes();
            if b.len() != 3 || !b.iter().all(|x| b"cnt".contains(x)) || b[0] == b[1] || b[1] == b[2] || b[0] == b[2] {
                return None;
            }
            [b[0], b[1], b[2]]
        }
    };
    if it.next().is_some() {
        return None;
    }
    Some((name, Sched { clock, prio }))
}

fn parse_op(s: &str) -> Option<Op> {
    let (head, rest) = match s.find(':') {
        Some(k) => (&s[..k], &s[k + 1..]),
        None => (s, ""),
    };
    let (name, sch) = parse_head(head)?;
    let plain = sch == PLAIN;
    Some(match name {
        "a" if plain => Op::Append(parse_entries(rest)?),
        "f" => {
            let k = rest.find(':')?;
            let (pi, pt) = pair(&rest[..k])?;
            Op::Fca(pi, pt, parse_entries(&rest[k + 1..])?, sch)
        }
        "p" => {
            let (i, t) = pair(rest)?;
            Op::Purge(i, t, sch)
        }
        "r" if rest.is_empty() => Op::Reset(sch),
        "fl" if rest.is_empty() => Op::Flush(sch),
        "al" if plain => Op::Alloc(rest.parse().ok()?),
        "g" if plain => {
            let (a, b) = pair(rest)?;
            if b.saturating_sub(a) > 100_000 {
                return None;
            }
            Op::Get(a, b)
        }
        "io" if rest.is_empty() => Op::Io(sch),
        "close" if rest.is_empty() => Op::Close(sch),
        "c" if plain && rest == "p" => Op::Crash(false),
        "c" if plain && rest == "w" => Op::Crash(true),
        _ => return None,
    })
}

/// The arms the loop runs when polled, given which are ready and the requested order.
/// * `w`: the loop's registered `notified()` future has been handed a notification; `p`: the Notify also holds a
///   stored permit (a second `notify_one`). If another arm wins while `w` is set, the dropped future passes its
///   notification on as the permit (tokio `Notified::drop`), so the two coalesce.
/// * The notify arm also drains the command queue; the loop exits after the arm that meets `Shutdown`.
fn expected_trace(prio: &[u8; 3], mut w: bool, mut p: bool, mut c: bool, mut t: bool, shutdown: bool) -> Vec<u8> {
    let mut out = vec![];
    loop {
        let pick = prio.iter().copied().find(|a| match a {
            b'n' => w || p,
            b'c' => c,
            _ => t,
        });
        let Some(a) = pick else { break };
        out.push(a);
        if a != b'c' && c {
            // a command is queued: the notify arm hands its wake-up back (it becomes a stored permit), the
            // timer arm skips its tick; select! is re-entered with only the command arm enabled
            if a == b'n' {
                if w {
                    w = false;
                }
                p = true;
            } else {
                t = false;
                if w {
                    w = false;
                    p = true;
                }
            }
            out.push(b'c');
            c = false;
            if shutdown {
                break;
            }
            continue;
        }
        if a == b'n' {
            if w {
                w = false;
            } else {
                p = false;
            }
        } else {
            if w {
                w = false;
                p = true;
            }
            if a == b'c' {
                c = false;
                if shutdown {
                    break;
                }
            } else {
                t = false;
            }
        }
    }
    out
}

// ------------------------------------------------------------------------------------ the system under test
struct Sys<B: Backend> {
    eng: Arc<B>,
    ctx: B::Ctx,
    log: Arc<BufferedRaftLog<Cfg<B>>>,
    io: Option<Pin<Box<dyn Future<Output = ()>>>>,
    /// wake-ups pending on the loop's Notify: the first `notify_one` goes to the loop's registered waiter (`nw`), a
    /// second one is stored as a permit (`np`), further ones coalesce
    nw: bool,
    np: bool,
    /// the clock was advanced and the loop has not been polled since
    timer_due: bool,
    /// the last `drive` had to poll the IO loop (the operation waited for a task it had sent)
    last_drive_waited: bool,
}

struct SchedMismatch;

impl<B: Backend> Sys<B> {
    async fn open(eng: Arc<B>, ctx: B::Ctx) -> Self {
        let journal = Arc::new(Mutex::new(Vec::new()));
        let je = Arc::new(JEngine::new(eng.clone(), journal));
        let (log, rx) = BufferedRaftLog::<Cfg<B>>::new(
            1,
            PersistenceConfig {
                strategy: PersistenceStrategy::MemFirst,
                flush_policy: FlushPolicy::Batch { idle_flush_interval_ms: IDLE_MS },
                max_buffered_entries: 1000,
            },
            je,
        );
        let log = Arc::new(log);
        let io = BufferedRaftLog::verif_io_loop(&log, rx);
        let mut s = Sys { eng, ctx, log, io: Some(io), nw: false, np: false, timer_due: false, last_drive_waited: false };
        // first poll: the loop creates its timer and registers on the Notify / the channel; nothing is ready
        let _ = s.poll_io(false, &PLAIN, false).await;
        s
    }

    fn notified(&mut self) {
        if !self.nw {
            self.nw = true;
        } else {
            self.np = true;
        }
    }

    /// Poll the IO loop once (it iterates until no arm is ready) and compare the arms it ran with the requested order.
    async fn poll_io(&mut self, cmd: bool, sch: &Sched, shutdown: bool) -> Result<(), SchedMismatch> {
        let Some(io) = self.io.as_mut() else { return Ok(()) };
        let _ = verif_arm_trace::take();
        if let Poll::Ready(()) = futures::poll!(io.as_mut()) {
            self.io = None; // loop exited (Shutdown): its receiver is dropped with it
        }
        let actual = verif_arm_trace::take();
        let expected = expected_trace(&sch.prio, self.nw, self.np, cmd, self.timer_due, shutdown);
        self.nw = false;
        self.np = false;
        self.timer_due = false;
        if actual == expected {
            Ok(())
        } else {
            if std::env::var("BUFLOG_DEBUG").is_ok() {
                eprintln!("sched mismatch: actual={:?} expected={:?}", String::from_utf8_lossy(&actual), String::from_utf8_lossy(&expected));
            }
            Err(SchedMismatch)
        }
    }

    /// Run an operation that may wait for the IO loop: poll it, and while it is pending poll the IO loop.
    async fn drive<T>(&mut self, f: impl Future<Output = T>, sch: &Sched) -> Result<Option<T>, SchedMismatch> {
        let mut f = std::pin::pin!(f);
        let mut cmd = true; // a pending operation has put exactly one task on the loop's channel
        self.last_drive_waited = false;
        for _ in 0..8 {
            if let Poll::Ready(r) = futures::poll!(f.as_mut()) {
                return Ok(Some(r));
            }
            self.last_drive_waited = true;
            self.poll_io(cmd, sch, false).await?;
            cmd = false;
        }
        Ok(None)
    }

    fn mem_dump(&self) -> String {
        format!(
            "{} {} {} {}",
            self.log.len(),
            self.log.first_entry_id(),
            self.log.last_entry_id(),
            show_entries(&self.log.get_entries_range(0..=DUMP_MAX).unwrap_or_default())
        )
    }

    fn snapshot(&self) -> String {
        let l = &self.log;
        let lid = match l.last_log_id() {
            Some(x) => format!("{}.{}", x.index, x.term),
            None => "-".into(),
        };
        let opt = |x: Option<u64>| x.map(|v| v.to_string()).unwrap_or_else(|| "-".into());
        let t: Vec<String> = (0..=GRID_IDX).map(|i| opt(l.entry_term(i))).collect();
        let a: Vec<String> = (0..=GRID_TERM).map(|t| opt(l.first_index_for_term(t))).collect();
        let z: Vec<String> = (0..=GRID_TERM).map(|t| opt(l.last_index_for_term(t))).collect();
        let e = show_entries(&l.get_entries_range(0..=DUMP_MAX).unwrap_or_default());
        let le = match l.last_entry() {
            Some(x) => format!("{}.{}.{}", x.index, x.term, payload_of(&x)),
            None => "-".into(),
        };
        let (s, u, b) = B::dump(&self.eng);
        format!(
            "L={} F={} M={} D={} X={} K={} T={} A={} Z={} E={} S={} U={} B={}",
            lid,
            l.first_entry_id(),
            l.last_entry_id(),
            l.durable_index(),
            if RaftLog::is_empty(&**l) { 1 } else { 0 },
            le,
            t.join(","),
            a.join(","),
            z.join(","),
            e,
            s,
            u,
            b
        )
    }

    async fn step(mut self, op: &Op) -> Result<(Self, String), SchedMismatch> {
        let res = |r: Option<Result<(), Error>>| match r {
            Some(Ok(())) => "ok".to_string(),
            Some(Err(_)) => "err".to_string(),
            None => "hang".to_string(),
        };
        let log = self.log.clone();
        let sch = match op {
            Op::Fca(_, _, _, s) | Op::Purge(_, _, s) | Op::Reset(s) | Op::Flush(s) | Op::Io(s) | Op::Close(s) => *s,
            _ => PLAIN,
        };
        if sch.clock {
            tokio::time::advance(Duration::from_millis(IDLE_MS)).await;
            self.timer_due = true;
        }
        let out = match op {
            Op::Append(es) => {
                let r = res(self.drive(log.append_entries(es.clone()), &sch).await?);
                if !es.is_empty() {
                    self.notified();
                }
                r
            }
            Op::Fca(pi, pt, es, _) => {
                let m0 = self.mem_dump();
                let d0 = self.log.durable_index();
                let r = self.drive(log.filter_out_conflicts_and_append(*pi, *pt, es.clone()), &sch).await?;
                // Which path ran? reset: prev = (0,0); otherwise append_entries was called iff the log changed
                // without the conflict branch (the conflict branch lowers next_id/durable and sends ReplaceRange,
                // it does not notify). The conflict branch is recognised by its ReplaceRange store call; the
                // harness sees it as "the operation waited".
                let reset = *pi == 0 && *pt == 0;
                let waited = self.last_drive_waited;
                let _ = d0;
                if matches!(r, Some(Ok(_))) && ((reset && !es.is_empty()) || (!reset && !waited && self.mem_dump() != m0)) {
                    self.notified(); // the operation went through append_entries
                }
                match r {
                    Some(Ok(Some(l))) => format!("r={}.{}", l.index, l.term),
                    Some(Ok(None)) => "r=-".into(),
                    Some(Err(_)) => "err".into(),
                    None => "hang".into(),
                }
            }
            Op::Purge(i, t, _) => res(self.drive(log.purge_logs_up_to(LogId { index: *i, term: *t }), &sch).await?),
            Op::Reset(_) => res(self.drive(log.reset(), &sch).await?),
            Op::Flush(_) => res(self.drive(log.flush(), &sch).await?),
            Op::Alloc(n) => {
                let r = log.pre_allocate_id_range(*n);
                if *n == 0 { "-".to_string() } else { format!("{}-{}", r.start(), r.end()) }
            }
            Op::Get(a, b) => {
                let es = log.get_entries_range(*a..=*b).unwrap_or_default();
                format!("g={}", show_entries(&es))
            }
            Op::Io(_) => {
                self.poll_io(false, &sch, false).await?;
                "ok".into()
            }
            Op::Close(_) => {
                let alive = self.io.is_some();
                let _ = self.drive(log.close(), &sch).await?;
                self.poll_io(alive, &sch, true).await?;
                "ok".into()
            }
            Op::Crash(power) => {
                drop(log);
                let Sys { eng, ctx, log, io, .. } = self;
                drop(io); // the IO loop dies where it stands
                drop(log);
                match B::crash(eng, &ctx, *power) {
                    None => return Err(SchedMismatch),
                    Some(e2) => {
                        let s2 = Sys::open(e2, ctx).await;
                        let snap = s2.snapshot();
                        return Ok((s2, format!("ok {}", snap)));
                    }
                }
            }
        };
        if sch.clock {
            // consume the due tick inside this operation, whether or not the operation waited for the IO loop
            self.poll_io(false, &sch, false).await?;
        }
        let snap = self.snapshot();
        Ok((self, format!("{} {}", out, snap)))
    }
}

async fn run_case<B: Backend>(ops: &[Op]) -> Result<String, SchedMismatch> {
    let (eng, ctx) = B::fresh();
    let mut sys = Sys::<B>::open(eng, ctx).await;
    let mut out = Vec::new();
    for op in ops {
        let (s2, o) = sys.step(op).await?;
        sys = s2;
        out.push(o);
    }
    Ok(out.join(";"))
}

fn exec(case: &str) -> String {
    exec_tries(case, std::env::var("BUFLOG_TRIES").ok().and_then(|s| s.parse().ok()).unwrap_or(30000))
}

fn exec_tries(case: &str, tries: usize) -> String {
    let Some((head, body)) = case.rsplit_once('|') else { return "bad-case".into() };
    let ops: Option<Vec<Op>> = if body.is_empty() { Some(vec![]) } else { body.split(';').map(parse_op).collect() };
    let Some(ops) = ops else { return "bad-case".into() };
    let (file, rocks) = match head {
        "e=sim" => (false, false),
        "e=file" => (true, false),
        "e=rocks" => (false, true),
        _ => return "bad-case".into(),
    };
    if (file || rocks) && ops.iter().any(|o| matches!(o, Op::Crash(true))) {
        return "bad-case".into();
    }
    for _ in 0..tries {
        let rt = tokio::runtime::Builder::new_current_thread().enable_all().start_paused(true).build().unwrap();
        let r = if file {
            rt.block_on(run_case::<FileStorageEngine>(&ops))
        } else if rocks {
            rt.block_on(run_case::<RocksDBStorageEngine>(&ops))
        } else {
            rt.block_on(run_case::<SimEngine>(&ops))
        };
        if let Ok(s) = r {
            return s;
        }
    }
    "sched-fail".into()
}

// ------------------------------------------------------------------------------------ generators
/// What the generator believes the log holds (plain-log rules), so that most generated requests are what Raft
/// would hand to the log. It is only a guide for generation; nothing is judged against it.
#[derive(Clone)]
struct Shadow {
    anchor: (u64, u64),
    log: Vec<(u64, u64, u64)>,
    known: bool,  // false after a crash that may have lost a suffix
    synced: bool, // store == log and all of it fsynced
    alive: bool,
    pay: u64,
}

impl Shadow {
    fn new() -> Self {
        Shadow { anchor: (0, 0), log: vec![], known: true, synced: true, alive: true, pay: 0 }
    }
    fn last(&self) -> (u64, u64) {
        self.log.last().map(|e| (e.0, e.1)).unwrap_or(self.anchor)
    }
    fn next(&self) -> u64 {
        self.last().0 + 1
    }
    fn tcur(&self) -> u64 {
        self.last().1.max(1)
    }
    fn term_at(&self, i: u64) -> Option<u64> {
        self.log.iter().find(|e| e.0 == i).map(|e| e.1).or(if self.anchor.0 > 0 && i == self.anchor.0 { Some(self.anchor.1) } else { None })
    }
    fn fresh(&mut self, i: u64, t: u64) -> (u64, u64, u64) {
        self.pay = (self.pay + 1) % 250;
        (i, t, self.pay)
    }
    fn run(&mut self, from: u64, k: u64, t: u64) -> Vec<(u64, u64, u64)> {
        (0..k).map(|j| self.fresh(from + j, t)).collect()
    }
    /// textbook AppendEntries receiver rule
    fn fca(&mut self, pi: u64, pt: u64, es: &[(u64, u64, u64)]) {
        if pi == 0 && pt == 0 {
            self.log = es.to_vec();
            return;
        }
        if self.term_at(pi) != Some(pt) {
            return;
        }
        for (k, e) in es.iter().enumerate() {
            let have = self.log.iter().find(|x| x.0 == e.0).map(|x| x.1);
            if have != Some(e.1) {
                self.log.retain(|x| x.0 < e.0);
                self.log.extend_from_slice(&es[k..]);
                return;
            }
        }
    }
}

fn show_es(es: &[(u64, u64, u64)]) -> String {
    if es.is_empty() {
        return "-".into();
    }
    es.iter().map(|e| format!("{}.{}.{}", e.0, e.1, e.2)).collect::<Vec<_>>().join(",")
}

thread_local! {
    /// how many more operations of the case being generated may carry a scheduling annotation: every annotated
    /// operation is a point where the real loop's random arm choice has to match, and all of them have to match in
    /// one run of the case, so their number is kept small
    static RACE_BUDGET: std::cell::Cell<u32> = const { std::cell::Cell::new(0) };
}

/// scheduling annotation `(prefix, suffix)` of an op name: `+` = clock advanced first, `@xyz` = arm order
fn sched(r: &mut Rng, racy: bool) -> (&'static str, &'static str) {
    if !racy || RACE_BUDGET.with(|b| b.get()) == 0 {
        return ("", "");
    }
    if r.chance(1, 2) {
        return ("", "");
    }
    RACE_BUDGET.with(|b| b.set(b.get() - 1));
    let pre = if r.chance(1, 3) { "+" } else { "" };
    let suf = match r.below(8) {
        0 => "@nct",
        1 => "@ntc",
        2 => "@tcn",
        3 => "@tnc",
        4 => "@ctn",
        _ => "",
    };
    (pre, suf)
}

/// one mostly-well-formed operation, instantiated against the shadow
fn structured_op(r: &mut Rng, sh: &mut Shadow, racy: bool, file: bool) -> String {
    if !sh.known {
        // come back to a known state: wipe the log
        sh.known = true;
        sh.synced = false;
        return if r.chance(1, 2) {
            sh.log.clear();
            "r".to_string()
        } else {
            let k = r.range(1, 3);
            let t = r.range(1, 3);
            let es = sh.run(sh.anchor.0 + 1, k, t);
            sh.log = es.clone();
            format!("f:0.0:{}", show_es(&es))
        };
    }
    let roll = r.below(100);
    let bump = |r: &mut Rng, sh: &Shadow| if r.chance(1, 3) { (sh.tcur() + 1).min(5) } else { sh.tcur() };
    if roll < 16 {
        // plain append at the tail (leader path)
        let k = r.range(1, 3);
        let t = bump(r, sh);
        let es = sh.run(sh.next(), k, t);
        sh.log.extend_from_slice(&es);
        sh.synced = false;
        format!("a:{}", show_es(&es))
    } else if roll < 26 {
        // follower: extension right after the last entry
        let (pi, pt) = sh.last();
        if pi == 0 {
            let es = sh.run(1, r.range(1, 3), 1);
            sh.log = es.clone();
            sh.synced = false;
            let (a, b) = sched(r, racy);
            return format!("{}f{}:0.0:{}", a, b, show_es(&es));
        }
        let k = r.range(0, 3);
        let t = bump(r, sh);
        let es = sh.run(pi + 1, k, t);
        sh.fca(pi, pt, &es);
        sh.synced = sh.synced && k == 0;
        format!("f:{}.{}:{}", pi, pt, show_es(&es))
    } else if roll < 40 && !sh.log.is_empty() {
        // overlap: resend `back` entries that are already there, plus k new ones (fast path / slow all-match)
        let back = r.range(1, (sh.log.len() as u64).min(4));
        let start = sh.log.len() - back as usize;
        let pi = if start == 0 { sh.anchor.0 } else { sh.log[start - 1].0 };
        let pt = if start == 0 { sh.anchor.1 } else { sh.log[start - 1].1 };
        if pi == 0 && pt == 0 {
            let es = sh.log.clone();
            sh.synced = false;
            let (a, b) = sched(r, racy);
            return format!("{}f{}:0.0:{}", a, b, show_es(&es));
        }
        let mut es: Vec<_> = sh.log[start..].to_vec();
        if back >= 2 && r.chance(1, 3) {
            // a strict prefix of what is already there (delayed / retransmitted request that does not reach the tail)
            es.truncate(r.range(1, back - 1) as usize);
            sh.fca(pi, pt, &es);
            return format!("f:{}.{}:{}", pi, pt, show_es(&es));
        }
        let k = r.range(0, 2);
        let t = bump(r, sh);
        let more = sh.run(sh.next(), k, t);
        es.extend_from_slice(&more);
        sh.fca(pi, pt, &es);
        sh.synced = sh.synced && k == 0;
        format!("f:{}.{}:{}", pi, pt, show_es(&es))
    } else if roll < 58 && !sh.log.is_empty() {
        // conflict: keep `m` matching entries, then a new term from there on
        let back = r.range(1, (sh.log.len() as u64).min(5));
        let start = sh.log.len() - back as usize;
        let pi = if start == 0 { sh.anchor.0 } else { sh.log[start - 1].0 };
        let pt = if start == 0 { sh.anchor.1 } else { sh.log[start - 1].1 };
        let m = r.below(back) as usize;
        let mut es: Vec<_> = sh.log[start..start + m].to_vec();
        let from = sh.log[start].0 + m as u64;
        // usually a higher term; sometimes the follower's current last term at an index that still carries an
        // older one (the case the `first.index >= last_term_start` test of the fast path exists for)
        let old_t = sh.term_at(from).unwrap_or(0);
        let t = if old_t != 0 && old_t < sh.tcur() && r.chance(1, 3) { sh.tcur() } else { (sh.tcur() + 1).min(6) };
        let k = r.range(1, 3);
        let more = sh.run(from, k, t);
        es.extend_from_slice(&more);
        if pi == 0 && pt == 0 {
            sh.log = es.clone();
            sh.synced = false;
            let (a, b) = sched(r, racy);
            return format!("{}f{}:0.0:{}", a, b, show_es(&es));
        }
        sh.fca(pi, pt, &es);
        sh.synced = false;
        let (a, b) = sched(r, racy);
        format!("{}f{}:{}.{}:{}", a, b, pi, pt, show_es(&es))
    } else if roll < 62 {
        // prev does not match
        let (pi, pt) = sh.last();
        let es = sh.run(pi + 2, 1, pt + 1);
        format!("f:{}.{}:{}", pi + 1, pt + 1, show_es(&es))
    } else if roll < 66 {
        // start from scratch: above the purge boundary, or (a leader that lost track of this follower) from index 1
        let k = r.range(0, 3);
        let t = r.range(1, 3);
        let from = if sh.anchor.0 > 0 && r.chance(1, 2) { 1 } else { sh.anchor.0 + 1 };
        let es = sh.run(from, k, t);
        sh.log = es.clone();
        sh.synced = false;
        let (a, b) = sched(r, racy);
        format!("{}f{}:0.0:{}", a, b, show_es(&es))
    } else if roll < 74 {
        // purge up to somewhere between the anchor and just beyond the end
        let lo = sh.anchor.0;
        let hi = sh.last().0 + if r.chance(1, 6) { 1 } else { 0 };
        let ci = r.range(lo, hi.max(lo));
        let ct = sh.term_at(ci).unwrap_or(sh.tcur());
        sh.log.retain(|e| e.0 > ci);
        sh.anchor = (ci, ct);
        sh.synced = false;
        let (a, b) = sched(r, racy);
        format!("{}p{}:{}.{}", a, b, ci, ct)
    } else if roll < 76 {
        sh.log.clear();
        sh.synced = false;
        let (a, b) = sched(r, racy);
        format!("{}r{}", a, b)
    } else if roll < 82 {
        if sh.alive {
            sh.synced = true;
        }
        let (a, b) = sched(r, racy);
        format!("{}fl{}", a, b)
    } else if roll < 88 {
        if sh.alive {
            sh.synced = true;
        }
        let (_, b) = sched(r, racy);
        if r.chance(2, 3) { format!("io{}", b) } else { format!("+io{}", b) }
    } else if roll < 90 {
        format!("al:{}", r.below(3))
    } else if roll < 92 {
        let a = r.below(6);
        format!("g:{}.{}", a, a + r.below(6))
    } else if roll < 93 {
        sh.alive = false;
        sh.synced = true;
        let (a, b) = sched(r, racy);
        format!("{}close{}", a, b)
    } else {
        let power = !file && r.chance(1, 2);
        if !sh.synced {
            sh.known = false;
        }
        sh.alive = true;
        if power { "c:w".into() } else { "c:p".into() }
    }
}

fn structured_case(r: &mut Rng, racy: bool, file: bool) -> String {
    structured_case_on(r, racy, if file { "e=file" } else { "e=sim" })
}

fn structured_case_on(r: &mut Rng, racy: bool, eng: &str) -> String {
    let file = eng != "e=sim";
    RACE_BUDGET.with(|b| b.set(2));
    let mut sh = Shadow::new();
    let len = r.range(3, 12);
    let mut ops = Vec::new();
    for _ in 0..len {
        ops.push(structured_op(r, &mut sh, racy, file));
    }
    // most cases end with a crash: that is where C18 looks
    if r.chance(2, 3) {
        ops.push(if !file && r.chance(1, 2) { "c:w".into() } else { "c:p".into() });
    }
    format!("{}|{}", eng, ops.join(";"))
}

/// scripted shapes that random structured generation reaches only rarely: restart of the log below the purge
/// boundary followed by a crash; two truncations before an fsync; truncation right after unpersisted appends
fn scenario_case(r: &mut Rng) -> String {
    let mut sh = Shadow::new();
    let mut ops: Vec<String> = Vec::new();
    let n0 = r.range(2, 5);
    let es = sh.run(1, n0, 1);
    sh.log = es.clone();
    ops.push(format!("a:{}", show_es(&es)));
    if r.chance(2, 3) {
        ops.push(if r.chance(1, 2) { "io".into() } else { "fl".into() });
    }
    match r.below(3) {
        0 => {
            // purge, then the log restarts from index 1 (below the boundary), persist, crash
            let ci = r.range(1, n0);
            let ct = sh.term_at(ci).unwrap_or(1);
            ops.push(format!("p:{}.{}", ci, ct));
            sh.log.retain(|e| e.0 > ci);
            sh.anchor = (ci, ct);
            if r.chance(1, 2) {
                ops.push("r".into());
            }
            let k = r.range(1, ci + 1);
            let es = sh.run(1, k, 2);
            ops.push(format!("f:0.0:{}", show_es(&es)));
            sh.log = es;
            if r.chance(1, 2) {
                let t = sh.tcur();
                let more = sh.run(sh.next(), r.range(1, 2), t);
                sh.log.extend_from_slice(&more);
                ops.push(format!("a:{}", show_es(&more)));
            }
            ops.push(if r.chance(1, 2) { "io".into() } else { "fl".into() });
        }
        1 => {
            // two conflict truncations in a row, the second one shorter, then fsync, append, fsync
            let d1 = r.range(2, n0);
            let t1 = sh.tcur() + 1;
            let tail1 = sh.run(d1, r.range(2, 4), t1);
            let (pi, pt) = (d1 - 1, sh.term_at(d1 - 1).unwrap_or(1));
            sh.fca(pi, pt, &tail1);
            ops.push(format!("f:{}.{}:{}", pi, pt, show_es(&tail1)));
            let tail2 = sh.run(d1, 1, t1 + 1);
            sh.fca(pi, pt, &tail2);
            ops.push(format!("f:{}.{}:{}", pi, pt, show_es(&tail2)));
            ops.push(if r.chance(1, 2) { "fl".into() } else { "+io".into() });
            let t = sh.tcur();
            let more = sh.run(sh.next(), r.range(1, 2), t);
            sh.log.extend_from_slice(&more);
            ops.push(format!("a:{}", show_es(&more)));
            ops.push("fl".into());
        }
        _ => {
            // unpersisted appends, then a truncation below them
            let t = sh.tcur();
            let more = sh.run(sh.next(), r.range(1, 3), t);
            sh.log.extend_from_slice(&more);
            ops.push(format!("a:{}", show_es(&more)));
            let d = r.range(2, sh.last().0);
            let (pi, pt) = (d - 1, sh.term_at(d - 1).unwrap_or(1));
            let tail = sh.run(d, r.range(1, 2), t + 1);
            sh.fca(pi, pt, &tail);
            ops.push(format!("f:{}.{}:{}", pi, pt, show_es(&tail)));
            if r.chance(1, 2) {
                ops.push("fl".into());
            }
        }
    }
    ops.push(if r.chance(1, 2) { "c:p".into() } else { "c:w".into() });
    if r.chance(1, 3) {
        ops.push(if r.chance(1, 2) { "c:p".into() } else { "c:w".into() });
    }
    format!("e=sim|{}", ops.join(";"))
}

/// malformed stream: gapped / unsorted / duplicate indexes, decreasing terms, term 0, index 0, far indexes
fn malformed_entries(r: &mut Rng) -> Vec<(u64, u64, u64)> {
    let n = r.below(5);
    (0..n)
        .map(|_| {
            let i = match r.below(12) {
                0 => 0,
                1 => 150,
                2 => 1000,
                _ => r.range(1, 9),
            };
            (i, r.below(5), r.below(250))
        })
        .collect()
}

fn malformed_case(r: &mut Rng) -> String {
    RACE_BUDGET.with(|b| b.set(2));
    let len = r.range(2, 9);
    let mut ops = Vec::new();
    let mut seen: Vec<(u64, u64)> = Vec::new();
    for _ in 0..len {
        let op = match r.below(14) {
            0 | 1 | 2 => {
                let es = malformed_entries(r);
                seen.extend(es.iter().map(|e| (e.0, e.1)));
                format!("a:{}", show_es(&es))
            }
            3 | 4 | 5 | 6 => {
                let mut es = malformed_entries(r);
                if r.chance(1, 2) {
                    es.sort();
                }
                let (a, b) = sched(r, true);
                // prev: often one of the entries handed to the log earlier in this case
                let (pi, pt) = if !seen.is_empty() && r.chance(3, 5) { *r.pick(&seen) } else { (r.below(9), r.below(4)) };
                seen.extend(es.iter().map(|e| (e.0, e.1)));
                format!("{}f{}:{}.{}:{}", a, b, pi, pt, show_es(&es))
            }
            7 => format!("p:{}.{}", r.below(10), r.below(4)),
            8 => "r".into(),
            9 => "fl".into(),
            10 => if r.chance(1, 2) { "io".into() } else { "+io".into() },
            11 => format!("al:{}", r.below(4)),
            12 => format!("g:{}.{}", r.below(8), r.below(8)),
            _ => if r.chance(1, 2) { "c:p".into() } else { "c:w".into() },
        };
        ops.push(op);
    }
    format!("e=sim|{}", ops.join(";"))
}

/// exhaustive small scope: every sequence of `len` symbolic operations over a fixed small alphabet
fn exhaustive(len: usize, out: &mut Vec<String>) {
    // symbolic ops are instantiated against the shadow while the sequence is built
    const K: usize = 11;
    let mut idx = vec![0usize; len];
    loop {
        let mut sh = Shadow::new();
        let mut ops: Vec<String> = Vec::new();
        for &c in &idx {
            let op = match c {
                0 => {
                    let t = sh.tcur();
                    let es = sh.run(sh.next(), 2, t);
                    sh.log.extend_from_slice(&es);
                    format!("a:{}", show_es(&es))
                }
                1 => {
                    let t = sh.tcur() + 1;
                    let es = sh.run(sh.next(), 1, t);
                    sh.log.extend_from_slice(&es);
                    format!("a:{}", show_es(&es))
                }
                2 | 3 | 4 => {
                    // conflict one or two entries back (or extension when the log is too short)
                    let back = (c - 2).min(sh.log.len());
                    let start = sh.log.len() - back;
                    let (pi, pt) = if start == 0 { sh.anchor } else { (sh.log[start - 1].0, sh.log[start - 1].1) };
                    let t = sh.tcur() + if back > 0 { 1 } else { 0 };
                    let es = sh.run(pi + 1, 2, t);
                    if pi == 0 && pt == 0 { sh.log = es.clone(); } else { sh.fca(pi, pt, &es); }
                    format!("f:{}.{}:{}", pi, pt, show_es(&es))
                }
                5 => {
                    // resend the entry before the last one only (a strict prefix of what is there)
                    let back = 2.min(sh.log.len());
                    let start = sh.log.len() - back;
                    let (pi, pt) = if start == 0 { sh.anchor } else { (sh.log[start - 1].0, sh.log[start - 1].1) };
                    let es: Vec<_> = sh.log[start..(start + 1).min(sh.log.len())].to_vec();
                    format!("f:{}.{}:{}", pi, pt, show_es(&es))
                }
                6 => {
                    let ci = if sh.log.len() >= 2 { sh.log[sh.log.len() - 2].0 } else { sh.last().0 };
                    let ct = sh.term_at(ci).unwrap_or(1);
                    sh.log.retain(|e| e.0 > ci);
                    sh.anchor = (ci, ct);
                    format!("p:{}.{}", ci, ct)
                }
                7 => "fl".to_string(),
                8 => "io".to_string(),
                9 => "c:p".to_string(),
                _ => "c:w".to_string(),
            };
            let crash = c >= 9;
            ops.push(op);
            if crash {
                break; // the shadow does not know what survived
            }
        }
        out.push(format!("e=sim|{}", ops.join(";")));
        // next index vector
        let mut k = len;
        loop {
            if k == 0 {
                return;
            }
            k -= 1;
            idx[k] += 1;
            if idx[k] < K {
                break;
            }
            idx[k] = 0;
        }
    }
}

fn generate(r: &mut Rng, n: usize, tier: &str) -> Vec<String> {
    let mut out = Vec::new();
    for i in 0..n {
        out.push(match i % 20 {
            0..=9 => structured_case(r, false, false),
            10..=12 => structured_case(r, true, false),
            13 => structured_case(r, false, true),
            14 => if i % 40 == 14 { structured_case_on(r, false, "e=rocks") } else { structured_case(r, false, true) },
            15 => if i % 80 == 15 { scenario_case(r).replace("e=sim|", "e=rocks|").replace("c:w", "c:p") } else { scenario_case(r) },
            _ => malformed_case(r),
        });
    }
    if tier == "thorough" {
        for len in 1..=4 {
            exhaustive(len, &mut out);
        }
    }
    out.sort();
    out.dedup();
    // tokio's select! picks its first branch from a small xorshift generator whose consecutive draws are not
    // independent: a few arm orders never come up (e.g. timer, then command, then notify). Such cases cannot be
    // forced on the real code, so they are dropped here (the same filter applies whatever the code under test does:
    // reachability depends only on which arms are ready).
    std::panic::set_hook(Box::new(|_| {}));
    out.retain(|c| {
        let racy = c.contains('@') || c.contains('+');
        !racy || std::panic::catch_unwind(|| exec_tries(c, 400)).map(|o| o != "sched-fail").unwrap_or(true)
    });
    out
}

fn main() {
    family_main(generate, exec);
}
