//! Family `buflog` (C19, C18): the REAL `BufferedRaftLog` driven op by op.
//!
//! * The log is built with `BufferedRaftLog::new`; `start()` is NOT called. Its IO loop is the real
//!   `batch_processor`, obtained as a future through the hook `verif_io_loop` and polled by this harness only at
//!   the points the case prescribes (paused tokio clock, current-thread runtime) => deterministic IO stepping.
//! * Storage: an in-memory reference `StorageEngine` written here (`SimEngine`: map + purge boundary, volatile copy
//!   and durable copy, `flush()` copies volatile to durable) or the real `FileStorageEngine`; both wrapped in a
//!   journaling layer that records the sequence of store calls.
//! * Where two arms of the IO loop's `tokio::select!` are ready at once tokio picks at random. The case says which
//!   arm is meant to go first; the harness checks the journal of store calls and re-runs the whole case (fresh
//!   runtime => fresh random seed) until the real code took the requested order (`sched-fail` after 400 tries).
//!
//! Case:  `e=sim|op;op;...`  (or `e=file|...`)          entries are `index.term.payload` joined by `,` (`-` = none)
//!   a:<es>            append_entries
//!   f:<pi>.<pt>:<es>  filter_out_conflicts_and_append        (suffix `^` on the op name: notify arm first,
//!   p:<i>.<t>         purge_logs_up_to                         suffix `~`: clock advanced first, timer arm first)
//!   r                 reset
//!   fl                flush
//!   al:<n>            pre_allocate_id_range(n)
//!   g:<a>.<b>         get_entries_range(a..=b)
//!   io:n              poll the IO loop (runs the notify arm if a notification is pending)
//!   io:t              advance the clock by the idle interval, poll the IO loop (timer arm)
//!   close             close() (Shutdown task), poll the IO loop
//!   c:p / c:w         crash (process: volatile image survives / power loss: durable image survives), reopen with `new`
//! Output: one record per op joined by `;`:  `<result> <snapshot>`.
use std::collections::BTreeMap;
use std::future::Future;
use std::marker::PhantomData;
use std::ops::RangeInclusive;
use std::pin::Pin;
use std::sync::{Arc, Mutex};
use std::task::Poll;
use std::time::Duration;

use async_trait::async_trait;
use bytes::Bytes;
use d_engine_core::{
    BufferedRaftLog, Error, FlushPolicy, HardState, LogStore, MetaStore, MockCommitHandler, MockElectionCore,
    MockMembership, MockPurgeExecutor, MockReplicationCore, MockSnapshotPolicy, MockStateMachine,
    MockStateMachineHandler, MockTransport, PersistenceConfig, PersistenceStrategy, RaftLog, StorageEngine, TypeConfig,
};
use d_engine_proto::common::entry_payload::Payload;
use d_engine_proto::common::{Entry, EntryPayload, LogId};
use d_engine_server::FileStorageEngine;
use dv::{family_main, rng::Rng};

const IDLE_MS: u64 = 1000;
const GRID_IDX: u64 = 10;
const GRID_TERM: u64 = 5;
const DUMP_MAX: u64 = 200;

// ------------------------------------------------------------------------------------ reference store
#[derive(Clone, Default, Debug)]
struct Img {
    ents: BTreeMap<u64, Entry>,
    boundary: Option<LogId>,
}

#[derive(Default, Debug)]
struct SimInner {
    v: Img,
    d: Img,
}

#[derive(Debug, Default)]
struct SimLogStore {
    inner: Mutex<SimInner>,
}

#[async_trait]
impl LogStore for SimLogStore {
    async fn persist_entries(&self, entries: Vec<Entry>) -> Result<(), Error> {
        let mut g = self.inner.lock().unwrap();
        for e in entries {
            g.v.ents.insert(e.index, e);
        }
        Ok(())
    }
    async fn entry(&self, index: u64) -> Result<Option<Entry>, Error> {
        Ok(self.inner.lock().unwrap().v.ents.get(&index).cloned())
    }
    fn get_entries(&self, range: RangeInclusive<u64>) -> Result<Vec<Entry>, Error> {
        if range.start() > range.end() {
            return Ok(vec![]);
        }
        Ok(self.inner.lock().unwrap().v.ents.range(range).map(|(_, e)| e.clone()).collect())
    }
    async fn purge(&self, cutoff: LogId) -> Result<(), Error> {
        let mut g = self.inner.lock().unwrap();
        g.v.ents.retain(|&i, _| i > cutoff.index);
        g.v.boundary = Some(cutoff);
        Ok(())
    }
    async fn truncate(&self, from: u64) -> Result<(), Error> {
        self.inner.lock().unwrap().v.ents.retain(|&i, _| i < from);
        Ok(())
    }
    async fn replace_range(&self, from: u64, new_entries: Vec<Entry>) -> Result<(), Error> {
        let mut g = self.inner.lock().unwrap();
        g.v.ents.retain(|&i, _| i < from);
        for e in new_entries {
            g.v.ents.insert(e.index, e);
        }
        Ok(())
    }
    fn is_write_durable(&self) -> bool {
        false
    }
    fn flush(&self) -> Result<(), Error> {
        let mut g = self.inner.lock().unwrap();
        g.d = g.v.clone();
        Ok(())
    }
    async fn flush_async(&self) -> Result<(), Error> {
        self.flush()
    }
    async fn reset(&self) -> Result<(), Error> {
        self.inner.lock().unwrap().v.ents.clear();
        Ok(())
    }
    fn last_index(&self) -> u64 {
        self.inner.lock().unwrap().v.ents.keys().next_back().copied().unwrap_or(0)
    }
    fn load_purge_boundary(&self) -> Result<Option<LogId>, Error> {
        Ok(self.inner.lock().unwrap().v.boundary)
    }
}

#[derive(Debug, Default)]
struct SimMetaStore {
    hs: Mutex<Option<HardState>>,
}
impl MetaStore for SimMetaStore {
    fn save_hard_state(&self, state: &HardState) -> Result<(), Error> {
        *self.hs.lock().unwrap() = Some(*state);
        Ok(())
    }
    fn load_hard_state(&self) -> Result<Option<HardState>, Error> {
        Ok(*self.hs.lock().unwrap())
    }
}

#[derive(Debug, Default)]
struct SimEngine {
    log: Arc<SimLogStore>,
    meta: Arc<SimMetaStore>,
}
impl StorageEngine for SimEngine {
    type LogStore = SimLogStore;
    type MetaStore = SimMetaStore;
    fn log_store(&self) -> Arc<SimLogStore> {
        self.log.clone()
    }
    fn meta_store(&self) -> Arc<SimMetaStore> {
        self.meta.clone()
    }
}

// ------------------------------------------------------------------------------------ journaling wrapper
#[derive(Clone, Copy, Debug, PartialEq, Eq)]
enum Act {
    Persist,
    Replace,
    Purge,
    Reset,
    Truncate,
    Flush,
}

struct JLog<L: LogStore> {
    inner: Arc<L>,
    journal: Arc<Mutex<Vec<Act>>>,
}
impl<L: LogStore> std::fmt::Debug for JLog<L> {
    fn fmt(&self, f: &mut std::fmt::Formatter<'_>) -> std::fmt::Result {
        f.write_str("JLog")
    }
}
impl<L: LogStore> JLog<L> {
    fn rec(&self, a: Act) {
        self.journal.lock().unwrap().push(a);
    }
}

#[async_trait]
impl<L: LogStore> LogStore for JLog<L> {
    async fn persist_entries(&self, entries: Vec<Entry>) -> Result<(), Error> {
        self.rec(Act::Persist);
        self.inner.persist_entries(entries).await
    }
    async fn entry(&self, index: u64) -> Result<Option<Entry>, Error> {
        self.inner.entry(index).await
    }
    fn get_entries(&self, range: RangeInclusive<u64>) -> Result<Vec<Entry>, Error> {
        self.inner.get_entries(range)
    }
    async fn purge(&self, cutoff: LogId) -> Result<(), Error> {
        self.rec(Act::Purge);
        self.inner.purge(cutoff).await
    }
    async fn truncate(&self, from: u64) -> Result<(), Error> {
        self.rec(Act::Truncate);
        self.inner.truncate(from).await
    }
    async fn replace_range(&self, from: u64, new_entries: Vec<Entry>) -> Result<(), Error> {
        self.rec(Act::Replace);
        self.inner.replace_range(from, new_entries).await
    }
    fn is_write_durable(&self) -> bool {
        self.inner.is_write_durable()
    }
    fn flush(&self) -> Result<(), Error> {
        self.rec(Act::Flush);
        self.inner.flush()
    }
    async fn flush_async(&self) -> Result<(), Error> {
        self.inner.flush_async().await
    }
    async fn reset(&self) -> Result<(), Error> {
        self.rec(Act::Reset);
        self.inner.reset().await
    }
    fn last_index(&self) -> u64 {
        self.inner.last_index()
    }
    fn load_purge_boundary(&self) -> Result<Option<LogId>, Error> {
        self.inner.load_purge_boundary()
    }
}

struct JEngine<E: StorageEngine> {
    inner: Arc<E>,
    log: Arc<JLog<E::LogStore>>,
}
impl<E: StorageEngine> std::fmt::Debug for JEngine<E> {
    fn fmt(&self, f: &mut std::fmt::Formatter<'_>) -> std::fmt::Result {
        f.write_str("JEngine")
    }
}
impl<E: StorageEngine> JEngine<E> {
    fn new(inner: Arc<E>, journal: Arc<Mutex<Vec<Act>>>) -> Self {
        let log = Arc::new(JLog { inner: inner.log_store(), journal });
        JEngine { inner, log }
    }
}
impl<E: StorageEngine> StorageEngine for JEngine<E> {
    type LogStore = JLog<E::LogStore>;
    type MetaStore = E::MetaStore;
    fn log_store(&self) -> Arc<Self::LogStore> {
        self.log.clone()
    }
    fn meta_store(&self) -> Arc<Self::MetaStore> {
        self.inner.meta_store()
    }
}

struct Cfg<E>(PhantomData<E>);
impl<E> std::fmt::Debug for Cfg<E> {
    fn fmt(&self, f: &mut std::fmt::Formatter<'_>) -> std::fmt::Result {
        f.write_str("Cfg")
    }
}
impl<E: StorageEngine + std::fmt::Debug> TypeConfig for Cfg<E> {
    type SE = JEngine<E>;
    type SM = MockStateMachine;
    type R = BufferedRaftLog<Self>;
    type M = MockMembership<Self>;
    type TR = MockTransport<Self>;
    type E = MockElectionCore<Self>;
    type REP = MockReplicationCore<Self>;
    type C = MockCommitHandler;
    type SMH = MockStateMachineHandler<Self>;
    type SNP = MockSnapshotPolicy;
    type PE = MockPurgeExecutor;
}

// ------------------------------------------------------------------------------------ engines under test
trait Backend: StorageEngine + std::fmt::Debug + Sized {
    type Ctx;
    fn fresh() -> (Arc<Self>, Self::Ctx);
    /// Image after a crash; `power` = power loss (only the durable copy survives). None = not supported.
    fn crash(old: Arc<Self>, ctx: &Self::Ctx, power: bool) -> Option<Arc<Self>>;
    /// (volatile entries, durable entries, boundary) for the snapshot.
    fn dump(e: &Self) -> (String, String, String);
}

impl Backend for SimEngine {
    type Ctx = ();
    fn fresh() -> (Arc<Self>, ()) {
        (Arc::new(SimEngine::default()), ())
    }
    fn crash(old: Arc<Self>, _: &(), power: bool) -> Option<Arc<Self>> {
        let g = old.log.inner.lock().unwrap();
        let (v, d) = if power { (g.d.clone(), g.d.clone()) } else { (g.v.clone(), g.d.clone()) };
        let hs = *old.meta.hs.lock().unwrap();
        Some(Arc::new(SimEngine {
            log: Arc::new(SimLogStore { inner: Mutex::new(SimInner { v, d }) }),
            meta: Arc::new(SimMetaStore { hs: Mutex::new(hs) }),
        }))
    }
    fn dump(e: &Self) -> (String, String, String) {
        let g = e.log.inner.lock().unwrap();
        let s = show_entries(&g.v.ents.values().cloned().collect::<Vec<_>>());
        let u = show_entries(&g.d.ents.values().cloned().collect::<Vec<_>>());
        let b = match g.v.boundary {
            Some(l) => format!("{}.{}", l.index, l.term),
            None => "-".into(),
        };
        (s, u, b)
    }
}

impl Backend for FileStorageEngine {
    type Ctx = tempfile::TempDir;
    fn fresh() -> (Arc<Self>, tempfile::TempDir) {
        std::fs::create_dir_all("/verif/target/tmp").unwrap();
        let dir = tempfile::tempdir_in("/verif/target/tmp").unwrap();
        let e = FileStorageEngine::new(dir.path().join("db")).unwrap();
        (Arc::new(e), dir)
    }
    fn crash(old: Arc<Self>, ctx: &tempfile::TempDir, power: bool) -> Option<Arc<Self>> {
        if power {
            return None;
        }
        // All file writes of FileLogStore are plain write(2) calls, so a process crash leaves exactly the
        // current file content; dropping the engine adds only an fsync.
        drop(old);
        Some(Arc::new(FileStorageEngine::new(ctx.path().join("db")).unwrap()))
    }
    fn dump(e: &Self) -> (String, String, String) {
        let s = show_entries(&e.log_store().get_entries(0..=u64::MAX).unwrap_or_default());
        let b = match e.log_store().load_purge_boundary() {
            Ok(Some(l)) => format!("{}.{}", l.index, l.term),
            _ => "-".into(),
        };
        (s, "?".into(), b)
    }
}

// ------------------------------------------------------------------------------------ case language
fn mk_entry(i: u64, t: u64, p: u64) -> Entry {
    Entry { index: i, term: t, payload: Some(EntryPayload::command(Bytes::from(vec![p as u8]))) }
}
fn payload_of(e: &Entry) -> u64 {
    match e.payload.as_ref().and_then(|p| p.payload.as_ref()) {
        Some(Payload::Command(b)) if !b.is_empty() => b[0] as u64,
        _ => 999,
    }
}
fn show_entries(es: &[Entry]) -> String {
    if es.is_empty() {
        return "-".into();
    }
    es.iter().map(|e| format!("{}.{}.{}", e.index, e.term, payload_of(e))).collect::<Vec<_>>().join(",")
}
fn parse_entries(s: &str) -> Option<Vec<Entry>> {
    if s == "-" || s.is_empty() {
        return Some(vec![]);
    }
    s.split(',')
        .map(|x| {
            let v: Vec<&str> = x.split('.').collect();
            if v.len() != 3 {
                return None;
            }
            Some(mk_entry(v[0].parse().ok()?, v[1].parse().ok()?, v[2].parse().ok()?))
        })
        .collect()
}
fn pair(s: &str) -> Option<(u64, u64)> {
    let mut it = s.split('.');
    let a = it.next()?.parse().ok()?;
    let b = it.next()?.parse().ok()?;
    if it.next().is_some() {
        return None;
    }
    Some((a, b))
}

#[derive(Clone, Copy, PartialEq, Eq, Debug)]
enum First {
    Cmd,
    Notify,
    Timer,
}

#[derive(Clone, Debug)]
enum Op {
    Append(Vec<Entry>),
    Fca(u64, u64, Vec<Entry>, First),
    Purge(u64, u64, First),
    Reset(First),
    Flush(First),
    Alloc(u64),
    Get(u64, u64),
    IoN,
    IoT,
    Close,
    Crash(bool),
}

fn parse_op(s: &str) -> Option<Op> {
    let (name, rest) = match s.find(':') {
        Some(k) => (&s[..k], &s[k + 1..]),
        None => (s, ""),
    };
    let (name, first) = if let Some(n) = name.strip_suffix('^') {
        (n, First::Notify)
    } else if let Some(n) = name.strip_suffix('~') {
        (n, First::Timer)
    } else {
        (name, First::Cmd)
    };
    Some(match name {
        "a" if first == First::Cmd => Op::Append(parse_entries(rest)?),
        "f" => {
            let k = rest.find(':')?;
            let (pi, pt) = pair(&rest[..k])?;
            Op::Fca(pi, pt, parse_entries(&rest[k + 1..])?, first)
        }
        "p" => {
            let (i, t) = pair(rest)?;
            Op::Purge(i, t, first)
        }
        "r" if rest.is_empty() => Op::Reset(first),
        "fl" if rest.is_empty() => Op::Flush(first),
        "al" if first == First::Cmd => Op::Alloc(rest.parse().ok()?),
        "g" if first == First::Cmd => {
            let (a, b) = pair(rest)?;
            Op::Get(a, b)
        }
        "io" if first == First::Cmd && rest == "n" => Op::IoN,
        "io" if first == First::Cmd && rest == "t" => Op::IoT,
        "close" if first == First::Cmd && rest.is_empty() => Op::Close,
        "c" if first == First::Cmd && rest == "p" => Op::Crash(false),
        "c" if first == First::Cmd && rest == "w" => Op::Crash(true),
        _ => return None,
    })
}

// ------------------------------------------------------------------------------------ the system under test
struct Sys<B: Backend> {
    eng: Arc<B>,
    ctx: B::Ctx,
    log: Arc<BufferedRaftLog<Cfg<B>>>,
    io: Option<Pin<Box<dyn Future<Output = ()>>>>,
    journal: Arc<Mutex<Vec<Act>>>,
}

struct SchedMismatch;

impl<B: Backend> Sys<B> {
    async fn open(eng: Arc<B>, ctx: B::Ctx) -> Self {
        let journal = Arc::new(Mutex::new(Vec::new()));
        let je = Arc::new(JEngine::new(eng.clone(), journal.clone()));
        let (log, rx) = BufferedRaftLog::<Cfg<B>>::new(
            1,
            PersistenceConfig {
                strategy: PersistenceStrategy::MemFirst,
                flush_policy: FlushPolicy::Batch { idle_flush_interval_ms: IDLE_MS },
                max_buffered_entries: 1000,
            },
            je,
        );
        let log = Arc::new(log);
        let io = BufferedRaftLog::verif_io_loop(&log, rx);
        let mut s = Sys { eng, ctx, log, io: Some(io), journal };
        // first poll: the loop creates its timer and registers on the Notify / the channel; nothing is ready
        s.poll_io().await;
        s
    }

    async fn poll_io(&mut self) {
        if let Some(io) = self.io.as_mut() {
            if let Poll::Ready(()) = futures::poll!(io.as_mut()) {
                self.io = None; // loop exited (Shutdown): its receiver is dropped with it
            }
        }
    }

    /// Run an operation that may wait for the IO loop: poll it, and while it is pending poll the IO loop.
    async fn drive<T>(&mut self, f: impl Future<Output = T>) -> Option<T> {
        let mut f = std::pin::pin!(f);
        for _ in 0..8 {
            if let Poll::Ready(r) = futures::poll!(f.as_mut()) {
                return Some(r);
            }
            self.poll_io().await;
        }
        None
    }

    fn jlen(&self) -> usize {
        self.journal.lock().unwrap().len()
    }

    /// Did the IO loop take the requested arm first (as far as the store calls can tell)?
    fn sched_ok(&self, from: usize, cmd: Option<Act>, first: First) -> Result<(), SchedMismatch> {
        let j = self.journal.lock().unwrap();
        let slice = &j[from..];
        let Some(cmd) = cmd else { return Ok(()) };
        let Some(pos) = slice.iter().position(|a| *a == cmd) else { return Ok(()) };
        let before = &slice[..pos];
        let ok = match first {
            // command arm first: its store call is the first store call of the run
            First::Cmd => before.is_empty(),
            // notify arm first (command drained inside it): persists, if any, come before the command's call
            // and there is no fsync before it; if nothing was persisted at all the orders coincide
            First::Notify => !before.contains(&Act::Flush) && (!slice.contains(&Act::Persist) || before.contains(&Act::Persist)),
            // timer arm first: an fsync (or nothing at all to do) precedes the command's call
            First::Timer => before.contains(&Act::Flush) || !slice.contains(&Act::Persist),
        };
        if ok { Ok(()) } else { Err(SchedMismatch) }
    }

    fn snapshot(&self) -> String {
        let l = &self.log;
        let lid = match l.last_log_id() {
            Some(x) => format!("{}.{}", x.index, x.term),
            None => "-".into(),
        };
        let opt = |x: Option<u64>| x.map(|v| v.to_string()).unwrap_or_else(|| "-".into());
        let t: Vec<String> = (0..=GRID_IDX).map(|i| opt(l.entry_term(i))).collect();
        let a: Vec<String> = (0..=GRID_TERM).map(|t| opt(l.first_index_for_term(t))).collect();
        let z: Vec<String> = (0..=GRID_TERM).map(|t| opt(l.last_index_for_term(t))).collect();
        let e = show_entries(&l.get_entries_range(0..=DUMP_MAX).unwrap_or_default());
        let le = match l.last_entry() {
            Some(x) => format!("{}.{}.{}", x.index, x.term, payload_of(&x)),
            None => "-".into(),
        };
        let (s, u, b) = B::dump(&self.eng);
        format!(
            "L={} F={} M={} D={} X={} K={} T={} A={} Z={} E={} S={} U={} B={}",
            lid,
            l.first_entry_id(),
            l.last_entry_id(),
            l.durable_index(),
            if RaftLog::is_empty(&**l) { 1 } else { 0 },
            le,
            t.join(","),
            a.join(","),
            z.join(","),
            e,
            s,
            u,
            b
        )
    }

    async fn step(mut self, op: &Op) -> Result<(Self, String), SchedMismatch> {
        let res = |r: Option<Result<(), Error>>| match r {
            Some(Ok(())) => "ok".to_string(),
            Some(Err(_)) => "err".to_string(),
            None => "hang".to_string(),
        };
        let j0 = self.jlen();
        let log = self.log.clone();
        let out = match op {
            Op::Append(es) => res(self.drive(log.append_entries(es.clone())).await),
            Op::Fca(pi, pt, es, first) => {
                if *first == First::Timer {
                    tokio::time::advance(Duration::from_millis(IDLE_MS)).await;
                }
                let r = self.drive(log.filter_out_conflicts_and_append(*pi, *pt, es.clone())).await;
                // reset path: the Reset command, conflict path: the ReplaceRange command
                let cmd = if *pi == 0 && *pt == 0 { Act::Reset } else { Act::Replace };
                self.sched_ok(j0, Some(cmd), *first)?;
                match r {
                    Some(Ok(Some(l))) => format!("r={}.{}", l.index, l.term),
                    Some(Ok(None)) => "r=-".into(),
                    Some(Err(_)) => "err".into(),
                    None => "hang".into(),
                }
            }
            Op::Purge(i, t, first) => {
                if *first == First::Timer {
                    tokio::time::advance(Duration::from_millis(IDLE_MS)).await;
                }
                let r = self.drive(log.purge_logs_up_to(LogId { index: *i, term: *t })).await;
                self.sched_ok(j0, Some(Act::Purge), *first)?;
                res(r)
            }
            Op::Reset(first) => {
                if *first == First::Timer {
                    tokio::time::advance(Duration::from_millis(IDLE_MS)).await;
                }
                let r = self.drive(log.reset()).await;
                self.sched_ok(j0, Some(Act::Reset), *first)?;
                res(r)
            }
            Op::Flush(first) => {
                if *first == First::Timer {
                    tokio::time::advance(Duration::from_millis(IDLE_MS)).await;
                }
                res(self.drive(log.flush()).await)
            }
            Op::Alloc(n) => {
                let r = log.pre_allocate_id_range(*n);
                if *n == 0 { "-".to_string() } else { format!("{}-{}", r.start(), r.end()) }
            }
            Op::Get(a, b) => {
                let es = log.get_entries_range(*a..=*b).unwrap_or_default();
                format!("g={}", show_entries(&es))
            }
            Op::IoN => {
                self.poll_io().await;
                "ok".into()
            }
            Op::IoT => {
                tokio::time::advance(Duration::from_millis(IDLE_MS)).await;
                self.poll_io().await;
                "ok".into()
            }
            Op::Close => {
                let _ = self.drive(log.close()).await;
                self.poll_io().await;
                "ok".into()
            }
            Op::Crash(power) => {
                drop(log);
                let Sys { eng, ctx, log, io, journal: _ } = self;
                drop(io); // the IO loop dies where it stands
                drop(log);
                match B::crash(eng, &ctx, *power) {
                    None => return Err(SchedMismatch),
                    Some(e2) => {
                        let s2 = Sys::open(e2, ctx).await;
                        let snap = s2.snapshot();
                        return Ok((s2, format!("ok {}", snap)));
                    }
                }
            }
        };
        let snap = self.snapshot();
        Ok((self, format!("{} {}", out, snap)))
    }
}

async fn run_case<B: Backend>(ops: &[Op]) -> Result<String, SchedMismatch> {
    let (eng, ctx) = B::fresh();
    let mut sys = Sys::<B>::open(eng, ctx).await;
    let mut out = Vec::new();
    for op in ops {
        let (s2, o) = sys.step(op).await?;
        sys = s2;
        out.push(o);
    }
    Ok(out.join(";"))
}

fn exec(case: &str) -> String {
    let Some((head, body)) = case.rsplit_once('|') else { return "bad-case".into() };
    let ops: Option<Vec<Op>> = if body.is_empty() { Some(vec![]) } else { body.split(';').map(parse_op).collect() };
    let Some(ops) = ops else { return "bad-case".into() };
    let file = match head {
        "e=sim" => false,
        "e=file" => true,
        _ => return "bad-case".into(),
    };
    if file && ops.iter().any(|o| matches!(o, Op::Crash(true))) {
        return "bad-case".into();
    }
    for _ in 0..400 {
        let rt = tokio::runtime::Builder::new_current_thread().enable_all().start_paused(true).build().unwrap();
        let r = if file { rt.block_on(run_case::<FileStorageEngine>(&ops)) } else { rt.block_on(run_case::<SimEngine>(&ops)) };
        if let Ok(s) = r {
            return s;
        }
    }
    "sched-fail".into()
}

// ------------------------------------------------------------------------------------ generators
fn generate(_r: &mut Rng, _n: usize, _tier: &str) -> Vec<String> {
    vec![]
}

fn main() {
    family_main(generate, exec);
}
