//! Family `store` (C20): the REAL File and RocksDB log stores driven by operation sequences, observed live, after
//! reopen, and (File) on the crash images taken by the guarded crash-point callbacks between its file operations.
//!
//! Case: `eng=file|op;op;...` or `eng=rocks|op;op;...`
//!   `p<i>:<t>:<g>,...`   persist_entries (index:term:payload-tag, tag 0 = no payload)
//!   `t<from>`            truncate
//!   `r<from>/<entries>`  replace_range (`-` = no entries)
//!   `g<i>:<t>`           purge(LogId{index,term})
//!   `z` reset   `f` flush   `o` graceful reopen (drop + open)   `k` process crash (copy of the live dir, no drop) + open
//!   a leading `c` (File only): also report what every crash image taken *inside* the op reopens to.
//! Output per op (joined with `;`): `<last_index> <entries> <purge-boundary> <durable?> <entry()-consistency>`
//!   File adds ` disk=<record index sequence in log.data> dur=<entries of the image as of the last sync_all>
//!   re=<entries/last of a store opened on log.data as it is now>`
//!   and for `c` ops ` {point>entries/last,...}`.
use std::cell::RefCell;
use std::path::{Path, PathBuf};
use std::rc::Rc;
use std::sync::Arc;

use bytes::Bytes;
use d_engine_core::{LogStore, StorageEngine};
use d_engine_proto::common::{entry_payload::Payload, Entry, EntryPayload, LogId};
use d_engine_server::storage::{verif_crashpoint, FileLogStore};
use d_engine_server::RocksDBStorageEngine;
use dv::{family_main, rng::Rng};
use prost::Message;

const TMP: &str = "/verif/target/tmp";

fn mk_entry(s: &str) -> Option<Entry> {
    let p: Vec<&str> = s.split(':').collect();
    if p.len() != 3 { return None; }
    let g: u8 = p[2].parse().ok()?;
    Some(Entry {
        index: p[0].parse().ok()?,
        term: p[1].parse().ok()?,
        payload: if g == 0 { None } else { Some(EntryPayload { payload: Some(Payload::Command(Bytes::from(vec![g]))) }) },
    })
}
fn mk_entries(s: &str) -> Option<Vec<Entry>> {
    if s.is_empty() || s == "-" { return Some(vec![]); }
    s.split(',').map(mk_entry).collect()
}
fn show_entry(e: &Entry) -> String {
    let g = match &e.payload {
        None => "0".to_string(),
        Some(EntryPayload { payload: Some(Payload::Command(b)) }) if b.len() == 1 => b[0].to_string(),
        _ => "x".to_string(),
    };
    format!("{}:{}:{}", e.index, e.term, g)
}
fn show_entries(es: &[Entry]) -> String {
    if es.is_empty() { "-".into() } else { es.iter().map(show_entry).collect::<Vec<_>>().join(",") }
}

/// Object-safe view of the LogStore methods used here.
trait DynLog {
    fn persist(&self, rt: &tokio::runtime::Runtime, es: Vec<Entry>) -> bool;
    fn truncate(&self, rt: &tokio::runtime::Runtime, from: u64) -> bool;
    fn replace(&self, rt: &tokio::runtime::Runtime, from: u64, es: Vec<Entry>) -> bool;
    fn purge(&self, rt: &tokio::runtime::Runtime, c: LogId) -> bool;
    fn reset(&self, rt: &tokio::runtime::Runtime) -> bool;
    fn flush(&self) -> bool;
    fn observe(&self, rt: &tokio::runtime::Runtime) -> String;
}
impl<L: LogStore> DynLog for L {
    fn persist(&self, rt: &tokio::runtime::Runtime, es: Vec<Entry>) -> bool { rt.block_on(self.persist_entries(es)).is_ok() }
    fn truncate(&self, rt: &tokio::runtime::Runtime, from: u64) -> bool { rt.block_on(LogStore::truncate(self, from)).is_ok() }
    fn replace(&self, rt: &tokio::runtime::Runtime, from: u64, es: Vec<Entry>) -> bool { rt.block_on(self.replace_range(from, es)).is_ok() }
    fn purge(&self, rt: &tokio::runtime::Runtime, c: LogId) -> bool { rt.block_on(LogStore::purge(self, c)).is_ok() }
    fn reset(&self, rt: &tokio::runtime::Runtime) -> bool { rt.block_on(LogStore::reset(self)).is_ok() }
    fn flush(&self) -> bool { LogStore::flush(self).is_ok() }
    fn observe(&self, rt: &tokio::runtime::Runtime) -> String {
        let all = match self.get_entries(0..=u64::MAX) { Ok(v) => v, Err(_) => return "get-err".into() };
        // entry(i) must agree with get_entries for every small index
        let hi = all.iter().map(|e| e.index).max().unwrap_or(0).min(40) + 2;
        let mut x = "ok".to_string();
        for i in 0..=hi {
            let a = rt.block_on(self.entry(i)).ok().flatten();
            let b = all.iter().find(|e| e.index == i).cloned();
            if a != b { x = format!("entry-mismatch@{i}"); break; }
        }
        // sub-range query consistent with the full one
        if all.len() >= 2 {
            let (lo, hi2) = (all[0].index + 1, all[all.len() - 1].index);
            let sub = self.get_entries(lo..=hi2).unwrap_or_default();
            let exp: Vec<Entry> = all.iter().filter(|e| e.index >= lo && e.index <= hi2).cloned().collect();
            if sub != exp { x = "range-mismatch".into(); }
        }
        let b = match self.load_purge_boundary() { Ok(None) => "-".into(), Ok(Some(l)) => format!("{}:{}", l.index, l.term), Err(_) => "err".into() };
        format!("{} {} {} {} {}", self.last_index(), show_entries(&all), b, if self.is_write_durable() { "durable" } else { "buffered" }, x)
    }
}

/// Records of a `log.data` image, parsed independently of the store (layout check).
fn disk_records(bytes: &[u8]) -> String {
    let mut pos = 0usize;
    let mut out = vec![];
    while pos + 8 <= bytes.len() {
        let len = u64::from_be_bytes(bytes[pos..pos + 8].try_into().unwrap()) as usize;
        if pos + 8 + len > bytes.len() { out.push("torn".to_string()); break; }
        match Entry::decode(&bytes[pos + 8..pos + 8 + len]) { Ok(e) => out.push(show_entry(&e)), Err(_) => out.push("undecodable".into()) }
        pos += 8 + len;
    }
    if pos < bytes.len() && pos + 8 > bytes.len() { out.push("torn".into()); }
    if out.is_empty() { "-".into() } else { out.join(",") }
}

/// Reopen an image of log.data with the real FileLogStore::new and report entries/last_index.
fn reopen_file_image(rt: &tokio::runtime::Runtime, img: &[u8]) -> String {
    let d = tempfile::tempdir_in(TMP).unwrap();
    std::fs::write(d.path().join("log.data"), img).unwrap();
    match FileLogStore::new(d.path().to_path_buf()) {
        Err(_) => "open-err".into(),
        Ok(s) => {
            let o = s.observe(rt);
            let p: Vec<&str> = o.split(' ').collect();
            format!("{}/{}", p.get(1).unwrap_or(&"?"), p.first().unwrap_or(&"?"))
        }
    }
}

fn copy_dir(src: &Path, dst: &Path) {
    std::fs::create_dir_all(dst).unwrap();
    for e in std::fs::read_dir(src).unwrap() {
        let e = e.unwrap();
        let p = e.path();
        let t = dst.join(e.file_name());
        if p.is_dir() { copy_dir(&p, &t); } else if e.file_name() != "LOCK" { std::fs::copy(&p, &t).unwrap(); }
    }
}

enum Eng { File(Option<Arc<FileLogStore>>), Rocks(Option<RocksDBStorageEngine>) }

fn exec(case: &str) -> String {
    if std::env::var_os("DV_LIST_ONLY").is_some() { return "-".into(); }   // debugging aid: print the generated cases only
    let Some((head, ops)) = case.split_once('|') else { return "bad-case".into() };
    std::fs::create_dir_all(TMP).ok();
    let rt = tokio::runtime::Builder::new_current_thread().enable_all().build().unwrap();
    let d = tempfile::tempdir_in(TMP).unwrap();
    let mut dir: PathBuf = d.path().join("g0");
    let mut generation = 0;
    let is_file = head == "eng=file";
    let mut eng = match head {
        "eng=file" => match FileLogStore::new(dir.clone()) { Ok(s) => Eng::File(Some(Arc::new(s))), Err(_) => return "open-err".into() },
        "eng=rocks" => match RocksDBStorageEngine::new(&dir) { Ok(s) => Eng::Rocks(Some(s)), Err(_) => return "open-err".into() },
        _ => return "bad-case".into(),
    };
    // File: content of log.data as of the last sync_all (FS model applied to the traced sync points)
    let durable: Rc<RefCell<Vec<u8>>> = Rc::new(RefCell::new(vec![]));
    let mut outs = vec![];
    let mut hole = false;
    for op in ops.split(';').filter(|s| !s.is_empty()) {
        let (crash, op) = match op.strip_prefix('c') { Some(r) => (true, r), None => (false, op) };
        let images: Rc<RefCell<Vec<(String, Vec<u8>)>>> = Rc::new(RefCell::new(vec![]));
        let len_before = std::fs::metadata(dir.join("log.data")).map(|m| m.len()).unwrap_or(0);
        let cut_len: Rc<RefCell<Option<u64>>> = Rc::new(RefCell::new(None));
        if is_file {
            let (im, du, cl, f) = (images.clone(), durable.clone(), cut_len.clone(), dir.join("log.data"));
            verif_crashpoint::set(Some(Box::new(move |name: &'static str| {
                let bytes = std::fs::read(&f).unwrap_or_default();
                if name.ends_with(":synced") { *du.borrow_mut() = bytes.clone(); }
                if name == "log:truncate:truncated" || name == "log:replace:truncated" { *cl.borrow_mut() = Some(bytes.len() as u64); }
                if crash { im.borrow_mut().push((name.to_string(), bytes)); }
            })));
        }
        let (k, arg) = op.split_at(1);
        let ok: bool = {
            let ls: Arc<dyn DynLog> = match &eng {
                Eng::File(Some(s)) => s.clone(),
                Eng::Rocks(Some(e)) => e.log_store(),
                _ => return "bad-state".into(),
            };
            match k {
                "p" => match mk_entries(arg) { Some(es) => ls.persist(&rt, es), None => return "bad-case".into() },
                "t" => match arg.parse() { Ok(f) => ls.truncate(&rt, f), Err(_) => return "bad-case".into() },
                "r" => {
                    let Some((f, es)) = arg.split_once('/') else { return "bad-case".into() };
                    match (f.parse(), mk_entries(es)) { (Ok(f), Some(es)) => ls.replace(&rt, f, es), _ => return "bad-case".into() }
                }
                "g" => {
                    let Some((i, t)) = arg.split_once(':') else { return "bad-case".into() };
                    match (i.parse(), t.parse()) { (Ok(index), Ok(term)) => ls.purge(&rt, LogId { index, term }), _ => return "bad-case".into() }
                }
                "z" => ls.reset(&rt),
                "f" => ls.flush(),
                "o" | "k" => true,
                _ => return "bad-case".into(),
            }
        };
        verif_crashpoint::set(None);
        // a stale end offset made set_len EXTEND the file: from here on the bytes (zero-filled hole) decide, which the
        // record-level model does not represent
        if let Some(l) = *cut_len.borrow() { if l > len_before { hole = true; } }
        if hole { outs.push("unmodelled".into()); if k == "o" || k == "k" { /* keep going on the same instance */ } continue; }
        if k == "o" || k == "k" {
            generation += 1;
            let next = d.path().join(format!("g{generation}"));
            if k == "k" {
                // process crash: whatever the OS holds now; the old instance is dropped only afterwards
                copy_dir(&dir, &next);
            }
            // graceful: drop (Drop impls flush), then open the same directory again
            match &mut eng {
                Eng::File(s) => {
                    if is_file && k == "o" {
                        // Drop runs flush() = sync_all: record it (the callback is not installed any more)
                        *durable.borrow_mut() = std::fs::read(dir.join("log.data")).unwrap_or_default();
                    }
                    *s = None;
                }
                Eng::Rocks(s) => { *s = None; }
            }
            if k == "k" { dir = next; }
            eng = match head {
                "eng=file" => match FileLogStore::new(dir.clone()) { Ok(s) => Eng::File(Some(Arc::new(s))), Err(_) => return "open-err".into() },
                _ => match RocksDBStorageEngine::new(&dir) { Ok(s) => Eng::Rocks(Some(s)), Err(_) => return "open-err".into() },
            };
        }
        let ls: Arc<dyn DynLog> = match &eng {
            Eng::File(Some(s)) => s.clone(),
            Eng::Rocks(Some(e)) => e.log_store(),
            _ => return "bad-state".into(),
        };
        let mut o = if ok { ls.observe(&rt) } else { format!("op-err {}", ls.observe(&rt)) };
        if is_file {
            let bytes = std::fs::read(dir.join("log.data")).unwrap_or_default();
            // `re` = what a store opened on the file as it is right now would hold (process crash at this very moment)
            o += &format!(" disk={} dur={} re={}", disk_records(&bytes), reopen_file_image(&rt, &durable.borrow()), reopen_file_image(&rt, &bytes));
            if crash {
                let parts: Vec<String> = images.borrow().iter()
                    .map(|(n, b)| format!("{}>{}", n.strip_prefix("log:").unwrap_or(n), reopen_file_image(&rt, b))).collect();
                o += &format!(" {{{}}}", parts.join(","));
            }
        }
        outs.push(o);
    }
    verif_crashpoint::set(None);
    outs.join(";")
}

// ------------------------------------------------------------------------------------------ generator
/// File cases keep every record the same byte length (index, term < 128, one payload byte): the model counts records.
fn gen_entries(r: &mut Rng, from: u64, n: u64, term: u64) -> String {
    (0..n).map(|j| format!("{}:{}:{}", (from + j).min(120), term, 1 + r.below(3))).collect::<Vec<_>>().join(",")
}

fn gen_case(r: &mut Rng, eng: &str, style: u64, len: usize) -> String {
    // `last` tracks a plausible end of the log so that most ops are meaningful
    let mut last: u64 = 0;
    let mut first: u64 = 1;
    let mut term: u64 = 1;
    let mut ops: Vec<String> = vec![];
    let reopen_budget = if eng == "rocks" { 2 } else { 6 };
    let mut reopens = 0;
    for _ in 0..len {
        if r.chance(1, 5) { term += 1; }
        let c = if eng == "file" && r.chance(1, 4) { "c" } else { "" };
        let roll = r.below(100);
        let op = match style {
            // contract-conforming: appends, suffix replace, truncate inside, purge of a proper prefix
            0 => match roll {
                0..=39 => { let n = 1 + r.below(3); let s = format!("{c}p{}", gen_entries(r, last + 1, n, term)); last += n; s }
                40..=54 if last >= first => { let f = r.range(first, last + 1); let n = r.below(3); let s = format!("{c}r{f}/{}", if n == 0 { "-".into() } else { gen_entries(r, f, n, term) }); last = f + n - 1; s }
                55..=64 if last >= first => { let f = r.range(first, last + 1); last = f - 1; format!("{c}t{f}") }
                65..=74 if last > first => { let g = r.range(first, last - 1); first = g + 1; format!("{c}g{g}:{term}") }
                75..=79 => "f".into(),
                80..=84 => { last = 0; first = 1; "z".into() }
                85..=92 if reopens < reopen_budget => { reopens += 1; "o".into() }
                93..=96 if reopens < reopen_budget => { reopens += 1; "k".into() }
                _ => { let n = 1 + r.below(2); let s = format!("p{}", gen_entries(r, last + 1, n, term)); last += n; s }
            },
            // re-written / out-of-order indexes (the property's quantifier) — still entries ≥ 1, ascending batches
            1 => match roll {
                0..=24 => { let n = 1 + r.below(3); let s = format!("{c}p{}", gen_entries(r, last + 1, n, term)); last += n; s }
                25..=49 => { let f = r.range(1, last.max(1) + 1); let n = 1 + r.below(3); let s = format!("{c}p{}", gen_entries(r, f, n, term)); last = last.max(f + n - 1); s }
                50..=62 => { let f = r.range(1, last + 2); let n = r.below(3); format!("{c}r{f}/{}", if n == 0 { "-".into() } else { gen_entries(r, f, n, term) }) }
                63..=72 => { let f = r.range(1, last + 2); format!("{c}t{f}") }
                73..=80 => { let g = r.range(0, last + 1); format!("{c}g{g}:{term}") }
                81..=84 => "f".into(),
                85..=87 => "z".into(),
                88..=95 if reopens < reopen_budget => { reopens += 1; "o".into() }
                _ => { reopens += 1; if reopens <= reopen_budget { "k".into() } else { "f".into() } }
            },
            // malformed: index 0, descending / gapped / duplicate batches, truncate(0), far indexes
            _ => match roll {
                0..=29 => {
                    let n = 1 + r.below(3);
                    let lo = if eng == "rocks" { 0 } else { 1 };
                    let es: Vec<String> = (0..n).map(|_| format!("{}:{}:{}", lo + r.below(8), 1 + r.below(3), if eng == "rocks" { r.below(4) } else { 1 + r.below(3) })).collect();
                    format!("{c}p{}", es.join(","))
                }
                30..=44 => { let f = r.below(10); let n = r.below(3); let es: Vec<String> = (0..n).map(|_| format!("{}:{}:{}", 1 + r.below(10), term, 1 + r.below(3))).collect(); format!("{c}r{f}/{}", if n == 0 { "-".into() } else { es.join(",") }) }
                45..=59 => format!("{c}t{}", *r.pick(&[0u64, 1, 2, 5, 9, 100, u64::MAX])),
                60..=72 => format!("{c}g{}:{}", *r.pick(&[0u64, 1, 3, 7, 100, u64::MAX - 1]), term), // (u64::MAX itself overflows `index + 1` in FileLogStore::purge: debug panic, then abort in Drop)
                73..=80 => "p-".into(),
                81..=85 => "z".into(),
                86..=93 if reopens < reopen_budget => { reopens += 1; "o".into() }
                _ => "f".into(),
            },
        };
        ops.push(op);
    }
    if reopens < reopen_budget { ops.push("o".into()); }
    format!("eng={eng}|{}", ops.join(";"))
}

fn generate(r: &mut Rng, n: usize, tier: &str) -> Vec<String> {
    let mut out = vec![
        "eng=file|p1:1:1,2:1:2,3:1:3;o".to_string(),
        "eng=rocks|p1:1:1,2:1:2,3:1:0;o".to_string(),
    ];
    let rocks_every = if tier == "thorough" { 40 } else { 12 };   // opening RocksDB costs ~0.3 s per (re)open
    for i in 0..n {
        let eng = if i % rocks_every == rocks_every - 1 { "rocks" } else { "file" };
        let style = match i % 10 { 0..=4 => 0, 5..=7 => 1, _ => 2 };
        let len = 2 + r.below(if eng == "rocks" { 7 } else { 10 }) as usize;
        out.push(gen_case(r, eng, style, len));
    }
    out
}

fn main() { family_main(generate, exec); }
