fn main() {
    let c = d_engine_core::RaftConfig::default();
    println!("ok {:?}", c.validate().is_ok());
}
