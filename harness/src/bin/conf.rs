//! Family `conf`: real `RaftConfig::validate` on boundary-value grids (C34, C12a).
use d_engine_core::{FlushPolicy, RaftConfig};
use dv::{family_main, fields, rng::Rng};

const KEYS: [&str; 27] = [
    "lc", "gt", "hb", "per", "batch", "merge", "emin", "emax", "pm", "ci", "mc", "mlbs", "rc", "cs", "ret", "sy", "ry",
    "pq", "rct", "pmr", "lease", "rtt", "rac", "rad", "evq", "wb", "idle",
];
// Valid defaults (same order as KEYS).
const DEFAULTS: [u64; 27] = [
    1, 50, 100, 100, 100, 1000, 500, 1000, 30, 1000, 1, 1000, 2, 1024, 1, 1, 1, 100, 10, 3, 250, 2, 512, 100, 10240,
    256, 1000,
];
const U32_KEYS: [&str; 1] = ["pmr"];

fn show(v: &[u64; 27]) -> String {
    KEYS.iter().zip(v.iter()).map(|(k, x)| format!("{}={}", k, x)).collect::<Vec<_>>().join(" ")
}

fn boundary(r: &mut Rng, around: &[u64]) -> u64 {
    let base = [0u64, 1, 2, 99, 100, 101, 60_000, 60_001, 1 << 31, 1 << 32, 1 << 63, u64::MAX - 1, u64::MAX];
    match r.below(4) {
        0 => *r.pick(&base),
        1 | 2 if !around.is_empty() => {
            let a = *r.pick(around);
            match r.below(5) {
                0 => a.saturating_sub(1),
                1 => a,
                2 => a.saturating_add(1),
                3 => a.saturating_mul(2),
                _ => a.saturating_mul(2).saturating_add(1),
            }
        }
        _ => r.below(2000),
    }
}

fn generate(r: &mut Rng, n: usize, _tier: &str) -> Vec<String> {
    let mut out = vec![show(&DEFAULTS)];
    for i in 0..n {
        let mut v = DEFAULTS;
        match i % 4 {
            // mostly-valid: perturb the timing quadruple around each other (the C34 core)
            0 | 1 => {
                let emin = boundary(r, &[500]);
                v[6] = emin;
                v[7] = boundary(r, &[emin]);
                v[20] = boundary(r, &[emin, emin / 2]);
                v[21] = boundary(r, &[emin, 2u64.saturating_mul(emin.saturating_sub(v[20]))]);
            }
            // one or two random fields at a boundary
            2 => {
                for _ in 0..=r.below(2) {
                    let k = r.below(27) as usize;
                    v[k] = boundary(r, &[DEFAULTS[k]]);
                }
            }
            // malformed stream: many fields random
            _ => {
                for k in 0..27 {
                    if r.chance(1, 3) { v[k] = boundary(r, &[DEFAULTS[k]]); }
                }
            }
        }
        for (i, k) in KEYS.iter().enumerate() {
            if U32_KEYS.contains(k) { v[i] = v[i].min(u32::MAX as u64); }
        }
        out.push(show(&v));
    }
    out
}

fn tag(msg: &str) -> &'static str {
    let table: [(&str, &str); 26] = [
        ("learner_catchup_threshold", "learner_catchup"),
        ("general_raft_timeout_duration_in_ms", "general_timeout"),
        ("rpc_append_entries_clock_in_ms", "heartbeat"),
        ("append_entries_max_entries_per_replication", "per_replication"),
        ("max_batch_size", "max_batch"),
        ("max_merge_entries", "max_merge"),
        ("must be less than election_timeout_max", "election_min_max"),
        ("rpc_peer_connectinon_monitor_interval_in_sec", "peer_monitor"),
        ("cleanup_interval_ms", "cleanup_interval"),
        ("max_cleanup_duration_ms", "max_cleanup"),
        ("max_log_entries_before_snapshot", "max_log_before_snapshot"),
        ("cleanup_retain_count", "retain_count"),
        ("chunk_size", "chunk_size"),
        ("retained_log_entries", "retained"),
        ("sender_yield_every_n_chunks", "sender_yield"),
        ("receiver_yield_every_n_chunks", "receiver_yield"),
        ("push_queue_size", "push_queue"),
        ("receive_chunk_timeout_in_sec", "recv_chunk_timeout"),
        ("snapshot_push_max_retry", "push_max_retry"),
        ("lease_duration_ms must be greater than 0", "lease_zero"),
        ("must be strictly less than election_timeout_min", "lease_vs_election"),
        ("read_actor.channel_capacity", "ra_capacity"),
        ("read_actor.max_drain", "ra_max_drain"),
        ("event_queue_size", "event_queue"),
        ("watcher_buffer_size", "watcher_buffer"),
        ("idle_flush_interval_ms", "idle_flush"),
    ];
    for (needle, t) in table {
        if msg.contains(needle) { return t; }
    }
    "unknown"
}

fn exec(case: &str) -> String {
    let f = fields(case);
    let g = |k: &str| -> u64 { f.get(k).and_then(|s| s.parse().ok()).expect("field") };
    let mut c = RaftConfig::default();
    c.learner_catchup_threshold = g("lc");
    c.general_raft_timeout_duration_in_ms = g("gt");
    c.replication.rpc_append_entries_clock_in_ms = g("hb");
    c.replication.append_entries_max_entries_per_replication = g("per");
    c.batching.max_batch_size = g("batch") as usize;
    c.batching.max_merge_entries = g("merge") as usize;
    c.election.election_timeout_min = g("emin");
    c.election.election_timeout_max = g("emax");
    c.election.rpc_peer_connectinon_monitor_interval_in_sec = g("pm");
    c.state_machine.lease.cleanup_interval_ms = g("ci");
    c.state_machine.lease.max_cleanup_duration_ms = g("mc");
    c.snapshot.max_log_entries_before_snapshot = g("mlbs");
    c.snapshot.cleanup_retain_count = g("rc");
    c.snapshot.chunk_size = g("cs") as usize;
    c.snapshot.retained_log_entries = g("ret");
    c.snapshot.sender_yield_every_n_chunks = g("sy") as usize;
    c.snapshot.receiver_yield_every_n_chunks = g("ry") as usize;
    c.snapshot.push_queue_size = g("pq") as usize;
    c.snapshot.receive_chunk_timeout_in_sec = g("rct");
    c.snapshot.snapshot_push_max_retry = g("pmr") as u32;
    c.read_consistency.lease_duration_ms = g("lease");
    c.read_consistency.network_rtt_p99_ms = g("rtt");
    c.read_actor.channel_capacity = g("rac") as usize;
    c.read_actor.max_drain = g("rad") as usize;
    c.watch.event_queue_size = g("evq") as usize;
    c.watch.watcher_buffer_size = g("wb") as usize;
    c.persistence.flush_policy = FlushPolicy::Batch { idle_flush_interval_ms: g("idle") };
    c.snapshot.snapshots_dir = std::path::PathBuf::from("/verif/target/tmp/conf-snapshots");
    match c.validate() {
        Ok(()) => "ok".into(),
        // Only the accept/reject decision is compared with the model (the order in which failing
        // checks are reported is not property-relevant); the tag must still be a known one.
        Err(e) => { let t = tag(&format!("{}", e)); if t == "unknown" { "err unknown-validator".into() } else { "err".into() } }
    }
}

fn main() { family_main(generate, exec); }
