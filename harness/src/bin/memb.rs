//! Family `memb` (C26, C27, C28): real `RaftMembership` (hook `verif_new`), real `LeaderState`
//! (`handle_promote_ready_learners` / `calculate_safe_batch_size`, `handle_join_cluster`,
//! `handle_stale_learner`, `handle_append_result`, `handle_log_flushed`), real `LearnerState`,
//! real `DefaultCommitHandler::process_batch` + `DefaultStateMachineHandler` + `FileStateMachine`,
//! restart through the real `NodeBuilder::build()`.
//!
//! One case = `k=<kind> <header>|op;op;..`, output = one record per step (step 0 = initial) joined by ` | `.
//!
//! k=view self=S nodes=<id:role:status,..>          ops: change ops (`add:ID:S` `rm:ID` `pro:ID` `bp:IDS[:S]` `br:IDS` `nil`), `rj:ID:ROLE`
//!    record `M[members] V[voter ids] P[replication peer ids] v<conf version> s<is_single_node_cluster> e[err]`
//! k=cl lead=L nodes=<initial cluster of every node>  ops: `P:IDS` leader promotes with pending IDS, `J:ID:STATUS:ROLE` join request,
//!    `S:ID` stale learner, `A:N:K` node N applies the config log up to entry K
//!    record `g[config log] a[node:applied,..] q[node:voter set by its own view;..] e[..]`
//! k=rs self=S nodes=<initial_cluster>               ops: `c:<change>` config entry, `x` command entry, `commit:K`, `restart`
//!    record `M[members] la<last applied> ci<commit index of a fresh FollowerState> r<restarts>`
//! k=lr self=S t=T log=<terms> nodes=..              ops: `vote:T:CAND:LASTIDX:LASTTERM`, `tick`, change ops (applied + MembershipApplied)
//!    record `g<granted 0/1/-> t<term> x<timer expired> m<role of self in membership> e[events]`
//! k=jn t=T log=<terms> nodes=..                     ops: `join:ID:ROLE:STATUS`, `ok:P:T:M`, `fl:D`
//!    record `c<commit> l<last index> j[id:state,..] e[events]`   state = pending | ok | err
//! k=pq t=T log=<terms> nodes=..                     ops: `P:IDS`, `ok:P:T:M`, `fl:D`, `A` (apply committed config entries)
//!    record `c<commit> l<last> m[match] v[voters of the CACHED cluster metadata] tv<total_voters> sv<single_voter> e[..]`
#[path = "../memb_env.rs"]
mod env;
use std::sync::Arc;
use std::time::Duration;

use d_engine_core::alias::{MOF, ROF, SMHOF};
use d_engine_core::follower_state::FollowerState;
use d_engine_core::leader_state::{LeaderState, PendingPromotion};
use d_engine_core::learner_state::LearnerState;
use d_engine_core::role_state::RaftRoleState;
use d_engine_core::{
    CommitHandlerDependencies, DefaultCommitHandler, DefaultStateMachineHandler, InboundEvent, LogSizePolicy,
    MaybeCloneOneshot, Membership, RaftLog, RaftOneshot, StateMachine, StateMachineHandler,
};
use d_engine_proto::common::entry_payload::Payload;
use d_engine_proto::common::membership_change::Change;
use d_engine_proto::common::{Entry, EntryPayload, LogId, NodeRole};
use d_engine_proto::server::cluster::{JoinRequest, JoinResponse, NodeMeta};
use d_engine_proto::server::election::VoteRequest;
use d_engine_proto::server::replication::{append_entries_response, AppendEntriesResponse, SuccessResult};
use d_engine_server::{FileStateMachine, FileStorageEngine, NodeBuilder};
use dv::{family_main, fields, nat_list, rng::Rng};
use env::*;
use tokio::sync::{mpsc, watch};

fn show_ids(mut v: Vec<u32>) -> String {
    v.sort();
    if v.is_empty() { "-".into() } else { v.iter().map(|x| x.to_string()).collect::<Vec<_>>().join(",") }
}

fn show_change(c: &Option<Change>) -> String {
    match c {
        Some(Change::AddNode(a)) => format!("add:{}:{}", a.node_id, status_ch(a.status)),
        Some(Change::RemoveNode(r)) => format!("rm:{}", r.node_id),
        Some(Change::Promote(p)) => format!("pro:{}", p.node_id),
        Some(Change::BatchPromote(b)) => format!(
            "bp:{}:{}",
            b.node_ids.iter().map(|x| x.to_string()).collect::<Vec<_>>().join(","),
            status_ch(b.new_status)
        ),
        Some(Change::BatchRemove(b)) => format!("br:{}", b.node_ids.iter().map(|x| x.to_string()).collect::<Vec<_>>().join(",")),
        None => "nil".into(),
    }
}

// ------------------------------------------------------------------------------------------ view
async fn view_record(m: &M, self_id: u32, err: &str) -> String {
    format!(
        "M[{}] V[{}] P[{}] v{} s{} e[{}]",
        show_nodes(m.members().await),
        show_ids(m.voters().await.iter().map(|n| n.id).collect()),
        show_ids(m.replication_peers().await.iter().map(|n| n.id).collect()),
        m.get_cluster_conf_version().await,
        m.is_single_node_cluster().await as u8,
        if err.is_empty() { "-" } else { err }
    )
    .replace("SELF", &self_id.to_string())
}

async fn run_view(f: &std::collections::HashMap<String, String>, ops: &str) -> String {
    let self_id: u32 = f["self"].parse().unwrap();
    let dir = tmp();
    let nodes = parse_nodes(&f["nodes"]);
    let cfg = node_config(self_id, nodes.clone(), dir.path(), 1);
    let m = M::verif_new(self_id, nodes, cfg);
    let mut out = vec![view_record(&m, self_id, "").await];
    for op in ops.split(';').filter(|s| !s.is_empty()) {
        let p: Vec<&str> = op.split(':').collect();
        let err = if p[0] == "rj" {
            match m.can_rejoin(p[1].parse().unwrap(), role_of(p[2])).await {
                Ok(()) => "rj-ok".to_string(),
                Err(e) => format!("rj-{}", err_tag(&e)),
            }
        } else if is_change_op(op) {
            match m.apply_config_change(parse_change(op).unwrap()).await {
                Ok(()) => String::new(),
                Err(e) => err_tag(&e),
            }
        } else {
            "bad-op".into()
        };
        out.push(view_record(&m, self_id, &err).await);
    }
    out.join(" | ")
}

// --------------------------------------------------------------------------------------- cluster
struct ClNode {
    id: u32,
    m: Arc<MOF<T>>,
    applied: usize,
}

async fn voter_set(n: &ClNode) -> String {
    let me = n.m.retrieve_node_meta(n.id).await;
    match me {
        Some(meta) if meta.role != NodeRole::Learner as i32 => {
            let mut v: Vec<u32> = n.m.voters().await.iter().map(|x| x.id).collect();
            v.push(n.id);
            show_ids(v)
        }
        _ => "-".into(),
    }
}

async fn run_cl(f: &std::collections::HashMap<String, String>, ops: &str) -> String {
    let lead: u32 = f["lead"].parse().unwrap();
    let initial = parse_nodes(&f["nodes"]);
    let mut env = Env::new(lead, initial.clone(), 1).await;
    let mut st = LeaderState::<T>::new(lead, env.cfg.clone());
    st.update_current_term(1);
    let mem = env.ctx.membership.clone();
    st.init_cluster_metadata(&mem).await.unwrap();
    let mut nodes: Vec<ClNode> = vec![];
    let mut dirs = vec![];
    for n in &initial {
        if n.id == lead {
            nodes.push(ClNode { id: lead, m: env.ctx.membership.clone(), applied: 0 });
        } else {
            let d = tmp();
            let cfg = node_config(n.id, initial.clone(), d.path(), 1);
            nodes.push(ClNode { id: n.id, m: Arc::new(M::verif_new(n.id, initial.clone(), cfg)), applied: 0 });
            dirs.push(d);
        }
    }
    let mut glog: Vec<Option<Change>> = vec![];
    let mut out = vec![];
    let mut steps: Vec<&str> = vec![""];
    steps.extend(ops.split(';').filter(|s| !s.is_empty()));
    for op in steps {
        let p: Vec<&str> = op.split(':').collect();
        let mut extra: Vec<String> = vec![];
        let before = env.ctx.raft_log().last_entry_id();
        let tx = env.tx.clone();
        match p[0] {
            "" => {}
            "P" => {
                st.pending_promotions.clear();
                for id in ids(p[1]) {
                    st.pending_promotions.push_back(PendingPromotion::new(id, tokio::time::Instant::now()));
                }
                if let Err(e) = st.handle_promote_ready_learners(&env.ctx, &tx).await {
                    extra.push(format!("!{}", err_tag(&e)));
                }
                extra.push(format!("left:{}", show_ids(st.pending_promotions.iter().map(|x| x.node_id).collect())));
                st.pending_promotions.clear();
            }
            "J" => {
                let (jtx, mut jrx) = <MaybeCloneOneshot as RaftOneshot<Result<JoinResponse, tonic::Status>>>::new();
                let id: u32 = p[1].parse().unwrap();
                let req = JoinRequest { node_id: id, node_role: role_of(p[3]), address: addr(id), status: status_of(p[2]) };
                if let Err(e) = st.handle_join_cluster(req, jtx, &env.ctx, &tx).await {
                    extra.push(format!("!{}", err_tag(&e)));
                }
                match jrx.try_recv() {
                    Ok(Ok(_)) => extra.push("join-answered-ok".into()),
                    Ok(Err(_)) => extra.push("join-rejected".into()),
                    Err(_) => extra.push("join-pending".into()),
                }
            }
            "S" => {
                if let Err(e) = st.handle_stale_learner(p[1].parse().unwrap(), &tx, &env.ctx).await {
                    extra.push(format!("!{}", err_tag(&e)));
                }
            }
            "A" => {
                let nid: u32 = p[1].parse().unwrap();
                let k: usize = p[2].parse().unwrap();
                if let Some(n) = nodes.iter_mut().find(|n| n.id == nid) {
                    while n.applied < k.min(glog.len()) {
                        let ch = d_engine_proto::common::MembershipChange { change: glog[n.applied].clone() };
                        if let Err(e) = n.m.apply_config_change(ch).await {
                            extra.push(format!("!{}", err_tag(&e)));
                        }
                        n.applied += 1;
                        if nid == lead {
                            let _ = st.handle_membership_applied(&env.ctx, &tx).await;
                        }
                    }
                } else {
                    extra.push("!no-such-node".into());
                }
            }
            _ => extra.push("!bad-op".into()),
        }
        // config entries the leader appended to its real log during this step
        let after = env.ctx.raft_log().last_entry_id();
        if after > before {
            for e in env.ctx.raft_log().get_entries_range(before + 1..=after).unwrap() {
                if let Some(EntryPayload { payload: Some(Payload::Config(mc)) }) = e.payload {
                    glog.push(mc.change);
                }
            }
        }
        let _ = env.events();
        let mut qs = vec![];
        let mut aps = vec![];
        for n in &nodes {
            qs.push(format!("{}:{}", n.id, voter_set(n).await));
            aps.push(format!("{}:{}", n.id, n.applied));
        }
        out.push(format!(
            "g[{}] a[{}] q[{}] e[{}]",
            if glog.is_empty() { "-".to_string() } else { glog.iter().map(show_change).collect::<Vec<_>>().join(" ").replace(' ', "/") },
            aps.join(","),
            qs.join(";"),
            if extra.is_empty() { "-".to_string() } else { extra.join(",") }
        ));
    }
    drop(st);
    out.join(" | ")
}

// --------------------------------------------------------------------------------------- restart
struct Proc {
    log: Arc<ROF<T>>,
    sm: Arc<FileStateMachine>,
    smh: Arc<SMHOF<T>>,
    m: Arc<MOF<T>>,
    ch: DefaultCommitHandler<T>,
    apply_rx: mpsc::UnboundedReceiver<Vec<Entry>>,
    _ev_rx: mpsc::UnboundedReceiver<d_engine_core::InternalEvent>,
    _sd: watch::Sender<()>,
}

async fn compose(self_id: u32, cfg: &d_engine_core::RaftNodeConfig, dir: &std::path::Path, m: Option<Arc<MOF<T>>>) -> Proc {
    let storage = Arc::new(FileStorageEngine::new(storage_dir(dir)).unwrap());
    let sm = Arc::new(FileStateMachine::new(sm_dir(dir)).await.unwrap());
    sm.start().await.unwrap();
    let (log, rx) = d_engine_core::BufferedRaftLog::<T>::new(self_id, cfg.raft.persistence.clone(), storage);
    let log: Arc<ROF<T>> = log.start(rx, None);
    let m = m.unwrap_or_else(|| Arc::new(M::verif_new(self_id, cfg.cluster.initial_cluster.clone(), cfg.clone())));
    let policy = LogSizePolicy::new(1_000_000, Duration::from_secs(3600));
    let smh: Arc<SMHOF<T>> = Arc::new(DefaultStateMachineHandler::new(
        self_id,
        sm.last_applied().index,
        sm.clone(),
        cfg.raft.snapshot.clone(),
        policy,
        None,
        Arc::new(std::sync::atomic::AtomicUsize::new(0)),
    ));
    let (ev_tx, ev_rx) = mpsc::unbounded_channel();
    let (apply_tx, apply_rx) = mpsc::unbounded_channel();
    let (sd_tx, sd_rx) = watch::channel(());
    let (_ctx, crx) = mpsc::unbounded_channel();
    let ch = DefaultCommitHandler::<T>::new(
        self_id,
        NodeRole::Follower as i32,
        1,
        CommitHandlerDependencies {
            state_machine_handler: smh.clone(),
            raft_log: log.clone(),
            membership: m.clone(),
            internal_event_tx: ev_tx,
            sm_apply_tx: apply_tx,
            shutdown_signal: sd_rx,
            max_batch_size: 100,
        },
        crx,
    );
    Proc { log, sm, smh, m, ch, apply_rx, _ev_rx: ev_rx, _sd: sd_tx }
}

async fn run_rs(f: &std::collections::HashMap<String, String>, ops: &str) -> String {
    let self_id: u32 = f["self"].parse().unwrap();
    let dir = tmp();
    let initial = parse_nodes(&f["nodes"]);
    let cfg = node_config(self_id, initial.clone(), dir.path(), 1);
    std::fs::create_dir_all(&cfg.cluster.db_root_dir).unwrap();
    std::fs::create_dir_all(&cfg.cluster.log_dir).unwrap();
    std::fs::create_dir_all(&cfg.raft.snapshot.snapshots_dir).unwrap();
    let mut pr = Some(compose(self_id, &cfg, dir.path(), None).await);
    let mut restarts = 0;
    let mut out = vec![];
    let mut steps: Vec<&str> = vec![""];
    steps.extend(ops.split(';').filter(|s| !s.is_empty()));
    for op in steps {
        let p = pr.as_mut().unwrap();
        if op == "x" || op.starts_with("c:") {
            let idx = p.log.last_entry_id() + 1;
            let payload = if op == "x" {
                EntryPayload::command(bytes::Bytes::new())
            } else {
                match parse_change(&op[2..]).unwrap().change {
                    Some(c) => EntryPayload::config(c),
                    None => EntryPayload { payload: Some(Payload::Config(d_engine_proto::common::MembershipChange { change: None })) },
                }
            };
            // an empty command payload decodes to a no-op for the state machine; use a noop entry instead
            let payload = if op == "x" { EntryPayload::noop() } else { payload };
            p.log.append_entries(vec![Entry { index: idx, term: 1, payload: Some(payload) }]).await.unwrap();
            p.log.flush().await.unwrap();
        } else if let Some(k) = op.strip_prefix("commit:") {
            let k: u64 = k.parse::<u64>().unwrap().min(p.log.last_entry_id());
            p.smh.update_pending(k);
            let _ = p.ch.verif_process_batch().await;
            while let Ok(batch) = p.apply_rx.try_recv() {
                let _ = p.smh.apply_chunk(batch).await;
            }
        } else if op == "restart" {
            // graceful stop: flush the log, drop every component (FileStateMachine::drop persists last_applied)
            let old = pr.take().unwrap();
            old.log.flush().await.unwrap();
            old.log.close().await;
            let Proc { log, sm, smh, m, ch, apply_rx, _ev_rx, _sd } = old;
            drop(ch);
            drop(smh);
            drop(m);
            drop(apply_rx);
            drop(log);
            drop(sm);
            // the real restart path
            let (sd_tx, sd_rx) = watch::channel(());
            let storage = Arc::new(FileStorageEngine::new(storage_dir(dir.path())).unwrap());
            let sm = Arc::new(FileStateMachine::new(sm_dir(dir.path())).await.unwrap());
            let probe = sm.clone();
            let built = NodeBuilder::from_node_config(cfg.clone(), sd_rx).storage_engine(storage).state_machine(sm).build().await;
            let built = match built {
                Ok(b) => b,
                Err(_) => return "build-failed".into(),
            };
            let mem = built.verif_built_membership().unwrap();
            let _ = sd_tx.send(());
            drop(built);
            // wait until every task of the built node has let go of the state machine, so that only one
            // FileStateMachine instance is alive on the directory at any time (its Drop persists last_applied)
            for _ in 0..2000 {
                if Arc::strong_count(&probe) == 1 { break; }
                tokio::time::sleep(Duration::from_millis(5)).await;
            }
            if Arc::strong_count(&probe) != 1 { return "built-node-did-not-stop".into(); }
            drop(probe);
            restarts += 1;
            // continue on harness-composed components around the built node's membership
            pr = Some(compose(self_id, &cfg, dir.path(), Some(mem)).await);
        }
        let p = pr.as_ref().unwrap();
        let la = p.sm.last_applied().index;
        let fresh = FollowerState::<T>::new(self_id, Arc::new(cfg.clone()), None, Some(la));
        out.push(format!("M[{}] la{} ci{} r{}", show_nodes(p.m.members().await), la, fresh.commit_index(), restarts));
    }
    if let Some(p) = pr.take() {
        p.log.close().await;
    }
    out.join(" | ")
}

// --------------------------------------------------------------------------------------- learner
async fn run_lr(f: &std::collections::HashMap<String, String>, ops: &str) -> String {
    let self_id: u32 = f["self"].parse().unwrap();
    let mut env = Env::new(self_id, parse_nodes(&f["nodes"]), 1).await;
    env.append_terms(&nat_list(f.get("log").map(|s| s.as_str()).unwrap_or("-"))).await;
    let mut st = LearnerState::<T>::new(self_id, env.cfg.clone());
    st.update_current_term(f["t"].parse().unwrap());
    let (raft_tx, _raft_rx) = mpsc::channel::<InboundEvent>(16);
    let mut out = vec![];
    let mut steps: Vec<&str> = vec![""];
    steps.extend(ops.split(';').filter(|s| !s.is_empty()));
    for op in steps {
        let p: Vec<&str> = op.split(':').collect();
        let mut granted = "-".to_string();
        let mut extra: Vec<String> = vec![];
        let tx = env.tx.clone();
        match p[0] {
            "" => {}
            "vote" => {
                let (vtx, mut vrx) = <MaybeCloneOneshot as RaftOneshot<_>>::new();
                let req = VoteRequest {
                    term: p[1].parse().unwrap(),
                    candidate_id: p[2].parse().unwrap(),
                    last_log_index: p[3].parse().unwrap(),
                    last_log_term: p[4].parse().unwrap(),
                };
                if let Err(e) = st.handle_inbound_event(InboundEvent::ReceiveVoteRequest(req, vtx), &env.ctx, tx.clone()).await {
                    extra.push(format!("!{}", err_tag(&e)));
                }
                granted = match vrx.try_recv() {
                    Ok(Ok(r)) => format!("{}", r.vote_granted as u8),
                    Ok(Err(_)) => "e".into(),
                    Err(_) => "n".into(),
                };
            }
            "tick" => {
                if let Err(e) = st.tick(&tx, &raft_tx, &env.ctx).await {
                    extra.push(format!("!{}", err_tag(&e)));
                }
            }
            _ if is_change_op(op) => match env.ctx.membership().apply_config_change(parse_change(op).unwrap()).await {
                Ok(()) => {
                    if let Err(e) = st.handle_membership_applied(&env.ctx, &tx).await {
                        extra.push(format!("!{}", err_tag(&e)));
                    }
                }
                Err(e) => extra.push(format!("!{}", err_tag(&e))),
            },
            _ => extra.push("!bad-op".into()),
        }
        let mut ev = env.events();
        ev.extend(extra);
        let my_role = env.ctx.membership().retrieve_node_meta(self_id).await.map(|n| role_ch(n.role)).unwrap_or("-");
        out.push(format!(
            "g{} t{} x{} m{} e[{}]",
            granted,
            st.current_term(),
            st.is_timer_expired() as u8,
            my_role,
            if ev.is_empty() { "-".to_string() } else { ev.join(",") }
        ));
    }
    out.join(" | ")
}

// ------------------------------------------------------------------------------------------ join
async fn run_jn(f: &std::collections::HashMap<String, String>, ops: &str) -> String {
    let initial = parse_nodes(&f["nodes"]);
    let mut env = Env::new(1, initial, 1).await;
    env.append_terms(&nat_list(f.get("log").map(|s| s.as_str()).unwrap_or("-"))).await;
    let mut st = LeaderState::<T>::new(1, env.cfg.clone());
    st.update_current_term(f["t"].parse().unwrap());
    let peer_ids = env.ctx.membership().get_peers_id_with_condition(|_| true).await;
    st.init_peers_next_index_and_match_index(env.ctx.raft_log().last_entry_id(), peer_ids).unwrap();
    let mem = env.ctx.membership.clone();
    st.init_cluster_metadata(&mem).await.unwrap();
    let mut joins: Vec<(u32, d_engine_core::MaybeCloneOneshotReceiver<Result<JoinResponse, tonic::Status>>, String)> = vec![];
    let mut out = vec![];
    let mut steps: Vec<&str> = vec![""];
    steps.extend(ops.split(';').filter(|s| !s.is_empty()));
    for op in steps {
        let p: Vec<&str> = op.split(':').collect();
        let mut extra: Vec<String> = vec![];
        let tx = env.tx.clone();
        match p[0] {
            "" => {}
            "join" => {
                let (jtx, jrx) = <MaybeCloneOneshot as RaftOneshot<Result<JoinResponse, tonic::Status>>>::new();
                let id: u32 = p[1].parse().unwrap();
                let req = JoinRequest { node_id: id, node_role: role_of(p[2]), address: addr(id), status: status_of(p[3]) };
                if let Err(e) = st.handle_join_cluster(req, jtx, &env.ctx, &tx).await {
                    extra.push(format!("!{}", err_tag(&e)));
                }
                joins.push((id, jrx, "pending".into()));
            }
            "ok" => {
                let peer: u32 = p[1].parse().unwrap();
                let t: u64 = p[2].parse().unwrap();
                let resp = AppendEntriesResponse {
                    node_id: peer,
                    term: t,
                    result: Some(append_entries_response::Result::Success(SuccessResult {
                        last_match: Some(LogId { term: t, index: p[3].parse().unwrap() }),
                    })),
                };
                if let Err(e) = st.handle_append_result(peer, Ok(resp), &env.ctx, &tx).await {
                    extra.push(format!("!{}", err_tag(&e)));
                }
            }
            "fl" => st.handle_log_flushed(p[1].parse().unwrap(), &env.ctx, &tx).await,
            _ => extra.push("!bad-op".into()),
        }
        for j in joins.iter_mut() {
            if j.2 == "pending" {
                match j.1.try_recv() {
                    Ok(Ok(r)) => j.2 = if r.success { "ok".into() } else { "refused".into() },
                    Ok(Err(_)) => j.2 = "err".into(),
                    Err(_) => {}
                }
            }
        }
        let mut ev: Vec<String> = env.events().into_iter().filter(|e| e.starts_with('N') || e == "BF").collect();
        ev.extend(extra);
        out.push(format!(
            "c{} l{} j[{}] e[{}]",
            st.commit_index(),
            env.ctx.raft_log().last_entry_id(),
            if joins.is_empty() { "-".to_string() } else { joins.iter().map(|j| format!("{}:{}", j.0, j.2)).collect::<Vec<_>>().join(",") },
            if ev.is_empty() { "-".to_string() } else { ev.join(",") }
        ));
    }
    drop(st);
    out.join(" | ")
}

// ------------------------------------------------------------------------- promotion in flight
/// k=pq t=T log=<terms> nodes=..   ops: `P:IDS` (handle_promote_ready_learners with this queue), `ok:P:T:M`, `fl:D`,
/// `A` (apply the committed, not yet applied config entries of the leader's log + MembershipApplied)
/// record `c<commit> l<last> m[match] v[voter ids of the CACHED cluster metadata] tv<total_voters> sv<single_voter> e[..]`
async fn run_pq(f: &std::collections::HashMap<String, String>, ops: &str) -> String {
    let initial = parse_nodes(&f["nodes"]);
    let mut env = Env::new(1, initial, 1).await;
    env.append_terms(&nat_list(f.get("log").map(|s| s.as_str()).unwrap_or("-"))).await;
    let mut st = LeaderState::<T>::new(1, env.cfg.clone());
    st.update_current_term(f["t"].parse().unwrap());
    let peer_ids = env.ctx.membership().get_peers_id_with_condition(|_| true).await;
    st.init_peers_next_index_and_match_index(env.ctx.raft_log().last_entry_id(), peer_ids).unwrap();
    let mem = env.ctx.membership.clone();
    st.init_cluster_metadata(&mem).await.unwrap();
    let mut applied_upto: u64 = env.ctx.raft_log().last_entry_id(); // config entries exist only above the initial log
    let mut out = vec![];
    let mut steps: Vec<&str> = vec![""];
    steps.extend(ops.split(';').filter(|s| !s.is_empty()));
    for op in steps {
        let p: Vec<&str> = op.split(':').collect();
        let mut extra: Vec<String> = vec![];
        let tx = env.tx.clone();
        match p[0] {
            "" => {}
            "P" => {
                st.pending_promotions.clear();
                for id in ids(p[1]) {
                    st.pending_promotions.push_back(PendingPromotion::new(id, tokio::time::Instant::now()));
                }
                if let Err(e) = st.handle_promote_ready_learners(&env.ctx, &tx).await {
                    extra.push(format!("!{}", err_tag(&e)));
                }
                extra.push(format!("left:{}", show_ids(st.pending_promotions.iter().map(|x| x.node_id).collect())));
                st.pending_promotions.clear();
            }
            "ok" => {
                let peer: u32 = p[1].parse().unwrap();
                let t: u64 = p[2].parse().unwrap();
                let resp = AppendEntriesResponse {
                    node_id: peer,
                    term: t,
                    result: Some(append_entries_response::Result::Success(SuccessResult {
                        last_match: Some(LogId { term: t, index: p[3].parse().unwrap() }),
                    })),
                };
                if let Err(e) = st.handle_append_result(peer, Ok(resp), &env.ctx, &tx).await {
                    extra.push(format!("!{}", err_tag(&e)));
                }
            }
            "fl" => st.handle_log_flushed(p[1].parse().unwrap(), &env.ctx, &tx).await,
            "A" => {
                let commit = st.commit_index();
                if commit > applied_upto {
                    for e in env.ctx.raft_log().get_entries_range(applied_upto + 1..=commit).unwrap() {
                        if let Some(EntryPayload { payload: Some(Payload::Config(mc)) }) = e.payload {
                            match env.ctx.membership().apply_config_change(mc).await {
                                Ok(()) => {
                                    let _ = st.handle_membership_applied(&env.ctx, &tx).await;
                                }
                                Err(e) => extra.push(format!("!{}", err_tag(&e))),
                            }
                        }
                    }
                    applied_upto = commit;
                }
            }
            _ => extra.push("!bad-op".into()),
        }
        let mut ev: Vec<String> = env.events().into_iter().filter(|e| e.starts_with('N') || e == "BF").collect();
        // events first (as emitted), then the step's own notes; `left:` goes first to match the model
        let (left, rest): (Vec<String>, Vec<String>) = extra.into_iter().partition(|x| x.starts_with("left:"));
        let mut all = left;
        all.append(&mut ev);
        all.extend(rest);
        let cm = st.verif_cluster_metadata();
        let voters: Vec<u32> = cm.replication_targets.iter().filter(|n| n.role != NodeRole::Learner as i32).map(|n| n.id).collect();
        out.push(format!(
            "c{} l{} m[{}] v[{}] tv{} sv{} e[{}]",
            st.commit_index(),
            env.ctx.raft_log().last_entry_id(),
            show_map(&st.leader_state_snapshot().match_index),
            show_ids(voters),
            cm.total_voters,
            cm.single_voter as u8,
            if all.is_empty() { "-".to_string() } else { all.join(",") }
        ));
    }
    drop(st);
    out.join(" | ")
}

async fn run(case: &str) -> String {
    let (head, ops) = case.split_once('|').unwrap_or((case, ""));
    let f = fields(head);
    match f.get("k").map(|s| s.as_str()) {
        Some("view") => run_view(&f, ops).await,
        Some("cl") => run_cl(&f, ops).await,
        Some("rs") => run_rs(&f, ops).await,
        Some("lr") => run_lr(&f, ops).await,
        Some("jn") => run_jn(&f, ops).await,
        Some("pq") => run_pq(&f, ops).await,
        _ => "bad-kind".into(),
    }
}

fn exec(case: &str) -> String {
    let _gag = StdoutGag::new();
    rt().block_on(run(case))
}

// ------------------------------------------------------------------------------------ generator
fn gen_nodes(r: &mut Rng, nv: u64, nl: u64, odd_status: bool) -> (Vec<String>, Vec<u32>, Vec<u32>) {
    let mut v = vec![];
    let mut voters = vec![];
    let mut learners = vec![];
    let mut id = 1u32;
    for _ in 0..nv { v.push(format!("{}:f:a", id)); voters.push(id); id += 1; }
    for _ in 0..nl {
        let s = if odd_status { *r.pick(&["p", "r", "a", "u"]) } else { *r.pick(&["p", "p", "p", "r"]) };
        v.push(format!("{}:l:{}", id, s));
        learners.push(id);
        id += 1;
    }
    (v, voters, learners)
}

fn gen_change(r: &mut Rng, maxid: u32, malformed: bool) -> String {
    let id = 1 + r.below(maxid as u64 + if malformed { 2 } else { 0 }) as u32;
    let id2 = 1 + r.below(maxid as u64 + 1) as u32;
    match r.below(12) {
        0 | 1 | 2 => format!("add:{}:{}", 1 + r.below(maxid as u64 + 2), r.pick(&["p", "p", "r", "a", "u"])),
        3 => format!("rm:{}", id),
        4 | 5 => format!("pro:{}", id),
        6 | 7 | 8 => {
            if id == id2 { format!("bp:{}", id) } else { format!("bp:{},{}{}", id, id2, if malformed && r.chance(1, 3) { ":p" } else { "" }) }
        }
        9 | 10 => if r.chance(1, 2) { format!("br:{}", id) } else { format!("br:{},{}", id, id2) },
        _ => "nil".into(),
    }
}

fn gen_view(r: &mut Rng, malformed: bool) -> String {
    let (a, b) = (1 + r.below(4), r.below(3));
    let (nodes, _, _) = gen_nodes(r, a, b, malformed);
    let n = nodes.len() as u32;
    let self_id = 1 + r.below(n as u64) as u32;
    let mut ops = vec![];
    for _ in 0..(1 + r.below(7)) {
        if r.chance(1, 6) { ops.push(format!("rj:{}:{}", 1 + r.below(n as u64 + 2), r.pick(&["l", "l", "f"]))); }
        else { ops.push(gen_change(r, n + 1, malformed)); }
    }
    format!("k=view self={} nodes={}|{}", self_id, nodes.join(","), ops.join(";"))
}

fn gen_cl(r: &mut Rng) -> String {
    let nv = 1 + r.below(4);
    let nl = 1 + r.below(4);
    let (nodes, voters, learners) = gen_nodes(r, nv, nl, false);
    let lead = voters[r.below(voters.len() as u64) as usize];
    let all: Vec<u32> = voters.iter().chain(learners.iter()).cloned().collect();
    let mut ops = vec![];
    let mut nlog = 0u64;
    for _ in 0..(2 + r.below(8)) {
        match r.below(10) {
            0 | 1 | 2 => {
                let k = 1 + r.below(learners.len() as u64) as usize;
                let mut ls = learners.clone();
                // random subset of size k, kept in id order or shuffled
                while ls.len() > k { let i = r.below(ls.len() as u64) as usize; ls.remove(i); }
                ops.push(format!("P:{}", ls.iter().map(|x| x.to_string()).collect::<Vec<_>>().join(",")));
                nlog += 1;
            }
            3 => { ops.push(format!("J:{}:{}:{}", 1 + r.below(all.len() as u64 + 2), r.pick(&["p", "p", "r", "a"]), r.pick(&["l", "l", "l", "f"]))); nlog += 1; }
            4 => { ops.push(format!("S:{}", learners[r.below(learners.len() as u64) as usize])); nlog += 1; }
            _ => {
                let n = all[r.below(all.len() as u64) as usize];
                ops.push(format!("A:{}:{}", n, r.below(nlog + 2)));
            }
        }
    }
    format!("k=cl lead={} nodes={}|{}", lead, nodes.join(","), ops.join(";"))
}

fn gen_rs(r: &mut Rng) -> String {
    let (a, b) = (1 + r.below(3), r.below(3));
    let (nodes, _, _) = gen_nodes(r, a, b, false);
    let n = nodes.len() as u32;
    let self_id = 1 + r.below(n as u64) as u32;
    let mut ops = vec![];
    let mut len = 0u64;
    for _ in 0..(1 + r.below(7)) {
        match r.below(10) {
            0 | 1 | 2 | 3 => { ops.push(format!("c:{}", gen_change(r, n + 1, false))); len += 1; }
            4 => { ops.push("x".into()); len += 1; }
            5 | 6 | 7 => ops.push(format!("commit:{}", r.below(len + 2))),
            _ => ops.push("restart".into()),
        }
    }
    if r.chance(2, 3) { ops.push(format!("commit:{}", len)); ops.push("restart".into()); }
    format!("k=rs self={} nodes={}|{}", self_id, nodes.join(","), ops.join(";"))
}

fn gen_lr(r: &mut Rng) -> String {
    let nv = 1 + r.below(3);
    let nl = 1 + r.below(2);
    let (mut nodes, voters, learners) = gen_nodes(r, nv, nl, false);
    let self_id = learners[0];
    let _ = &mut nodes;
    let term = 1 + r.below(4);
    let loglen = r.below(4);
    let log: Vec<u64> = (0..loglen).map(|_| 1 + r.below(term)).collect();
    let mut ops = vec![];
    for _ in 0..(1 + r.below(6)) {
        match r.below(8) {
            0 | 1 | 2 | 3 => ops.push(format!(
                "vote:{}:{}:{}:{}",
                term.saturating_sub(1) + r.below(4),
                voters[r.below(voters.len() as u64) as usize],
                r.below(loglen + 3),
                r.below(term + 2)
            )),
            4 | 5 => ops.push("tick".into()),
            6 => ops.push(if r.chance(1, 2) { format!("pro:{}", self_id) } else { format!("bp:{}", learners.iter().map(|x| x.to_string()).collect::<Vec<_>>().join(",")) }),
            _ => ops.push(gen_change(r, (voters.len() + learners.len()) as u32 + 1, false)),
        }
    }
    let mut sorted = log.clone();
    sorted.sort();
    format!("k=lr self={} t={} log={} nodes={}|{}", self_id, term, dv::show_list(&sorted), nodes.join(","), ops.join(";"))
}

fn gen_jn(r: &mut Rng) -> String {
    let nv = 1 + r.below(3);
    let nl = r.below(2);
    let (nodes, voters, learners) = gen_nodes(r, nv, nl, false);
    let n = (voters.len() + learners.len()) as u32;
    let term = 1 + r.below(3);
    let loglen = r.below(3);
    let log: Vec<u64> = (0..loglen).map(|_| term).collect();
    let mut last = loglen;
    let mut ops = vec![];
    for _ in 0..(1 + r.below(7)) {
        match r.below(9) {
            0 | 1 | 2 => { ops.push(format!("join:{}:{}:{}", 1 + r.below(n as u64 + 3), r.pick(&["l", "l", "l", "f"]), r.pick(&["p", "p", "r", "a"]))); last += 1; }
            3 | 4 | 5 | 6 => {
                let peer = 2 + r.below(n as u64) as u32;
                ops.push(format!("ok:{}:{}:{}", peer, term, r.below(last + 2)));
            }
            _ => ops.push(format!("fl:{}", r.below(last + 1))),
        }
    }
    format!("k=jn t={} log={} nodes={}|{}", term, dv::show_list(&log), nodes.join(","), ops.join(";"))
}

fn gen_pq(r: &mut Rng) -> String {
    // leader 1 + old voters + learners; the batch promotion is in flight while acks arrive from either side
    let nv = *r.pick(&[1u64, 3, 3, 3, 2, 5]);
    let nl = 1 + r.below(3);
    let (nodes, voters, learners) = gen_nodes(r, nv, nl, false);
    let term = 1 + r.below(3);
    let loglen = r.below(3);
    let log: Vec<u64> = (0..loglen).map(|_| term).collect();
    let mut last = loglen;
    let mut ops = vec![];
    let mut promoted = false;
    let side = r.below(3); // 0: only learners ack, 1: only old voters ack, 2: mixed
    for _ in 0..(2 + r.below(8)) {
        match r.below(10) {
            0 | 1 if !promoted || r.chance(1, 4) => {
                let mut ls = learners.clone();
                let k = 1 + r.below(ls.len() as u64) as usize;
                while ls.len() > k { let i = r.below(ls.len() as u64) as usize; ls.remove(i); }
                ops.push(format!("P:{}", ls.iter().map(|x| x.to_string()).collect::<Vec<_>>().join(",")));
                last += 1;
                promoted = true;
            }
            2 | 3 | 4 | 5 | 6 => {
                let pool: Vec<u32> = match side {
                    0 => learners.clone(),
                    1 => voters.iter().filter(|x| **x != 1).cloned().collect(),
                    _ => voters.iter().filter(|x| **x != 1).chain(learners.iter()).cloned().collect(),
                };
                if pool.is_empty() { ops.push(format!("fl:{}", last)); } else {
                    let peer = pool[r.below(pool.len() as u64) as usize];
                    let m = if r.chance(2, 3) { last } else { r.below(last + 1) };
                    ops.push(format!("ok:{}:{}:{}", peer, term, m));
                }
            }
            7 => ops.push(format!("fl:{}", r.below(last + 1))),
            _ => ops.push("A".into()),
        }
        if !promoted && ops.len() >= 2 {
            ops.push(format!("P:{}", learners.iter().map(|x| x.to_string()).collect::<Vec<_>>().join(",")));
            last += 1;
            promoted = true;
        }
    }
    format!("k=pq t={} log={} nodes={}|{}", term, dv::show_list(&log), nodes.join(","), ops.join(";"))
}

fn generate(r: &mut Rng, n: usize, tier: &str) -> Vec<String> {
    let mut out = vec![];
    // restart and join cases touch the file system / spawn tasks: keep their share small in quick tier
    let _ = tier;
    for i in 0..n {
        let c = match i % 12 {
            0 | 1 => gen_rs(r),
            2 => gen_jn(r),
            3 | 4 | 5 => gen_cl(r),
            6 => gen_pq(r),
            7 | 8 => gen_lr(r),
            9 => gen_view(r, true),
            _ => gen_view(r, false),
        };
        out.push(c);
    }
    out
}

fn main() { family_main(generate, exec); }
