//! Family `elect` (C01, C02, C03, C31): the real election code of d-engine driven in-process.
//!
//! Real code under test: `ElectionHandler` (`handle_vote_request`, `check_vote_request_is_legal`,
//! `broadcast_vote_requests`), the real role states (`FollowerState`, `CandidateState`, `LeaderState`,
//! `LearnerState`: `tick`, `handle_inbound_event`), `Raft::handle_internal_event`, `Drop for Raft`
//! (hard-state save), `FollowerState::new` from the real `FileStorageEngine` meta store, the real
//! `RaftMembership` (hooks `verif_new`, re-export), the real `GrpcTransport::send_vote_requests` (kind `svr`),
//! the real `watch::Receiver<Option<LeaderInfo>>`.
//! Mocked: raft log (only `last_log_id` + delegation of save/load_hard_state to the real meta store),
//! replication handler, state machine, transport of the node traces (scripted vote responses).
//! The `run()` select-loop is emulated: one inbound event / tick, then the internal events it enqueued, in order;
//! `ReprocessEvent` is re-delivered to the (new) role directly.
//!
//! Case kinds (one line each):
//!   hvr my=.. cur=.. vf=ID:TERM:C|- lli=.. llt=.. rt=.. rc=.. rli=.. rlt=..
//!   tal my=.. term=.. lli=.. llt=.. init=K add=A rm=R pids=M|x rs=g,d5.3.2,e|-
//!   svr my=.. voters=N
//!   cl SPEC/SPEC|op;op      SPEC = id,f|l,TERM|-,VF|-,lli,llt,ID:ROLE:STATUS+..
//! This binary does not use `dv::family_main`: the real `become_*` functions `println!`, which would be
//! interleaved with a buffered protocol stream; results are collected and printed after all cases ran.
use std::collections::HashSet;
use std::io::BufRead;
use std::sync::atomic::{AtomicU64, Ordering};
use std::sync::{Arc, Mutex, OnceLock};
use std::time::Duration;

use d_engine_core::role_state::RaftRoleState;
use d_engine_core::{
    ElectionCore, ElectionHandler, Error, HardState, InboundEvent, InternalEvent, LeaderInfo, MaybeCloneOneshot, NewCommitData,
    MaybeCloneOneshotReceiver,
    Membership, MetaStore, MockCommitHandler, MockPurgeExecutor, MockRaftLog, MockReplicationCore, MockSnapshotPolicy,
    MockStateMachine, MockStateMachineHandler, MockTransport, NetworkError, PrepareResult, Raft, RaftCoreHandlers,
    RaftNodeConfig, RaftOneshot, RaftRole, RaftStorageHandles, SignalParams, StorageEngine, Transport, TypeConfig,
    VoteResult,
};
use d_engine_core::follower_state::FollowerState;
use d_engine_core::learner_state::LearnerState;
use d_engine_core::AppendResponseWithUpdates;
use d_engine_proto::common::membership_change::Change;
use d_engine_proto::common::{
    AddNode, BatchPromote, BatchRemove, LogId, MembershipChange, NodeRole, NodeStatus, PromoteLearner, RemoveNode,
};
use d_engine_proto::server::cluster::NodeMeta;
use d_engine_proto::server::election::{VoteRequest, VoteResponse, VotedFor};
use d_engine_proto::server::replication::{AppendEntriesRequest, AppendEntriesResponse};
use d_engine_server::node::RaftTypeConfig;
use d_engine_server::{FileStateMachine, FileStorageEngine, RaftMembership};
use dv::{fields, rng::Rng};
use tokio::sync::{mpsc, watch};

// ------------------------------------------------------------------------------------------ type configs
#[derive(Debug)]
struct ET;
impl TypeConfig for ET {
    type SE = FileStorageEngine;
    type SM = MockStateMachine;
    type R = MockRaftLog;
    type M = RaftMembership<ET>;
    type TR = MockTransport<ET>;
    type E = ElectionHandler<ET>;
    type REP = MockReplicationCore<ET>;
    type C = MockCommitHandler;
    type SMH = MockStateMachineHandler<ET>;
    type SNP = MockSnapshotPolicy;
    type PE = MockPurgeExecutor;
}
/// production configuration (kind `svr`: real GrpcTransport + real RaftMembership)
type PT = RaftTypeConfig<FileStorageEngine, FileStateMachine>;

fn rt_paused() -> &'static tokio::runtime::Runtime {
    static RT: OnceLock<tokio::runtime::Runtime> = OnceLock::new();
    RT.get_or_init(|| tokio::runtime::Builder::new_current_thread().enable_all().start_paused(true).build().unwrap())
}
fn rt_real() -> &'static tokio::runtime::Runtime {
    static RT: OnceLock<tokio::runtime::Runtime> = OnceLock::new();
    RT.get_or_init(|| tokio::runtime::Builder::new_current_thread().enable_all().build().unwrap())
}
fn tmp() -> tempfile::TempDir {
    std::fs::create_dir_all("/verif/target/tmp").unwrap();
    tempfile::tempdir_in("/verif/target/tmp").unwrap()
}
fn base_config() -> RaftNodeConfig {
    static CFG: OnceLock<RaftNodeConfig> = OnceLock::new();
    CFG.get_or_init(|| {
        let mut c = RaftNodeConfig::new().expect("config");
        c.cluster.db_root_dir = std::path::PathBuf::from("/verif/target/tmp/elect-db");
        c.raft.snapshot.snapshots_dir = std::path::PathBuf::from("/verif/target/tmp/elect-snapshots");
        c
    })
    .clone()
}

// ------------------------------------------------------------------------------------------ small parsers
fn parse_vf(s: &str) -> Option<VotedFor> {
    if s == "-" {
        return None;
    }
    let p: Vec<&str> = s.split(':').collect();
    Some(VotedFor { voted_for_id: p[0].parse().unwrap(), voted_for_term: p[1].parse().unwrap(), committed: p[2] == "1" })
}
fn show_vf(v: &Option<VotedFor>) -> String {
    match v {
        None => "-".into(),
        Some(v) => format!("{}:{}:{}", v.voted_for_id, v.voted_for_term, if v.committed { 1 } else { 0 }),
    }
}
#[derive(Clone, Debug)]
enum RespSpec {
    Grant,
    Deny(u64, u64, u64),
    RpcErr,
    Real(usize),
}
fn parse_resps(s: &str) -> (bool, Vec<RespSpec>) {
    // (transport_error, responses)
    if s == "X" {
        return (true, vec![]);
    }
    if s.is_empty() || s == "-" {
        return (false, vec![]);
    }
    let v = s
        .split(|c| c == '+' || c == ',')
        .map(|x| {
            if x == "g" {
                RespSpec::Grant
            } else if x == "e" {
                RespSpec::RpcErr
            } else if let Some(r) = x.strip_prefix('r') {
                RespSpec::Real(r.parse().unwrap())
            } else if let Some(d) = x.strip_prefix('d') {
                let p: Vec<u64> = d.split('.').map(|y| y.parse().unwrap()).collect();
                RespSpec::Deny(p[0], p[1], p[2])
            } else {
                panic!("resp spec")
            }
        })
        .collect();
    (false, v)
}
fn role_of(c: &str) -> i32 {
    match c {
        "f" => NodeRole::Follower as i32,
        "c" => NodeRole::Candidate as i32,
        "L" => NodeRole::Leader as i32,
        "l" => NodeRole::Learner as i32,
        _ => panic!("role"),
    }
}
fn status_of(c: &str) -> i32 {
    match c {
        "a" => NodeStatus::Active as i32,
        "p" => NodeStatus::Promotable as i32,
        "r" => NodeStatus::ReadOnly as i32,
        "u" => NodeStatus::Unspecified as i32,
        _ => panic!("status"),
    }
}
fn addr(id: u32) -> String {
    // closed ports on loopback: connection refused at once
    format!("http://127.0.0.1:{}", 1 + (id % 5))
}
fn parse_members(s: &str) -> Vec<NodeMeta> {
    if s.is_empty() || s == "-" {
        return vec![];
    }
    s.split('+')
        .map(|x| {
            let p: Vec<&str> = x.split(':').collect();
            let id: u32 = p[0].parse().unwrap();
            NodeMeta { id, address: addr(id), role: role_of(p[1]), status: status_of(p[2]) }
        })
        .collect()
}
fn ids_of(s: &str) -> Vec<u32> {
    if s.is_empty() || s == "-" { vec![] } else { s.split('+').map(|x| x.parse().unwrap()).collect() }
}
/// `add.ID.S` `rm.ID` `pro.ID` `bp.ID+ID.S` `br.ID+ID`
fn parse_change(op: &str) -> MembershipChange {
    let p: Vec<&str> = op.split('.').collect();
    let ch = match p[0] {
        "add" => Change::AddNode(AddNode {
            node_id: p[1].parse().unwrap(),
            address: addr(p[1].parse().unwrap()),
            status: status_of(p[2]),
        }),
        "rm" => Change::RemoveNode(RemoveNode { node_id: p[1].parse().unwrap() }),
        "pro" => Change::Promote(PromoteLearner { node_id: p[1].parse().unwrap(), status: NodeStatus::Active as i32 }),
        "bp" => Change::BatchPromote(BatchPromote { node_ids: ids_of(p[1]), new_status: status_of(p[2]) }),
        "br" => Change::BatchRemove(BatchRemove { node_ids: ids_of(p[1]) }),
        _ => panic!("change"),
    };
    MembershipChange { change: Some(ch) }
}

fn err_tag(e: &Error) -> String {
    let s = format!("{:?}", e);
    if s.contains("NoVotingMemberFound") {
        "err no-voters".into()
    } else if let Some(i) = s.find("HigherTerm(") {
        let t: String = s[i + 11..].chars().take_while(|c| c.is_ascii_digit()).collect();
        format!("err higher-term {}", t)
    } else if s.contains("LogConflict") {
        "err log-conflict".into()
    } else if let Some(i) = s.find("QuorumFailure") {
        let rest = &s[i..];
        let num = |key: &str| -> String {
            let j = rest.find(key).unwrap() + key.len();
            rest[j..].trim_start_matches(|c: char| c == ':' || c == ' ').chars().take_while(|c| c.is_ascii_digit()).collect()
        };
        format!("err quorum {} {}", num("required"), num("succeed"))
    } else if s.contains("scripted-transport-error") {
        "err transport".into()
    } else {
        format!("err other")
    }
}

// ------------------------------------------------------------------------------------------ kind hvr
fn mock_log_with_last(last: Arc<Mutex<(u64, u64)>>) -> MockRaftLog {
    let mut log = MockRaftLog::new();
    let l = last.clone();
    log.expect_last_log_id().returning(move || {
        let (i, t) = *l.lock().unwrap();
        if i == 0 && t == 0 { None } else { Some(LogId { index: i, term: t }) }
    });
    log
}

fn exec_hvr(case: &str) -> String {
    let f = fields(case);
    let g = |k: &str| -> u64 { f.get(k).and_then(|s| s.parse().ok()).expect("field") };
    let h = ElectionHandler::<ET>::new(g("my") as u32);
    let log = Arc::new(mock_log_with_last(Arc::new(Mutex::new((g("lli"), g("llt"))))));
    let vf = parse_vf(f.get("vf").unwrap());
    let req = VoteRequest { term: g("rt"), candidate_id: g("rc") as u32, last_log_index: g("rli"), last_log_term: g("rlt") };
    let su = rt_paused().block_on(h.handle_vote_request(req, g("cur"), vf, &log)).expect("handle_vote_request");
    let legal = h.check_vote_request_is_legal(&req, g("cur"), g("lli"), g("llt"), vf);
    format!(
        "tu={} nv={} legal={}",
        su.term_update.map(|t| t.to_string()).unwrap_or("-".into()),
        show_vf(&su.new_voted_for),
        if legal { 1 } else { 0 }
    )
}

// ------------------------------------------------------------------------------------------ scripted transport
#[derive(Default)]
struct Script {
    result: Option<Result<VoteResult, Error>>,
    sent: u64,
    last_req: Option<VoteRequest>,
}
fn scripted_transport(script: Arc<Mutex<Script>>) -> MockTransport<ET> {
    let mut t = MockTransport::<ET>::new();
    t.expect_send_vote_requests().returning(move |req, _retry, _m| {
        let mut s = script.lock().unwrap();
        s.sent += 1;
        s.last_req = Some(req);
        s.result.take().unwrap_or_else(|| Err(NetworkError::SingalSendFailed("scripted-transport-error".into()).into()))
    });
    t
}
fn to_vote_result(peer_ids: Vec<u32>, rs: Vec<Result<VoteResponse, Error>>) -> VoteResult {
    VoteResult { peer_ids: peer_ids.into_iter().collect::<HashSet<u32>>(), responses: rs }
}
fn rpc_err() -> Error {
    NetworkError::SingalSendFailed("scripted-rpc-error".into()).into()
}

// ------------------------------------------------------------------------------------------ kind tal
fn exec_tal(case: &str) -> String {
    let f = fields(case);
    let g = |k: &str| -> u64 { f.get(k).and_then(|s| s.parse().ok()).expect("field") };
    let my = g("my") as u32;
    let (k, a, r) = (g("init") as u32, g("add") as u32, g("rm") as u32);
    let mut initial = vec![NodeMeta { id: my, address: addr(my), role: NodeRole::Follower as i32, status: NodeStatus::Active as i32 }];
    for i in 1..k {
        initial.push(NodeMeta { id: my + i, address: addr(my + i), role: NodeRole::Follower as i32, status: NodeStatus::Active as i32 });
    }
    rt_paused().block_on(async {
        let m = Arc::new(RaftMembership::<ET>::verif_new(my, initial, base_config()));
        if r > 0 {
            let ids: Vec<u32> = (1..=r).map(|i| my + i).collect();
            m.apply_config_change(MembershipChange { change: Some(Change::BatchRemove(BatchRemove { node_ids: ids })) }).await.unwrap();
        }
        let mut added = vec![];
        for i in 0..a {
            let id = my + 1000 + i;
            m.apply_config_change(MembershipChange {
                change: Some(Change::AddNode(AddNode { node_id: id, address: addr(id), status: NodeStatus::Promotable as i32 })),
            })
            .await
            .unwrap();
            added.push(id);
        }
        if !added.is_empty() {
            m.apply_config_change(MembershipChange {
                change: Some(Change::BatchPromote(BatchPromote { node_ids: added, new_status: NodeStatus::Active as i32 })),
            })
            .await
            .unwrap();
        }
        // further membership history (same syntax as the `cc` op), applied in order; errors are ignored like a
        // failed apply_config_change is
        if let Some(ch) = f.get("ch") {
            if ch != "-" && !ch.is_empty() {
                for c in ch.split('/') {
                    let _ = m.apply_config_change(parse_change(c)).await;
                }
            }
        }
        let voters = m.voters().await.len();
        let script = Arc::new(Mutex::new(Script::default()));
        let pids = f.get("pids").unwrap();
        if pids != "x" {
            let n: u32 = pids.parse().unwrap();
            let (_, specs) = parse_resps(f.get("rs").unwrap());
            let rs = specs
                .iter()
                .map(|s| match s {
                    RespSpec::Grant => Ok(VoteResponse { term: g("term"), vote_granted: true, last_log_index: 0, last_log_term: 0 }),
                    RespSpec::Deny(t, i, l) => Ok(VoteResponse { term: *t, vote_granted: false, last_log_index: *i, last_log_term: *l }),
                    _ => Err(rpc_err()),
                })
                .collect();
            script.lock().unwrap().result = Some(Ok(to_vote_result((0..n).map(|i| 5000 + i).collect(), rs)));
        }
        let transport = Arc::new(scripted_transport(script.clone()));
        let log = Arc::new(mock_log_with_last(Arc::new(Mutex::new((g("lli"), g("llt"))))));
        let h = ElectionHandler::<ET>::new(my);
        let res = h.broadcast_vote_requests(g("term"), m.clone(), &log, &transport, &Arc::new(base_config())).await;
        let out = match res {
            Ok(()) => "ok".to_string(),
            Err(e) => err_tag(&e),
        };
        format!("{} sent={} voters={}", out, script.lock().unwrap().sent, voters)
    })
}

// ------------------------------------------------------------------------------------------ kind svr
fn exec_svr(case: &str) -> String {
    let f = fields(case);
    let g = |k: &str| -> u64 { f.get(k).and_then(|s| s.parse().ok()).expect("field") };
    let my = g("my") as u32;
    let n = g("voters") as u32;
    let mut initial = vec![NodeMeta { id: my, address: addr(my), role: NodeRole::Follower as i32, status: NodeStatus::Active as i32 }];
    for i in 1..=n {
        initial.push(NodeMeta { id: my + i, address: addr(my + i), role: NodeRole::Follower as i32, status: NodeStatus::Active as i32 });
    }
    rt_real().block_on(async {
        let mut cfg = base_config();
        cfg.retry.election.max_retries = 1;
        cfg.retry.election.timeout_ms = 50;
        cfg.retry.election.base_delay_ms = 1;
        cfg.retry.election.max_delay_ms = 2;
        cfg.network.control.connect_timeout_in_ms = 50;
        let m = Arc::new(<PT as TypeConfig>::M::verif_new(my, initial, cfg.clone()));
        let tr = <PT as TypeConfig>::TR::verif_new(my);
        let req = VoteRequest { term: 2, candidate_id: my, last_log_index: 0, last_log_term: 0 };
        match tr.send_vote_requests(req, &cfg.retry, m).await {
            Ok(vr) => {
                let oks = vr.responses.iter().filter(|r| r.is_ok()).count();
                format!("pids={} resp={} ok={}", vr.peer_ids.len(), vr.responses.len(), oks)
            }
            Err(e) => {
                let s = format!("{:?}", e);
                if s.contains("EmptyPeerList") { "err empty-peer-list".into() } else { "err other".into() }
            }
        }
    })
}

// ------------------------------------------------------------------------------------------ kind cl
/// Observes the order "persist, then reply": armed while one vote request / AppendEntries is handled; every
/// `save_hard_state` call of the node asks whether the reply of that request has already been handed over.
#[derive(Default)]
struct Probe {
    vote_rx: Option<MaybeCloneOneshotReceiver<std::result::Result<VoteResponse, tonic::Status>>>,
    vote_got: Option<VoteResponse>,
    ae_rx: Option<MaybeCloneOneshotReceiver<std::result::Result<AppendEntriesResponse, tonic::Status>>>,
    ae_got: Option<AppendEntriesResponse>,
    before: u32,
    after: u32,
}
impl Probe {
    fn poll(&mut self) {
        if self.vote_got.is_none() {
            if let Some(rx) = &mut self.vote_rx {
                if let Ok(Ok(r)) = rx.try_recv() {
                    self.vote_got = Some(r);
                }
            }
        }
        if self.ae_got.is_none() {
            if let Some(rx) = &mut self.ae_rx {
                if let Ok(Ok(r)) = rx.try_recv() {
                    self.ae_got = Some(r);
                }
            }
        }
    }
    fn on_save(&mut self) {
        if self.vote_rx.is_none() && self.ae_rx.is_none() {
            return;
        }
        self.poll();
        if self.vote_got.is_some() || self.ae_got.is_some() { self.after += 1 } else { self.before += 1 }
    }
    fn tag(&self) -> &'static str {
        if self.after > 0 { "pa" } else if self.before > 0 { "pb" } else { "pn" }
    }
}

struct NodeEnv {
    probe: Arc<Mutex<Probe>>,
    id: u32,
    learner: bool,
    initial: Vec<NodeMeta>,
    dir: tempfile::TempDir,
    last: Arc<Mutex<(u64, u64)>>,
    raft: Option<Raft<ET>>,
    steps: Vec<String>,
    watch_rx: Option<watch::Receiver<Option<LeaderInfo>>>,
    last_seen: Option<LeaderInfo>,
    pubs: Vec<String>,
    script: Arc<Mutex<Script>>,
    membership: Option<Arc<RaftMembership<ET>>>,
    noop_term: Option<u64>,
    _keep: Vec<Box<dyn std::any::Any>>,
}

fn mock_sm() -> MockStateMachine {
    let mut m = MockStateMachine::new();
    m.expect_start().returning(|| Ok(()));
    m.expect_stop().returning(|| Ok(()));
    m.expect_is_running().returning(|| true);
    m.expect_get().returning(|_| Ok(None));
    m.expect_entry_term().returning(|_| None);
    m.expect_apply_chunk().returning(|_| Ok(vec![]));
    m.expect_len().returning(|| 0);
    m.expect_update_last_applied().returning(|_| ());
    m.expect_last_applied().return_const(LogId::default());
    m.expect_persist_last_applied().returning(|_| Ok(()));
    m.expect_snapshot_metadata().returning(|| None);
    m.expect_save_hard_state().returning(|| Ok(()));
    m.expect_flush().returning(|| Ok(()));
    m
}
fn mock_smh() -> MockStateMachineHandler<ET> {
    let mut h = MockStateMachineHandler::<ET>::new();
    h.expect_update_pending().returning(|_| {});
    h.expect_read_from_state_machine().returning(|_| None);
    h.expect_should_snapshot().returning(|_| false);
    h.expect_get_latest_snapshot_metadata().returning(|| None);
    h
}

impl NodeEnv {
    fn boot(&mut self) {
        let engine = FileStorageEngine::new(self.dir.path().to_path_buf()).expect("engine");
        let meta = engine.meta_store();
        let cfg = Arc::new(base_config());
        // mock log: last_log_id from the cell; hard state delegated to the REAL meta store
        let log_index = Arc::new(AtomicU64::new(self.last.lock().unwrap().0));
        let mut log = mock_log_with_last(self.last.clone());
        let (m1, m2) = (meta.clone(), meta.clone());
        log.expect_load_hard_state().returning(move || m1.load_hard_state().map_err(Into::into));
        let pr = self.probe.clone();
        log.expect_save_hard_state().returning(move |hs| {
            pr.lock().unwrap().on_save();
            m2.save_hard_state(hs).map_err(Into::into)
        });
        let (l1, l2, l3) = (log_index.clone(), log_index.clone(), log_index.clone());
        log.expect_last_entry_id().returning(move || l1.load(Ordering::Relaxed));
        // never durable beyond the pre-noop index: the noop commit is driven explicitly (`nc`)
        let pre = log_index.load(Ordering::Relaxed);
        log.expect_durable_index().returning(move || pre.min(l2.load(Ordering::Relaxed)));
        log.expect_flush().returning(|| Ok(()));
        log.expect_calculate_majority_matched_index().returning(|_, _, _| None);
        log.expect_close().returning(|| ());
        log.expect_entry_term().returning(|_| None);
        log.expect_first_entry_id().returning(|| 1);
        let mut rep = MockReplicationCore::<ET>::new();
        rep.expect_prepare_batch_requests().returning(move |payloads, _, _, _, _| {
            l3.fetch_add(payloads.len() as u64, Ordering::Relaxed);
            Ok(PrepareResult::default())
        });
        let my_id = self.id;
        rep.expect_handle_append_entries().returning(move |req, _, _| {
            Ok(AppendResponseWithUpdates { response: AppendEntriesResponse::success(my_id, req.term, None), commit_index_update: None })
        });
        rep.expect_check_append_entries_request_is_legal()
            .returning(move |my_term, _req, _| AppendEntriesResponse::higher_term(my_id, my_term));
        let mut pe = MockPurgeExecutor::new();
        pe.expect_execute_purge().returning(|_| Ok(()));

        let membership = Arc::new(RaftMembership::<ET>::verif_new(self.id, self.initial.clone(), base_config()));
        let role = if self.learner {
            RaftRole::Learner(Box::new(LearnerState::new_with_hard_state(
                self.id,
                cfg.clone(),
                d_engine_core::RaftLog::load_hard_state(&log).expect("load hard state"),
            )))
        } else {
            RaftRole::Follower(Box::new(FollowerState::new(
                self.id,
                cfg.clone(),
                d_engine_core::RaftLog::load_hard_state(&log).expect("load hard state"),
                Some(0),
            )))
        };
        let (itx, irx) = mpsc::unbounded_channel();
        let (etx, erx) = mpsc::channel(64);
        let (ctx_, crx) = mpsc::channel(64);
        let (sd_tx, sd_rx) = watch::channel(());
        let mut raft = Raft::<ET>::new(
            self.id,
            role,
            RaftStorageHandles::<ET> { raft_log: Arc::new(log), state_machine: Arc::new(mock_sm()) },
            scripted_transport(self.script.clone()),
            RaftCoreHandlers::<ET> {
                election_handler: ElectionHandler::new(self.id),
                replication_handler: rep,
                state_machine_handler: Arc::new(mock_smh()),
                purge_executor: Arc::new(pe),
            },
            membership.clone(),
            SignalParams::new(itx, irx, etx, erx, ctx_, crx, sd_rx),
            cfg,
        );
        let (wtx, wrx) = watch::channel(None);
        raft.register_leader_change_listener(wtx);
        self._keep.push(Box::new(sd_tx));
        self._keep.push(Box::new(engine));
        self.raft = Some(raft);
        self.watch_rx = Some(wrx);
        self.last_seen = None;
        self.membership = Some(membership);
        self.noop_term = None;
    }

    fn up(&self) -> bool { self.raft.is_some() }

    fn sample_watch(&mut self) {
        if let Some(rx) = &self.watch_rx {
            let cur = rx.borrow().clone();
            if cur != self.last_seen {
                self.pubs.push(match &cur {
                    None => "N".into(),
                    Some(li) => format!("{}.{}", li.leader_id, li.term),
                });
                self.last_seen = cur;
            }
        }
    }

    fn role_i32(&self) -> i32 { self.raft.as_ref().unwrap().role.as_i32() }

    fn state(&self) -> (String, u64, Option<VotedFor>) {
        let raft = self.raft.as_ref().unwrap();
        let (c, ss) = match &raft.role {
            RaftRole::Follower(s) => ("f", &s.shared_state),
            RaftRole::Candidate(s) => ("c", &s.shared_state),
            RaftRole::Leader(s) => ("L", &s.shared_state),
            RaftRole::Learner(s) => ("l", &s.shared_state),
        };
        (c.to_string(), ss.hard_state.current_term, ss.hard_state.voted_for)
    }

    async fn deliver(&mut self, ev: InboundEvent) {
        let raft = self.raft.as_mut().unwrap();
        let tx = raft.internal_event_sender();
        let ctx = &raft.ctx;
        let _ = match &mut raft.role {
            RaftRole::Follower(s) => s.handle_inbound_event(ev, ctx, tx).await,
            RaftRole::Candidate(s) => s.handle_inbound_event(ev, ctx, tx).await,
            RaftRole::Leader(s) => s.handle_inbound_event(ev, ctx, tx).await,
            RaftRole::Learner(s) => s.handle_inbound_event(ev, ctx, tx).await,
        };
    }

    /// process the internal events enqueued so far, in order (emulates `process_internal_events` +
    /// `process_inbound_events` for the replayed event)
    /// The P2 arm of `Raft::run` and the `process_*` calls that follow it, through the REAL internal channel, the
    /// real `drain_internal_events`, the real `handle_internal_event` (incl. its own draining of the channel) and the
    /// real `process_inbound_events` (hooks verif_internal_fill / verif_internal_step / verif_process_inbound); the
    /// leader-change watch is sampled after every internal event. Repeats until nothing is pending.
    async fn pump(&mut self) {
        for _ in 0..16 {
            let n = self.raft.as_mut().unwrap().verif_internal_fill().await.unwrap_or(0);
            if n == 0 {
                break;
            }
            for _ in 0..256 {
                let r = self.raft.as_mut().unwrap().verif_internal_step().await;
                if r.is_none() {
                    break;
                }
                let before = self.pubs.len();
                self.sample_watch();
                let (role, term, _) = self.state();
                let p = if self.pubs.len() > before { self.pubs[self.pubs.len() - 1].clone() } else { "-".to_string() };
                self.steps.push(format!("{}{}={}", role, term, p));
                if self.role_i32() == NodeRole::Leader as i32 {
                    if self.noop_term.is_none() {
                        self.noop_term = Some(term);
                    }
                } else {
                    self.noop_term = None;
                }
            }
            let _ = self.raft.as_mut().unwrap().verif_process_inbound(vec![]).await;
        }
    }

    /// like `pump`, but the first pass only processes what is already buffered (no receive/drain before it)
    async fn pump_buffered_then_all(&mut self) {
        for _ in 0..256 {
            let r = self.raft.as_mut().unwrap().verif_internal_step().await;
            if r.is_none() {
                break;
            }
            let before = self.pubs.len();
            self.sample_watch();
            let (role, term, _) = self.state();
            let p = if self.pubs.len() > before { self.pubs[self.pubs.len() - 1].clone() } else { "-".to_string() };
            self.steps.push(format!("{}{}={}", role, term, p));
            if self.role_i32() == NodeRole::Leader as i32 {
                if self.noop_term.is_none() {
                    self.noop_term = Some(term);
                }
            } else {
                self.noop_term = None;
            }
        }
        let _ = self.raft.as_mut().unwrap().verif_process_inbound(vec![]).await;
        self.pump().await;
    }

    fn send_internal(&mut self, ev: InternalEvent) {
        let _ = self.raft.as_ref().unwrap().internal_event_sender().send(ev);
    }

    async fn tick(&mut self) {
        tokio::time::advance(Duration::from_secs(3600)).await;
        let raft = self.raft.as_mut().unwrap();
        let tx = raft.internal_event_sender();
        let etx = raft.event_sender();
        let ctx = &raft.ctx;
        let _ = match &mut raft.role {
            RaftRole::Follower(s) => s.tick(&tx, &etx, ctx).await,
            RaftRole::Candidate(s) => s.tick(&tx, &etx, ctx).await,
            _ => Ok(()),
        };
    }

    /// (reply, persist order tag: pb = every save happened before the reply was handed over, pa = a save after it,
    /// pn = nothing was saved)
    async fn vote_request(&mut self, req: VoteRequest) -> Option<(VoteResponse, &'static str)> {
        let (tx, rx) = MaybeCloneOneshot::new();
        *self.probe.lock().unwrap() = Probe { vote_rx: Some(rx), ..Default::default() };
        self.deliver(InboundEvent::ReceiveVoteRequest(req, tx)).await;
        self.pump().await;
        let mut p = self.probe.lock().unwrap();
        p.poll();
        let tag = p.tag();
        let got = p.vote_got.take();
        *p = Probe::default();
        got.map(|r| (r, tag))
    }

    async fn append_entries(&mut self, term: u64, leader: u32) -> String {
        let (tx, rx) = MaybeCloneOneshot::new();
        *self.probe.lock().unwrap() = Probe { ae_rx: Some(rx), ..Default::default() };
        let req = AppendEntriesRequest { term, leader_id: leader, prev_log_index: 0, prev_log_term: 0, entries: vec![], leader_commit_index: 0 };
        self.deliver(InboundEvent::AppendEntries(req, vec![tx])).await;
        self.pump().await;
        let mut p = self.probe.lock().unwrap();
        p.poll();
        let tag = p.tag();
        let got = p.ae_got.take();
        *p = Probe::default();
        match got {
            Some(r) => {
                if r.is_higher_term() { format!("ht{}.{}", r.term, tag) } else { format!("ok.{}", tag) }
            }
            None => "noresp".into(),
        }
    }

    fn tail(&mut self) -> String {
        let (r, t, vf) = self.state();
        let p = if self.pubs.is_empty() { "-".to_string() } else { self.pubs.join("+") };
        self.pubs.clear();
        format!("{}{}/{}/{}", r, t, show_vf(&vf), p)
    }
}

fn exec_cl(case: &str) -> String {
    let body = case.strip_prefix("cl ").expect("cl");
    let (head, ops) = body.rsplit_once('|').expect("ops");
    rt_paused().block_on(async {
        let mut nodes: Vec<NodeEnv> = vec![];
        for spec in head.split('/') {
            let p: Vec<&str> = spec.split(',').collect();
            let id: u32 = p[0].parse().unwrap();
            let dir = tmp();
            if p[2] != "-" {
                // initial persisted hard state, written through the real meta store
                let engine = FileStorageEngine::new(dir.path().to_path_buf()).expect("engine");
                engine
                    .meta_store()
                    .save_hard_state(&HardState { current_term: p[2].parse().unwrap(), voted_for: parse_vf(p[3]) })
                    .expect("save");
            }
            let mut n = NodeEnv {
                probe: Arc::new(Mutex::new(Probe::default())),
                id,
                learner: p[1] == "l",
                initial: parse_members(p[6]),
                dir,
                last: Arc::new(Mutex::new((p[4].parse().unwrap(), p[5].parse().unwrap()))),
                raft: None,
                steps: vec![],
                watch_rx: None,
                last_seen: None,
                pubs: vec![],
                script: Arc::new(Mutex::new(Script::default())),
                membership: None,
                noop_term: None,
                _keep: vec![],
            };
            n.boot();
            nodes.push(n);
        }
        let mut outs: Vec<String> = vec![];
        for op in ops.split(';').filter(|o| !o.is_empty()) {
            let p: Vec<&str> = op.split(',').collect();
            let i: usize = match p[0] {
                "hb" => p[2].parse().unwrap(),
                _ => p[1].parse().unwrap(),
            };
            if i >= nodes.len() {
                outs.push("nonode".into());
                continue;
            }
            let is_life = matches!(p[0], "restart");
            if !nodes[i].up() && !is_life {
                outs.push("down".into());
                continue;
            }
            let res: String = match p[0] {
                "vr" => {
                    let req = VoteRequest {
                        term: p[2].parse().unwrap(),
                        candidate_id: p[3].parse().unwrap(),
                        last_log_index: p[4].parse().unwrap(),
                        last_log_term: p[5].parse().unwrap(),
                    };
                    match nodes[i].vote_request(req).await {
                        Some((r, tag)) => format!("g{}.t{}.{}", if r.vote_granted { 1 } else { 0 }, r.term, tag),
                        None => "noresp".into(),
                    }
                }
                "ae" => nodes[i].append_entries(p[2].parse().unwrap(), p[3].parse().unwrap()).await,
                "hb" => {
                    let l: usize = p[1].parse().unwrap();
                    if l >= nodes.len() || l == i || !nodes[l].up() || nodes[l].role_i32() != NodeRole::Leader as i32 {
                        "nl".into()
                    } else {
                        let (_, t, _) = nodes[l].state();
                        let lid = nodes[l].id;
                        nodes[i].append_entries(t, lid).await
                    }
                }
                "to" => {
                    let role = nodes[i].role_i32();
                    if role == NodeRole::Follower as i32 {
                        nodes[i].tick().await;
                        nodes[i].pump().await;
                        "cand".into()
                    } else if role == NodeRole::Candidate as i32 {
                        // the request the candidate is going to send (term + 1, own last log id)
                        let (_, t, _) = nodes[i].state();
                        let (lli, llt) = *nodes[i].last.lock().unwrap();
                        let cid = nodes[i].id;
                        let req = VoteRequest { term: t + 1, candidate_id: cid, last_log_index: lli, last_log_term: llt };
                        let (xerr, specs) = parse_resps(p.get(2).copied().unwrap_or("-"));
                        let voters: Vec<u32> = {
                            let mut v: Vec<u32> = nodes[i].membership.as_ref().unwrap().voters().await.iter().map(|n| n.id).collect();
                            v.sort();
                            v
                        };
                        let single = nodes[i].membership.as_ref().unwrap().is_single_node_cluster().await;
                        let mut extra = String::new();
                        let mut rs: Vec<Result<VoteResponse, Error>> = vec![];
                        let mut done: Vec<usize> = vec![];
                        // real deliveries happen only if the request is really going to be sent
                        let will_send = !single && !voters.is_empty();
                        for s in &specs {
                            match s {
                                RespSpec::Grant => rs.push(Ok(VoteResponse { term: t + 1, vote_granted: true, last_log_index: 0, last_log_term: 0 })),
                                RespSpec::Deny(a, b, c) => rs.push(Ok(VoteResponse { term: *a, vote_granted: false, last_log_index: *b, last_log_term: *c })),
                                RespSpec::RpcErr => rs.push(Err(rpc_err())),
                                RespSpec::Real(j) => {
                                    // one request task per voter: a second reply of the same node does not exist
                                    if will_send && !xerr && *j < nodes.len() && *j != i && nodes[*j].up() && voters.contains(&nodes[*j].id) && !done.contains(j) {
                                        done.push(*j);
                                        match nodes[*j].vote_request(req).await {
                                            Some((r, tag)) => {
                                                let tl = nodes[*j].tail();
                                                extra.push_str(&format!(".r{}=g{}t{}{}({})", j, if r.vote_granted { 1 } else { 0 }, r.term, tag, tl));
                                                rs.push(Ok(r));
                                            }
                                            None => rs.push(Err(rpc_err())),
                                        }
                                    } else {
                                        extra.push_str(&format!(".r{}=x", j));
                                        rs.push(Err(rpc_err()));
                                    }
                                }
                            }
                        }
                        {
                            let mut s = nodes[i].script.lock().unwrap();
                            s.sent = 0;
                            s.last_req = None;
                            s.result = if xerr { None } else { Some(Ok(to_vote_result(voters.clone(), rs))) };
                        }
                        nodes[i].tick().await;
                        let (sent, sent_req) = {
                            let s = nodes[i].script.lock().unwrap();
                            (s.sent, s.last_req)
                        };
                        if let Some(r) = sent_req {
                            if r != req {
                                extra.push_str(".REQ-MISMATCH");
                            }
                        }
                        // outcome as seen in the events: BecomeLeader / BecomeFollower / nothing
                        nodes[i].pump().await;
                        let (r2, t2, _) = nodes[i].state();
                        let outcome = if r2 == "L" { "ok" } else if r2 == "f" { "ht" } else { "lost" };
                        let _ = t2;
                        format!("el.{}.e{}.s{}.v{}{}", outcome, t + 1, sent, voters.len(), extra)
                    } else {
                        "skip".into()
                    }
                }
                "sd" => {
                    nodes[i].send_internal(InternalEvent::BecomeFollower(None));
                    nodes[i].pump().await;
                    "ok".into()
                }
                "ht" => {
                    let t: u64 = p[2].parse().unwrap();
                    nodes[i].send_internal(InternalEvent::AppendResult { follower_id: 9999, result: Ok(AppendEntriesResponse::higher_term(9999, t)) });
                    nodes[i].pump().await;
                    "ok".into()
                }
                "nc" => match (nodes[i].role_i32() == NodeRole::Leader as i32, nodes[i].noop_term) {
                    (true, Some(t)) => {
                        nodes[i].send_internal(InternalEvent::NoopCommitted { term: t });
                        nodes[i].pump().await;
                        "ok".into()
                    }
                    _ => "noop".into(),
                },
                // internal event queue: `iq,i,A[~B]`: the events A are in the channel when the loop wakes up (they are
                // received + drained into the buffer), the events B reach the channel while the buffer is being
                // processed (as the events enqueued by earlier handlers of the same pass do); result = role, term and
                // published value after every handled internal event
                "iq" => {
                    let spec = p.get(2).copied().unwrap_or("-");
                    let (a, b) = match spec.split_once('~') {
                        Some((a, b)) => (a, b),
                        None => (spec, "-"),
                    };
                    let role_now = nodes[i].role_i32();
                    let (_, term_now, _) = nodes[i].state();
                    let noop_now = if role_now == NodeRole::Leader as i32 { nodes[i].noop_term } else { None };
                    let mk = |x: &str| -> Option<InternalEvent> {
                        let q: Vec<&str> = x.split('.').collect();
                        Some(match q[0] {
                            "nci" => InternalEvent::NotifyNewCommitIndex(NewCommitData {
                                new_commit_index: q[1].parse().ok()?,
                                role: role_now,
                                current_term: term_now,
                            }),
                            // `nc.@` = the NoopCommitted the leader itself emits: the term captured at BecomeLeader
                            "nc" => InternalEvent::NoopCommitted { term: if q[1] == "@" { noop_now? } else { q[1].parse().ok()? } },
                            "bf" => InternalEvent::BecomeFollower(if q[1] == "-" { None } else { Some(q[1].parse().ok()?) }),
                            "bc" => InternalEvent::BecomeCandidate,
                            "ld" => InternalEvent::LeaderDiscovered(q[1].parse().ok()?, q[2].parse().ok()?),
                            "ht" => {
                                let t: u64 = q[1].parse().ok()?;
                                InternalEvent::AppendResult { follower_id: 9999, result: Ok(AppendEntriesResponse::higher_term(9999, t)) }
                            }
                            _ => return None,
                        })
                    };
                    let evs = |s: &str| -> Vec<InternalEvent> {
                        if s == "-" || s.is_empty() { vec![] } else { s.split('+').filter_map(|x| mk(x)).collect() }
                    };
                    nodes[i].steps.clear();
                    for ev in evs(a) {
                        nodes[i].send_internal(ev);
                    }
                    let _ = nodes[i].raft.as_mut().unwrap().verif_internal_fill().await;
                    for ev in evs(b) {
                        nodes[i].send_internal(ev);
                    }
                    // the buffered events are processed first (verif_internal_fill finds the buffer non-empty and the
                    // channel is only drained into it by the handlers themselves or by the next fill)
                    nodes[i].pump_buffered_then_all().await;
                    let st = nodes[i].steps.join("_");
                    format!("iq.{}", if st.is_empty() { "-".to_string() } else { st })
                }
                "lg" => {
                    *nodes[i].last.lock().unwrap() = (p[2].parse().unwrap(), p[3].parse().unwrap());
                    "ok".into()
                }
                "cc" => {
                    let ch = parse_change(p[2]);
                    match nodes[i].membership.as_ref().unwrap().apply_config_change(ch).await {
                        Ok(()) => "ok".into(),
                        Err(_) => "err".into(),
                    }
                }
                "stop" => {
                    let raft = nodes[i].raft.take().unwrap();
                    drop(raft); // graceful: Drop for Raft saves the hard state
                    nodes[i].watch_rx = None;
                    "ok".into()
                }
                "crash" => {
                    let raft = nodes[i].raft.take().unwrap();
                    std::mem::forget(raft); // crash: no Drop, nothing saved
                    nodes[i].watch_rx = None;
                    "ok".into()
                }
                "restart" => {
                    if nodes[i].up() {
                        "noop".into()
                    } else {
                        nodes[i].boot();
                        "ok".into()
                    }
                }
                _ => "badop".into(),
            };
            if nodes[i].up() {
                let tl = nodes[i].tail();
                outs.push(format!("{}/{}", res, tl));
            } else {
                outs.push(format!("{}/down", res));
            }
        }
        outs.join(";")
    })
}

// ------------------------------------------------------------------------------------------ generator
fn gen_vf(r: &mut Rng, cur: u64, ids: &[u64]) -> String {
    match r.below(6) {
        0 | 1 => "-".into(),
        _ => {
            let t = match r.below(4) {
                0 => cur.saturating_sub(1),
                1 | 2 => cur,
                _ => cur + 1,
            };
            format!("{}:{}:{}", r.pick(ids), t, r.below(2))
        }
    }
}
fn around(r: &mut Rng, x: u64) -> u64 {
    match r.below(8) {
        0 => x.saturating_sub(2),
        1 | 2 => x.saturating_sub(1),
        3 | 4 | 5 => x,
        6 => x.saturating_add(1),
        _ => x.saturating_add(2),
    }
}
fn gen_hvr(r: &mut Rng, malformed: bool) -> String {
    let big = [0u64, 1, u64::MAX - 1, u64::MAX, 1 << 32, 1 << 63];
    let cur = if malformed { *r.pick(&big) } else { r.range(1, 6) };
    let lli = if malformed && r.chance(1, 2) { *r.pick(&big) } else { r.below(5) };
    let llt = if malformed && r.chance(1, 2) { *r.pick(&big) } else { r.below(cur.min(5) + 1) };
    let rt = if malformed { *r.pick(&[cur.saturating_sub(1), cur, cur.saturating_add(1), 0, u64::MAX]) } else { around(r, cur) };
    let rc = *r.pick(&[0u64, 1, 2, 3]);
    let vf = gen_vf(r, cur.min(u64::MAX - 1), &[0, 1, 2, 3]);
    let rli = if malformed && r.chance(1, 3) { *r.pick(&big) } else { around(r, lli) };
    let rlt = if malformed && r.chance(1, 3) { *r.pick(&big) } else { around(r, llt) };
    format!("hvr my={} cur={} vf={} lli={} llt={} rt={} rc={} rli={} rlt={}", r.range(1, 3), cur, vf, lli, llt, rt, rc, rli, rlt)
}
fn gen_resp(r: &mut Rng, term: u64, lli: u64, llt: u64) -> String {
    match r.below(10) {
        0..=4 => "g".into(),
        5 => "e".into(),
        6 => format!("d{}.{}.{}", term + 1 + r.below(2), r.below(4), r.below(3)),
        7 => format!("d{}.{}.{}", term, around(r, lli), around(r, llt)),
        _ => format!("d{}.{}.{}", around(r, term), r.below(lli + 1), r.below(llt + 1)),
    }
}
/// one membership change over a small id pool that contains the node itself
fn gen_change(r: &mut Rng, pool: &[u64]) -> String {
    let id = *r.pick(pool);
    let id2 = *r.pick(pool);
    match r.below(10) {
        0 | 1 => format!("add.{}.{}", id, r.pick(&["p", "p", "a", "r"])),
        2 | 3 => format!("rm.{}", id),
        4 => format!("pro.{}", id),
        5 | 6 => format!("bp.{}+{}.{}", id, id2, r.pick(&["a", "a", "p"])),
        7 | 8 => format!("br.{}+{}", id, id2),
        _ => format!("br.{}", id),
    }
}

fn gen_tal(r: &mut Rng) -> String {
    let term = r.range(1, 6);
    let lli = r.below(4);
    let llt = r.below(term.min(3) + 1);
    let init = r.range(1, 5);
    let rm = r.below(init);
    let add = if r.chance(1, 2) { 0 } else { r.below(4) };
    let voters = init - 1 - rm + add;
    let pids = match r.below(10) {
        0 => "x".to_string(),
        1 => r.below(6).to_string(),
        _ => voters.to_string(),
    };
    let n = match r.below(6) {
        0 => r.below(7),
        _ => voters,
    };
    let rs: Vec<String> = (0..n).map(|_| gen_resp(r, term, lli, llt)).collect();
    let my = r.range(1, 3);
    // half of the cases continue with an arbitrary history: removals of peers AND of the node itself, re-adds, promotions
    let ch = if r.chance(1, 2) {
        let pool = [my, my, my + 1, my + 2, my + 1000, my + 1001, 7777];
        let k = r.range(1, 5);
        (0..k).map(|_| gen_change(r, &pool)).collect::<Vec<_>>().join("/")
    } else {
        "-".to_string()
    };
    format!(
        "tal my={} term={} lli={} llt={} init={} add={} rm={} ch={} pids={} rs={}",
        my,
        term,
        lli,
        llt,
        init,
        add,
        rm,
        ch,
        pids,
        if rs.is_empty() { "-".to_string() } else { rs.join(",") }
    )
}

fn members_str(ids: &[u64]) -> String { ids.iter().map(|i| format!("{}:f:a", i)).collect::<Vec<_>>().join("+") }

/// single real node (id 1) among phantom peers 2,3: vote requests / AE from phantoms, timers, stop/crash/restart
fn gen_single(r: &mut Rng) -> String {
    let peers: &[u64] = match r.below(4) {
        0 => &[1],
        1 => &[1, 2, 3, 4, 5],
        _ => &[1, 2, 3],
    };
    let boot_term = if r.chance(1, 3) { "-".to_string() } else { r.range(1, 4).to_string() };
    let vf = if boot_term == "-" { "-".to_string() } else { gen_vf(r, boot_term.parse().unwrap(), &[1, 2, 3]) };
    let lli = r.below(4);
    let llt = if lli == 0 { 0 } else { r.range(1, 2) };
    let learner = r.chance(1, 25);
    let head = format!("1,{},{},{},{},{},{}", if learner { "l" } else { "f" }, boot_term, vf, lli, llt, members_str(peers));
    let mut t: u64 = if boot_term == "-" { 1 } else { boot_term.parse().unwrap() };
    let mut ops = vec![];
    let mut up = true;
    let n = r.range(3, 16);
    for _ in 0..n {
        if !up && r.chance(4, 5) {
            ops.push("restart,0".to_string());
            up = true;
            continue;
        }
        let k = r.below(100);
        let op = if k < 28 {
            let b0 = r.below(2);
            let rt = around(r, t + b0);
            t = t.max(rt);
            format!("vr,0,{},{},{},{}", rt, r.range(2, 3), around(r, lli), around(r, llt))
        } else if k < 40 {
            let b0 = r.below(2);
            let at = around(r, t + b0);
            t = t.max(at);
            format!("ae,0,{},{}", at, r.range(2, 3))
        } else if k < 70 {
            // timers: often enough granted replies to win
            let m = if r.chance(1, 2) { peers.len() as u64 - 1 } else { r.below(peers.len() as u64 + 1) };
            let win = r.chance(1, 2);
            let rs: Vec<String> = (0..m).map(|_| if win { "g".to_string() } else { gen_resp(r, t + 1, lli, llt) }).collect();
            t += 1;
            format!("to,0,{}", if r.chance(1, 20) { "X".to_string() } else if rs.is_empty() { "-".to_string() } else { rs.join("+") })
        } else if k < 73 {
            // internal event queue: commit notifications mixed with noop-commit, step-down, higher-term replies
            let plausible = r.chance(7, 10);
            let mut stepped_down = false;
            let mut gen_ev = |r: &mut Rng, t: &mut u64| -> String {
                if plausible {
                    // only what the node itself can enqueue, in an order it can enqueue it
                    return match r.below(8) {
                        0 | 1 | 2 => format!("nci.{}", r.below(5)),
                        3 | 4 => if stepped_down { format!("nci.{}", r.below(5)) } else { "nc.@".to_string() },
                        5 => {
                            stepped_down = true;
                            "bf.-".to_string()
                        }
                        6 => {
                            let h = *t + r.below(3);
                            *t = (*t).max(h);
                            format!("ht.{}", h)
                        }
                        _ => "bc".to_string(),
                    };
                }
                match r.below(10) {
                    0 | 1 | 2 => format!("nci.{}", r.below(5)),
                    3 | 4 => format!("nc.{}", around(r, *t)),
                    5 => "bf.-".to_string(),
                    6 => format!("bf.{}", r.range(2, 3)),
                    7 => {
                        let h = *t + r.below(3);
                        *t = (*t).max(h);
                        format!("ht.{}", h)
                    }
                    8 => format!("ld.{}.{}", r.range(2, 3), around(r, *t)),
                    _ => "bc".to_string(),
                }
            };
            let na = r.range(1, 3);
            let nb = r.below(4);
            let a: Vec<String> = (0..na).map(|_| gen_ev(r, &mut t)).collect();
            let b: Vec<String> = (0..nb).map(|_| gen_ev(r, &mut t)).collect();
            format!("iq,0,{}{}", a.join("+"), if b.is_empty() { String::new() } else { format!("~{}", b.join("+")) })
        } else if k < 76 {
            "sd,0".into()
        } else if k < 80 {
            let h = t + r.below(3);
            t = t.max(h);
            format!("ht,0,{}", h)
        } else if k < 86 {
            "nc,0".into()
        } else if k < 91 {
            up = false;
            "stop,0".into()
        } else if k < 96 {
            up = false;
            "crash,0".into()
        } else if k < 97 {
            "restart,0".into()
        } else if r.chance(1, 2) {
            format!("lg,0,{},{}", r.below(5), r.below(3))
        } else {
            format!("cc,0,{}", gen_change(r, &[1, 1, 2, 3, 4, 9]))
        };
        ops.push(op);
    }
    format!("cl {}|{}", head, ops.join(";"))
}

/// n real nodes; elections with real deliveries, heartbeats, step-downs, crash/restart
fn gen_cluster(r: &mut Rng, crashy: bool) -> String {
    let n = if r.chance(1, 5) { 5 } else { 3 };
    let ids: Vec<u64> = (1..=n).collect();
    let ms = members_str(&ids);
    let expanded = r.chance(1, 8); // node 0 started alone and was expanded later
    let heads: Vec<String> = ids
        .iter()
        .map(|i| {
            let m = if expanded && *i == 1 { "1:f:a".to_string() } else { ms.clone() };
            format!("{},f,-,-,0,0,{}", i, m)
        })
        .collect();
    let mut ops: Vec<String> = vec![];
    if expanded {
        for i in 2..=n {
            ops.push(format!("cc,0,add.{}.p", i));
        }
        ops.push(format!("cc,0,bp.{}.a", (2..=n).map(|x| x.to_string()).collect::<Vec<_>>().join("+")));
    }
    let mut up = vec![true; n as usize];
    let steps = r.range(5, 18);
    for _ in 0..steps {
        let i = r.below(n);
        if !up[i as usize] {
            if r.chance(3, 4) {
                ops.push(format!("restart,{}", i));
                up[i as usize] = true;
            }
            continue;
        }
        let k = r.below(100);
        let op = if k < 50 {
            // a full election round: follower -> candidate, then the tick with real deliveries to a random subset
            let mut rs = vec![];
            for j in 0..n {
                if j != i && r.chance(2, 3) {
                    rs.push(format!("r{}", j));
                }
            }
            let spec = if rs.is_empty() { "-".to_string() } else { rs.join("+") };
            if r.chance(2, 3) {
                ops.push(format!("to,{},-", i));
            }
            format!("to,{},{}", i, spec)
        } else if k < 64 {
            format!("hb,{},{}", r.below(n), i)
        } else if k < 72 {
            format!("sd,{}", i)
        } else if k < 77 {
            format!("nc,{}", i)
        } else if k < 83 {
            format!("vr,{},{},{},0,0", i, r.range(1, 4), r.range(1, n))
        } else if k < 90 {
            up[i as usize] = false;
            format!("stop,{}", i)
        } else if k < 97 {
            if crashy {
                up[i as usize] = false;
                format!("crash,{}", i)
            } else {
                format!("hb,{},{}", r.below(n), i)
            }
        } else {
            format!("restart,{}", i)
        };
        ops.push(op);
    }
    format!("cl {}|{}", heads.join("/"), ops.join(";"))
}

fn generate(r: &mut Rng, n: usize, tier: &str) -> Vec<String> {
    let mut out = vec![];
    // a few deterministic svr cases (real sockets: keep them few)
    for v in [0u64, 1, 2, 4] {
        out.push(format!("svr my=1 voters={}", v));
    }
    for i in 0..n {
        let c = match i % 10 {
            0 | 1 => gen_hvr(r, false),
            2 => gen_hvr(r, true),
            3 | 4 => gen_tal(r),
            5 | 6 | 7 => gen_single(r),
            8 => gen_cluster(r, false),
            _ => gen_cluster(r, true),
        };
        out.push(c);
    }
    if tier == "thorough" {
        // small-scope exhaustive: handle_vote_request over terms 1..3, votes, log relations
        for cur in 1..=3u64 {
            for rt in 0..=4u64 {
                for vf in ["-", "2:1:0", "2:2:0", "3:2:1", "2:3:0", "0:2:0"] {
                    for (rli, rlt) in [(0u64, 0u64), (2, 1), (1, 2), (2, 2)] {
                        out.push(format!("hvr my=1 cur={} vf={} lli=2 llt=1 rt={} rc=2 rli={} rlt={}", cur, vf, rt, rli, rlt));
                    }
                }
            }
        }
    }
    out
}

fn exec(case: &str) -> String {
    if case.starts_with("hvr ") {
        exec_hvr(case)
    } else if case.starts_with("tal ") {
        exec_tal(case)
    } else if case.starts_with("svr ") {
        exec_svr(case)
    } else if case.starts_with("cl ") {
        exec_cl(case)
    } else {
        "bad-case".into()
    }
}

fn main() {
    let args: Vec<String> = std::env::args().collect();
    let mode = args.get(1).map(|s| s.as_str()).unwrap_or("");
    let cases: Vec<String> = match mode {
        "gen" => {
            let seed: u64 = args.get(2).and_then(|s| s.parse().ok()).unwrap_or(0);
            let n: usize = args.get(3).and_then(|s| s.parse().ok()).unwrap_or(100);
            let tier = args.get(4).map(|s| s.as_str()).unwrap_or("quick");
            let mut r = Rng::new(seed);
            generate(&mut r, n, tier)
        }
        "run" => std::io::stdin().lock().lines().map(|l| l.unwrap()).filter(|l| !l.is_empty()).collect(),
        _ => {
            eprintln!("usage: {} gen <seed> <n> <tier> | run", args[0]);
            std::process::exit(2);
        }
    };
    std::panic::set_hook(Box::new(|_| {}));
    let mut results = Vec::with_capacity(cases.len());
    for c in &cases {
        let o = match std::panic::catch_unwind(std::panic::AssertUnwindSafe(|| exec(c))) {
            Ok(o) => o,
            Err(_) => "panic".to_string(),
        };
        results.push(o);
    }
    // the real code prints role transitions to stdout while running; protocol lines come after, each on its
    // own line and the only ones that contain a tab
    use std::io::Write;
    let out = std::io::stdout();
    let mut w = std::io::BufWriter::new(out.lock());
    writeln!(w).unwrap();
    for (c, o) in cases.iter().zip(results.iter()) {
        writeln!(w, "{}\t{}", c, o).unwrap();
    }
}
