//! Family `snap` (C16): real `DefaultStateMachineHandler::create_snapshot` on a leader-side engine, real
//! transfer path `load_snapshot_data` → `apply_snapshot_stream_from_leader` (process_snapshot_stream,
//! decompress, engine `apply_snapshot_from_file`) into a follower-side engine, then real
//! `handler.apply_chunk` of the entries after the snapshot's label on the follower — File and RocksDB.
//!
//! case   : `eng=<file|rocks> ret=<retained_log_entries> pb=<n>|<term>/<cmd>;…;snap;…`
//!          cmd: put,k,v,ttl|-  del,k  cas,k,exp|-,new  noop ; `snap` = leader creates the snapshot here;
//!          pb = number of entries the follower had applied before the install.
//!          optional `adv=<secs>`: after the replay the logical clock advances and both nodes run
//!          `lease_background_cleanup` before their contents are compared (TTL state is part of the state).
//! output : `label=<i>.<t> inst=<kv> ila=<i>.<t> il=<lease b after install> sl=<lease in snapshot> b=<kv> bla=<i>.<t> a=<kv> ala=<i>.<t>` (or `nosnap a=… ala=…`)
use bytes::Bytes;
use d_engine_core::{
    BufferedRaftLog, DefaultCommitHandler, DefaultStateMachineHandler, MockElectionCore, MockMembership,
    MockPurgeExecutor, MockReplicationCore, MockSnapshotPolicy, MockStorageEngine, MockTransport, SnapshotConfig,
    StateMachine, StateMachineHandler, TypeConfig,
};
use d_engine_proto::client::WriteCommand;
use d_engine_proto::common::{Entry, EntryPayload};
use d_engine_server::storage::{verif_clock, TtlLease};
use d_engine_server::{FileStateMachine, RocksDBStateMachine};
use dv::{family_main, fields, rng::Rng};
use futures::StreamExt;
use prost::Message;
use std::marker::PhantomData;
use std::path::Path;
use std::sync::atomic::AtomicUsize;
use std::sync::Arc;

const TMP: &str = "/verif/target/tmp";
const T0: u64 = 1000;

#[derive(Debug)]
struct Tc<S>(PhantomData<S>);
impl<S: StateMachine + std::fmt::Debug> TypeConfig for Tc<S> {
    type R = BufferedRaftLog<Self>;
    type SE = MockStorageEngine;
    type E = MockElectionCore<Self>;
    type TR = MockTransport<Self>;
    type SM = S;
    type M = MockMembership<Self>;
    type REP = MockReplicationCore<Self>;
    type C = DefaultCommitHandler<Self>;
    type SMH = DefaultStateMachineHandler<Self>;
    type SNP = MockSnapshotPolicy;
    type PE = MockPurgeExecutor;
}

fn key(n: u64) -> Bytes { Bytes::from(format!("k{}", n)) }
fn val(n: u64) -> Bytes { Bytes::from(format!("v{}", n)) }
fn unkey(b: &[u8]) -> u64 { std::str::from_utf8(&b[1..]).unwrap().parse().unwrap() }
fn opt(s: &str) -> Option<u64> { if s == "-" { None } else { Some(s.parse().unwrap()) } }

/// (term, payload, keys mentioned)
fn parse_entry(s: &str, keys: &mut Vec<u64>) -> (u64, EntryPayload) {
    let (t, c) = s.split_once('/').expect("entry");
    let a: Vec<&str> = c.split(',').collect();
    let wc = match a[0] {
        "put" => {
            keys.push(a[1].parse().unwrap());
            match opt(a[3]) {
                None => WriteCommand::insert(key(a[1].parse().unwrap()), val(a[2].parse().unwrap())),
                Some(t) => WriteCommand::insert_with_ttl(key(a[1].parse().unwrap()), val(a[2].parse().unwrap()), t),
            }
        }
        "del" => { keys.push(a[1].parse().unwrap()); WriteCommand::delete(key(a[1].parse().unwrap())) }
        "cas" => {
            keys.push(a[1].parse().unwrap());
            WriteCommand::compare_and_swap(key(a[1].parse().unwrap()), opt(a[2]).map(val), val(a[3].parse().unwrap()))
        }
        "noop" => return (t.parse().unwrap(), EntryPayload::noop()),
        _ => panic!("bad cmd {}", s),
    };
    (t.parse().unwrap(), EntryPayload::command(Bytes::from(wc.encode_to_vec())))
}

fn snap_config(dir: &Path, ret: u64) -> SnapshotConfig {
    let mut sc = SnapshotConfig::default();
    sc.snapshots_dir = dir.to_path_buf();
    sc.retained_log_entries = ret;
    sc.chunk_size = 256; // several chunks even for tiny snapshots
    sc.receive_chunk_timeout_in_sec = 5;
    sc
}

fn handler<S: StateMachine + std::fmt::Debug>(sm: Arc<S>, dir: &Path, ret: u64) -> DefaultStateMachineHandler<Tc<S>> {
    std::fs::create_dir_all(dir).unwrap();
    DefaultStateMachineHandler::<Tc<S>>::new(
        1,
        sm.last_applied().index,
        sm,
        snap_config(dir, ret),
        MockSnapshotPolicy::new(),
        None,
        Arc::new(AtomicUsize::new(0)),
    )
}

unsafe extern "C" {
    fn dup(fd: i32) -> i32;
    fn dup2(a: i32, b: i32) -> i32;
    fn close(fd: i32) -> i32;
}

/// `create_snapshot` prints progress lines with `println!`; keep them out of the protocol stream.
struct QuietStdout(i32);
impl QuietStdout {
    fn new() -> Self {
        use std::io::Write;
        use std::os::fd::AsRawFd;
        // push out whatever partial line the process-wide stdout LineWriter holds, otherwise it would be
        // flushed together with the progress line into /dev/null
        std::io::stdout().flush().unwrap();
        let null = std::fs::OpenOptions::new().write(true).open("/dev/null").unwrap();
        unsafe {
            let saved = dup(1);
            dup2(null.as_raw_fd(), 1);
            QuietStdout(saved)
        }
    }
}
impl Drop for QuietStdout {
    fn drop(&mut self) {
        unsafe {
            dup2(self.0, 1);
            close(self.0);
        }
    }
}

fn show_kv(sm: &dyn StateMachine, keys: &[u64]) -> String {
    let v: Vec<String> = keys
        .iter()
        .filter_map(|k| sm.get(&key(*k)).expect("get").map(|b| format!("{}={}", k, unkey(&b))))
        .collect();
    if v.is_empty() { "-".into() } else { v.join(",") }
}
fn show_lease(l: &TtlLease, keys: &[u64]) -> String {
    let v: Vec<String> = keys
        .iter()
        .filter_map(|k| l.get_expiration(&key(*k)).map(|t| format!("{}@{}", k, t.duration_since(std::time::UNIX_EPOCH).unwrap().as_secs())))
        .collect();
    if v.is_empty() { "-".into() } else { v.join(",") }
}
fn show_id(sm: &dyn StateMachine) -> String { let l = sm.last_applied(); format!("{}.{}", l.index, l.term) }

async fn run_case<S, F>(open: F, ret: u64, pb: usize, adv: u64, items: Vec<&str>, root: &Path) -> String
where
    S: StateMachine + std::fmt::Debug,
    F: Fn(&Path, Arc<TtlLease>) -> std::pin::Pin<Box<dyn std::future::Future<Output = S>>>,
{
    verif_clock::set_ms(T0 * 1000);
    let a_lease = lease();
    let b_lease = lease();
    let mut keys = vec![];
    let mut log: Vec<Entry> = vec![];
    let mut snap_at: Option<usize> = None;
    for it in &items {
        if *it == "snap" {
            if snap_at.is_none() { snap_at = Some(log.len()); }
        } else {
            let (term, payload) = parse_entry(it, &mut keys);
            log.push(Entry { index: log.len() as u64 + 1, term, payload: Some(payload) });
        }
    }
    keys.sort();
    keys.dedup();
    // leader side
    let a_sm = Arc::new(open(&root.join("a"), a_lease.clone()).await);
    a_sm.start().await.expect("start a");
    let a_h = handler(a_sm.clone(), &root.join("a_snap"), ret);
    let n = snap_at.unwrap_or(log.len());
    for e in &log[..n] { a_h.apply_chunk(vec![e.clone()]).await.expect("apply a"); }
    let Some(n) = snap_at else {
        verif_clock::set_ms((T0 + adv) * 1000);
        a_sm.lease_background_cleanup().await.expect("cleanup a");
        let out = format!("nosnap a={} ala={}", show_kv(&*a_sm, &keys), show_id(&*a_sm));
        a_sm.close_storage();
        verif_clock::clear();
        return out;
    };
    let (meta, _path) = {
        let _q = QuietStdout::new();
        a_h.create_snapshot().await.expect("create_snapshot")
    };
    let label = meta.last_included.expect("label");
    let sl = show_lease(&a_lease, &keys);
    // follower side: had applied pb entries, receives the snapshot through the real chunk stream
    let b_sm = Arc::new(open(&root.join("b"), b_lease.clone()).await);
    b_sm.start().await.expect("start b");
    let b_h = handler(b_sm.clone(), &root.join("b_snap"), ret);
    for e in &log[..pb.min(n)] { b_h.apply_chunk(vec![e.clone()]).await.expect("apply b pre"); }
    let mut stream = a_h.load_snapshot_data(meta.clone()).await.expect("load_snapshot_data");
    let (tx, rx) = tokio::sync::mpsc::channel(1024);
    let (ack_tx, mut ack_rx) = tokio::sync::mpsc::channel(1024);
    while let Some(c) = stream.next().await { tx.send(c.expect("chunk")).await.unwrap(); }
    drop(tx);
    let cfg = snap_config(&root.join("b_snap"), ret);
    b_h.apply_snapshot_stream_from_leader(label.term, rx, ack_tx, &cfg).await.expect("install");
    while ack_rx.try_recv().is_ok() {}
    let inst = show_kv(&*b_sm, &keys);
    let ila = show_id(&*b_sm);
    let il = show_lease(&b_lease, &keys);
    // leader keeps applying; follower replays (label, end]
    for e in &log[n..] { a_h.apply_chunk(vec![e.clone()]).await.expect("apply a"); }
    // (the follower re-applies from its own last_applied + 1, which the install set to the label)
    let start = b_sm.last_applied().index;
    for e in log.iter().filter(|e| e.index > start) {
        b_h.apply_chunk(vec![e.clone()]).await.expect("apply b");
    }
    // later: the clock passes the TTLs and both nodes run their lease cleanup
    verif_clock::set_ms((T0 + adv) * 1000);
    a_sm.lease_background_cleanup().await.expect("cleanup a");
    b_sm.lease_background_cleanup().await.expect("cleanup b");
    verif_clock::clear();
    let out = format!(
        "label={}.{} inst={} ila={} il={} sl={} b={} bla={} a={} ala={}",
        label.index, label.term, inst, ila, il, sl, show_kv(&*b_sm, &keys), show_id(&*b_sm), show_kv(&*a_sm, &keys), show_id(&*a_sm)
    );
    a_sm.close_storage();
    b_sm.close_storage();
    out
}

fn lease() -> Arc<TtlLease> { Arc::new(TtlLease::new(d_engine_core::config::LeaseConfig::default())) }

async fn exec_async(case: &str) -> String {
    let (hd, body) = case.split_once('|').expect("case");
    let f = fields(hd);
    let ret: u64 = f.get("ret").expect("ret").parse().unwrap();
    let pb: usize = f.get("pb").expect("pb").parse().unwrap();
    let adv: u64 = f.get("adv").map(|s| s.parse().unwrap()).unwrap_or(0);
    let items: Vec<&str> = if body.is_empty() { vec![] } else { body.split(';').collect() };
    std::fs::create_dir_all(TMP).unwrap();
    let root = tempfile::tempdir_in(TMP).unwrap();
    match f.get("eng").expect("eng").as_str() {
        "file" => {
            run_case(
                |p: &Path, l: Arc<TtlLease>| {
                    let p = p.to_path_buf();
                    Box::pin(async move {
                        let mut sm = FileStateMachine::new(p).await.expect("open");
                        sm.set_lease(l);
                        sm
                    })
                },
                ret, pb, adv, items, root.path(),
            )
            .await
        }
        _ => {
            run_case(
                |p: &Path, l: Arc<TtlLease>| {
                    let p = p.to_path_buf();
                    Box::pin(async move {
                        let mut sm = RocksDBStateMachine::new(p).expect("open");
                        sm.set_lease(l);
                        sm
                    })
                },
                ret, pb, adv, items, root.path(),
            )
            .await
        }
    }
}

fn exec(case: &str) -> String {
    if std::env::var("DV_DEBUG").is_ok() {
        std::panic::set_hook(Box::new(|i| eprintln!("PANIC: {}", i)));
    }
    // the handler unpacks snapshots into `tempfile::tempdir()`: keep that under /verif/target/tmp
    unsafe { std::env::set_var("TMPDIR", TMP) };
    let rt = tokio::runtime::Builder::new_current_thread().enable_all().build().unwrap();
    rt.block_on(exec_async(case))
}

// ------------------------------------------------------------------------------------------ generator
fn gen_cmd(r: &mut Rng, nk: u64, cur: &mut [Option<u64>; 8], cas_heavy: bool) -> String {
    let k = 1 + r.below(nk);
    let w = r.below(10);
    if (cas_heavy && w < 7) || w < 3 {
        // CAS whose expectation is the current value (succeeds), a recent other value, or absent
        let exp = match r.below(4) { 0 | 1 => cur[k as usize], 2 => Some(1 + r.below(4)), _ => None };
        let v = 1 + r.below(4);
        let ok = exp == cur[k as usize];
        if ok { cur[k as usize] = Some(v); }
        format!("cas,{},{},{}", k, exp.map(|x| x.to_string()).unwrap_or("-".into()), v)
    } else if w < 8 {
        let v = 1 + r.below(4);
        cur[k as usize] = Some(v);
        format!("put,{},{},{}", k, v, if r.chance(1, 5) { "30" } else { "-" })
    } else if w < 9 {
        cur[k as usize] = None;
        format!("del,{}", k)
    } else {
        "noop".into()
    }
}

fn gen_case(r: &mut Rng, eng: &str) -> String {
    let nk = 1 + r.below(3);
    let len = 1 + r.below(9) as usize;
    let cas_heavy = r.chance(1, 2);
    let ret = *r.pick(&[0u64, 1, 1, 2, 2, 3, 5, 50]);
    let snap_pos = r.below(len as u64 + 1) as usize;
    let pb = if r.chance(1, 2) { r.below(snap_pos as u64 + 1) } else { 0 };
    let mut cur: [Option<u64>; 8] = [None; 8];
    let mut term = 1 + r.below(3);
    let mut items = vec![];
    for i in 0..len {
        if i == snap_pos { items.push("snap".to_string()); }
        if r.chance(1, 4) { term += 1 + r.below(2); }
        items.push(format!("{}/{}", term, gen_cmd(r, nk, &mut cur, cas_heavy)));
    }
    if snap_pos >= len { items.push("snap".to_string()); }
    format!("eng={} ret={} pb={}|{}", eng, ret, pb, items.join(";"))
}

/// A suffix that is NOT idempotent under re-application: a CAS chain issued in reverse order
/// (`cas v1→v2` fails first time, `cas v0→v1` succeeds; replayed on the result the first one succeeds).
fn gen_reverse_chain(r: &mut Rng, eng: &str) -> String {
    let k = 1 + r.below(2);
    let len = 2 + r.below(2); // chain length
    let mut term = 1 + r.below(2);
    let mut items: Vec<String> = vec![];
    for _ in 0..r.below(3) { items.push(format!("{}/put,{},{},-", term, 3 - k, 1 + r.below(4))); }
    items.push(format!("{}/put,{},1,-", term, k));
    if r.chance(1, 3) { term += 1; }
    for j in (0..len).rev() { items.push(format!("{}/cas,{},{},{}", term, k, 1 + j, 2 + j)); }
    let tail = r.below(3);
    // snapshot somewhere after the chain started; retention between 0 and chain length + 1
    let snap_back = r.below(len + 1) as usize;
    let pos = items.len() - snap_back;
    items.insert(pos, "snap".into());
    for _ in 0..tail { if r.chance(1, 2) { term += 1; } items.push(format!("{}/put,{},{},-", term, 3 - k, 1 + r.below(4))); }
    let ret = r.below(len + 2);
    format!("eng={} ret={} pb={}|{}", eng, ret, if r.chance(1, 4) { 1 } else { 0 }, items.join(";"))
}

/// The follower already holds keys that the leader deleted before the snapshot, and may be AHEAD of the
/// label (pb > n - ret): the install must replace its contents and set last_applied to the label.
fn gen_stale_follower(r: &mut Rng, eng: &str) -> String {
    let term = 1 + r.below(2);
    let mut items: Vec<String> = vec![];
    let nput = 1 + r.below(3);
    for k in 1..=nput { items.push(format!("{}/put,{},{},-", term, k, 1 + r.below(4))); }
    let pb = items.len();
    let ndel = 1 + r.below(nput);
    for k in 1..=ndel { items.push(format!("{}/del,{}", term, k)); }
    if r.chance(1, 2) { items.push(format!("{}/put,{},{},-", term, nput + 1, 1 + r.below(4))); }
    items.push("snap".into());
    if r.chance(1, 2) { items.push(format!("{}/put,{},{},-", term + 1, nput + 1, 1 + r.below(4))); }
    format!("eng={} ret={} pb={}|{}", eng, r.pick(&[0u64, 1, 2, 3, 8]), pb, items.join(";"))
}

/// TTL state across install: the follower holds live leases from the entries it applied before lagging; the
/// leader cancels / replaces / adds TTLs afterwards (its table may be empty at snapshot time); install;
/// the TTLs elapse; cleanup on both; compare.
fn gen_ttl_install(r: &mut Rng, eng: &str) -> String {
    let term = 1 + r.below(2);
    let nk = 1 + r.below(2);
    let mut items: Vec<String> = vec![];
    for k in 1..=nk { items.push(format!("{}/put,{},1,{}", term, k, r.pick(&[2u64, 3, 5]))); }
    let pb = items.len();
    for k in 1..=nk {
        items.push(match r.below(5) {
            0 | 1 => format!("{}/put,{},2,-", term, k),            // overwrite without TTL: table may become empty
            2 => format!("{}/cas,{},1,2", term, k),                // successful CAS cancels
            3 => format!("{}/put,{},2,{}", term, k, 20 + r.below(5)), // longer TTL
            _ => format!("{}/noop", term),
        });
    }
    if r.chance(1, 3) { items.push(format!("{}/put,{},7,{}", term, nk + 1, r.pick(&[1u64, 4, 30]))); }
    items.push("snap".into());
    if r.chance(1, 2) { items.push(format!("{}/put,{},9,-", term + 1, nk + 2)); }
    format!("eng={} ret={} pb={} adv={}|{}", eng, r.pick(&[0u64, 0, 1]), pb, r.pick(&[0u64, 6, 10, 40]), items.join(";"))
}

fn generate(r: &mut Rng, n: usize, tier: &str) -> Vec<String> {
    let mut out = vec![];
    for i in 0..n {
        let eng = if i % 6 == 5 { "rocks" } else { "file" };
        if i % 5 == 2 { out.push(gen_ttl_install(r, if i % 10 == 2 { "rocks" } else { eng })); continue; }
        match i % 4 {
            1 => out.push(gen_reverse_chain(r, eng)),
            3 => out.push(gen_stale_follower(r, eng)),
            _ => out.push(gen_case(r, eng)),
        }
    }
    // boundary / malformed
    out.push("eng=file ret=1 pb=0|snap".into());
    out.push("eng=rocks ret=1 pb=0|snap;1/put,1,1,-".into());
    out.push("eng=file ret=1 pb=0|1/put,1,1,-".into());
    out.push("eng=file ret=18446744073709551615 pb=0|1/put,1,1,-;snap;1/cas,1,1,2".into());
    out.push("eng=file ret=0 pb=5|1/put,1,1,-;snap;snap;1/cas,1,1,2".into());
    if tier == "thorough" {
        // small-scope enumeration: all CAS/put chains of length 3 over one key, two values, ret in 0..3
        let alpha = ["put,1,1,-", "put,1,2,-", "cas,1,1,2", "cas,1,2,1", "cas,1,-,1", "del,1"];
        for a in alpha { for b in alpha { for c in alpha { for ret in 0..=3 {
            out.push(format!("eng=file ret={} pb=0|1/{};1/{};1/{};snap", ret, a, b, c));
        }}}}
    }
    out
}

fn main() { family_main(generate, exec); }
