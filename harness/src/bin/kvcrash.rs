//! Family `kvcrash` (C15): real `FileStateMachine` / `RocksDBStateMachine`; crash = image (copy) of the data
//! directory taken at a crash point while the engine is running (process exit without Drop), then the real
//! `new()` + `set_lease` + `start()` on the image and real `apply_chunk` of the entries in
//! `(last_applied(), n]` as Raft does after a restart (node/builder.rs: applied index := sm.last_applied()).
//!
//! case   : `eng=<file|rocks> cp=<j>|op;op;…`   ops: a:<cmd>  ckpt  flush  reopen  tick
//!          crash points, in order of occurrence: the File engine's own points (guarded callback
//!          `verif_set_file_crash_point_callback`: apply:wal-appended, persist_data:truncated/written,
//!          persist_metadata:truncated/written, clear_wal:done, persist_data_sync:written,
//!          persist_metadata_sync:written in flush()/Drop) and `op-done` after every op; the j-th is
//!          imaged (the last one if j is beyond).
//! output : `cp=<name> n=<entries started> la=<recovered applied index> rec=<kv> fin=<kv after re-apply>`
use bytes::Bytes;
use d_engine_core::{ApplyEntry, Command, StateMachine};
use d_engine_server::storage::{verif_set_file_crash_point_callback, TtlLease};
use d_engine_server::{FileStateMachine, RocksDBStateMachine};
use dv::{family_main, fields, rng::Rng};
use std::path::{Path, PathBuf};
use std::sync::atomic::{AtomicU64, AtomicUsize, Ordering};
use std::sync::{Arc, Mutex};
use std::time::Duration;

const TMP: &str = "/verif/target/tmp";

static HIT: AtomicUsize = AtomicUsize::new(0);
static TARGET: AtomicUsize = AtomicUsize::new(usize::MAX);
static STARTED: AtomicU64 = AtomicU64::new(0);
static IMG_DIR: Mutex<Option<PathBuf>> = Mutex::new(None);
static CAPTURED: Mutex<Option<(String, u64)>> = Mutex::new(None);

fn copy_dir(from: &Path, to: &Path) {
    std::fs::create_dir_all(to).unwrap();
    for e in std::fs::read_dir(from).unwrap() {
        let e = e.unwrap();
        let p = e.path();
        let t = to.join(e.file_name());
        if p.is_dir() { copy_dir(&p, &t) } else if e.file_name() != "LOCK" { std::fs::copy(&p, &t).unwrap(); }
    }
}

fn capture(name: &str, dir: &Path) {
    let img = IMG_DIR.lock().unwrap().clone().expect("img dir");
    let _ = std::fs::remove_dir_all(&img);
    copy_dir(dir, &img);
    *CAPTURED.lock().unwrap() = Some((name.to_string(), STARTED.load(Ordering::SeqCst)));
}

/// called by the File engine between its file operations, and by the harness after every op
fn crash_point(name: &'static str, dir: &Path) {
    let idx = HIT.fetch_add(1, Ordering::SeqCst);
    if idx == TARGET.load(Ordering::SeqCst) { capture(name, dir); }
}

fn key(n: u64) -> Bytes { Bytes::from(format!("k{}", n)) }
fn val(n: u64) -> Bytes { Bytes::from(format!("v{}", n)) }
fn unkey(b: &[u8]) -> u64 { std::str::from_utf8(&b[1..]).unwrap().parse().unwrap() }
fn opt(s: &str) -> Option<u64> { if s == "-" { None } else { Some(s.parse().unwrap()) } }

fn parse_cmd(s: &str, keys: &mut Vec<u64>) -> Command {
    let a: Vec<&str> = s.split(',').collect();
    match a[0] {
        "put" => { keys.push(a[1].parse().unwrap()); Command::Insert { key: key(a[1].parse().unwrap()), value: val(a[2].parse().unwrap()), ttl_secs: opt(a[3]) } }
        "del" => { keys.push(a[1].parse().unwrap()); Command::Delete { key: key(a[1].parse().unwrap()) } }
        "cas" => { keys.push(a[1].parse().unwrap()); Command::CompareAndSwap { key: key(a[1].parse().unwrap()), expected: opt(a[2]).map(val), value: val(a[3].parse().unwrap()) } }
        "noop" => Command::Noop,
        _ => panic!("bad cmd {}", s),
    }
}

async fn open(eng: &str, dir: &Path) -> Arc<dyn StateMachine> {
    let lease = Arc::new(TtlLease::new(d_engine_core::config::LeaseConfig::default()));
    let sm: Arc<dyn StateMachine> = if eng == "file" {
        let mut sm = FileStateMachine::new(dir.to_path_buf()).await.expect("open file sm");
        sm.set_lease(lease);
        Arc::new(sm)
    } else {
        let mut sm = RocksDBStateMachine::new(dir).expect("open rocksdb sm");
        sm.set_lease(lease);
        Arc::new(sm)
    };
    sm.start().await.expect("start");
    sm
}

fn show_kv(sm: &dyn StateMachine, keys: &[u64]) -> String {
    let v: Vec<String> = keys
        .iter()
        .filter_map(|k| sm.get(&key(*k)).expect("get").map(|b| format!("{}={}", k, unkey(&b))))
        .collect();
    if v.is_empty() { "-".into() } else { v.join(",") }
}

async fn exec_async(case: &str) -> String {
    let (hd, body) = case.split_once('|').expect("case");
    let f = fields(hd);
    let eng = f.get("eng").expect("eng").as_str();
    let cp: usize = f.get("cp").expect("cp").parse().unwrap();
    let ops: Vec<&str> = if body.is_empty() { vec![] } else { body.split(';').collect() };
    if ops.is_empty() { return "noimage".into(); }
    std::fs::create_dir_all(TMP).unwrap();
    let root = tempfile::tempdir_in(TMP).unwrap();
    let dir = root.path().join("sm");
    let img = root.path().join("img");
    verif_set_file_crash_point_callback(crash_point);
    HIT.store(0, Ordering::SeqCst);
    STARTED.store(0, Ordering::SeqCst);
    TARGET.store(cp, Ordering::SeqCst);
    *IMG_DIR.lock().unwrap() = Some(img.clone());
    *CAPTURED.lock().unwrap() = None;

    let mut sm = open(eng, &dir).await;
    let mut keys = vec![];
    let mut entries: Vec<ApplyEntry> = vec![];
    for op in &ops {
        match *op {
            "ckpt" => sm.flush_async().await.expect("flush_async"),
            "flush" => sm.flush().expect("flush"),
            "tick" => tokio::time::advance(Duration::from_secs(11)).await,
            "reopen" => {
                sm.close_storage();
                drop(sm);
                sm = open(eng, &dir).await;
            }
            _ => {
                let c = op.strip_prefix("a:").expect("op");
                let e = ApplyEntry { index: entries.len() as u64 + 1, term: 1, command: parse_cmd(c, &mut keys) };
                entries.push(e.clone());
                STARTED.store(entries.len() as u64, Ordering::SeqCst);
                sm.apply_chunk(&[e]).await.expect("apply");
            }
        }
        crash_point("op-done", &dir);
    }
    // beyond the last crash point: the image is the directory as it is now (nothing changed since `op-done`)
    if CAPTURED.lock().unwrap().is_none() { capture("op-done", &dir); }
    TARGET.store(usize::MAX, Ordering::SeqCst);
    let (name, n) = CAPTURED.lock().unwrap().clone().unwrap();
    keys.sort();
    keys.dedup();
    // the process dies here: the running engine is abandoned (its Drop only touches the old directory)
    sm.close_storage();
    drop(sm);
    // restart on the crash image
    let sm2 = open(eng, &img).await;
    let la = sm2.last_applied().index;
    let rec = show_kv(&*sm2, &keys);
    for e in entries.iter().filter(|e| e.index > la && e.index <= n) {
        sm2.apply_chunk(&[e.clone()]).await.expect("re-apply");
    }
    let fin = show_kv(&*sm2, &keys);
    sm2.close_storage();
    drop(sm2);
    format!("cp={} n={} la={} rec={} fin={}", name, n, la, rec, fin)
}

fn exec(case: &str) -> String {
    if std::env::var("DV_DEBUG").is_ok() {
        std::panic::set_hook(Box::new(|i| eprintln!("PANIC: {}", i)));
    }
    let rt = tokio::runtime::Builder::new_current_thread().enable_all().start_paused(true).build().unwrap();
    rt.block_on(exec_async(case))
}

// ------------------------------------------------------------------------------------------ generator
fn gen_cmd(r: &mut Rng, nk: u64, cur: &mut [Option<u64>; 8]) -> String {
    let k = 1 + r.below(nk);
    match r.below(10) {
        0..=3 => {
            // CAS expecting the current value, another value, or absence
            let exp = match r.below(4) { 0 | 1 => cur[k as usize], 2 => Some(1 + r.below(4)), _ => None };
            let v = 1 + r.below(4);
            if exp == cur[k as usize] { cur[k as usize] = Some(v); }
            format!("a:cas,{},{},{}", k, exp.map(|x| x.to_string()).unwrap_or("-".into()), v)
        }
        4..=7 => {
            let v = 1 + r.below(4);
            cur[k as usize] = Some(v);
            format!("a:put,{},{},{}", k, v, if r.chance(1, 6) { "1000" } else { "-" })
        }
        8 => { cur[k as usize] = None; format!("a:del,{}", k) }
        _ => "a:noop".into(),
    }
}

fn gen_case(r: &mut Rng, eng: &str) -> String {
    let nk = 1 + r.below(3);
    let len = 1 + r.below(10) as usize;
    let mut cur: [Option<u64>; 8] = [None; 8];
    let mut ops = vec![];
    let mut points = 0u64;
    for _ in 0..len {
        let o = match r.below(20) {
            0..=12 => { points += 2; gen_cmd(r, nk, &mut cur) }
            13 | 14 => { points += 6; "ckpt".to_string() }
            15 => { points += 3; "flush".to_string() }
            16 => { points += 5; "reopen".to_string() }
            _ => { points += 1; "tick".to_string() }
        };
        ops.push(o);
    }
    // crash point: anywhere in the run, biased to the end
    let cp = if r.chance(1, 3) { 999 } else { r.below(points + 2) };
    format!("eng={} cp={}|{}", eng, cp, ops.join(";"))
}

/// checkpoint, then a reversed CAS chain that is not idempotent under re-application, crash at the end
fn gen_chain(r: &mut Rng, eng: &str) -> String {
    let k = 1 + r.below(2);
    let len = 2 + r.below(2);
    let mut ops = vec![format!("a:put,{},1,-", k)];
    ops.push(r.pick(&["ckpt", "flush", "reopen", "tick;a:noop", "ckpt"]).to_string());
    for j in (0..len).rev() { ops.push(format!("a:cas,{},{},{}", k, 1 + j, 2 + j)); }
    if r.chance(1, 3) { ops.push(format!("a:put,{},7,-", 3 - k)); }
    let cp = if r.chance(2, 3) { 999 } else { r.below(20) };
    format!("eng={} cp={}|{}", eng, cp, ops.join(";"))
}

/// Crash inside the graceful shutdown (Drop = metadata, data, metadata) or inside flush(), with entries
/// applied since the last checkpoint (WAL non-empty): the crash point is aimed at the first file
/// operations of the last op.
fn gen_shutdown_crash(r: &mut Rng) -> String {
    let k = 1 + r.below(2);
    let mut ops = vec![format!("a:put,{},1,-", k)];
    let mut points = 2u64; // crash points so far (File engine): apply = wal-appended + op-done
    if r.chance(2, 3) { ops.push("ckpt".into()); points += 6; }
    for j in 0..1 + r.below(3) {
        ops.push(match r.below(3) { 0 => format!("a:put,{},{},-", k, 2 + j), 1 => format!("a:cas,{},{},{}", k, 1 + j, 2 + j), _ => format!("a:put,{},5,-", 3 - k) });
        points += 2;
    }
    ops.push(r.pick(&["reopen", "reopen", "flush"]).to_string());
    let cp = points + r.below(3);
    format!("eng=file cp={}|{}", cp, ops.join(";"))
}

fn generate(r: &mut Rng, n: usize, tier: &str) -> Vec<String> {
    let mut out = vec![];
    for i in 0..n {
        let eng = if i % 6 == 5 { "rocks" } else { "file" };
        match i % 4 {
            1 => out.push(gen_chain(r, eng)),
            3 if eng == "file" => out.push(gen_shutdown_crash(r)),
            _ => out.push(gen_case(r, eng)),
        }
    }
    out.push("eng=file cp=0|".into());
    out.push("eng=file cp=0|ckpt".into());
    out.push("eng=rocks cp=0|reopen".into());
    if tier == "thorough" {
        // every crash point of a fixed scenario that contains every kind of file operation
        let sc = "a:put,1,1,-;a:put,2,5,-;ckpt;a:cas,1,2,3;a:cas,1,1,2;tick;a:del,2;a:cas,1,2,3;flush;a:put,2,6,-;reopen;a:cas,2,6,7";
        for cp in 0..48 { out.push(format!("eng=file cp={}|{}", cp, sc)); }
        for cp in 0..14 { out.push(format!("eng=rocks cp={}|{}", cp, sc)); }
    }
    out
}

fn main() { family_main(generate, exec); }
