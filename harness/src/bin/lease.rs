//! Family `lease` (C12): the real `ReadLease`, the real `LeaderState::{tick, handle_append_result,
//! handle_inbound_event, become_follower}` driven with a controllable clock (hook `verif_clock` overriding
//! `now_ms()`, tokio paused time for the replication timer), the real `FollowerState` vote/AppendEntries
//! handling (leader stickiness, F29) and the real read fast-path lease test.
//!
//! Case kinds (first field `k=`):
//!   k=pack term=<u64> dl=<u64> now=<u64> cur=<u64>
//!   k=leader n=<voters incl. leader> lrn=<learners> lease=<ms> term=<T> log=<terms of entries 1..> commit=<c>|op;op;…
//!       c<t>            set the clock (now_ms) to t
//!       hb              heartbeat round through the real tick() (records last_heartbeat_send_ts)
//!       a<p>.<rt>.<mt>.<mi>.<round>   AppendResult Ok(Success{last_match=(mt,mi)}) with response.term=rt from peer p;
//!                       <round> = which heartbeat round (1-based, 0 = unknown) this ack answers — ghost
//!                       information for the monitor only, never shown to the real code
//!       x<p>.<rt>.<ci>  AppendResult Ok(Conflict{conflict_index=ci})
//!       h<p>.<rt>.<t>   AppendResult Ok(HigherTerm(t)), response.term = rt
//!       n<p>.<rt>       AppendResult Ok(result = None)
//!       e<p>            AppendResult Err(network)
//!       v<t>            inbound VoteRequest with term t
//!       ae<t>           inbound AppendEntries with term t
//!       cu<t>           inbound ClusterConfUpdate with term t
//!       bf              the Raft loop processes BecomeFollower (role change)
//!       r               read probe (fast-path lease test at the current clock)
//!   k=follower term=<T> log=<terms> emin=<ms>|op;…
//!       t<ms>           let <ms> pass
//!       ae<t>.<leader>  heartbeat AppendEntries (prev = own last log id) with term t
//!       v<c>.<t>.<lli>.<llt>  VoteRequest from candidate c
//! Output: one observation per op, joined by `;`.
use std::sync::Arc;
use std::time::Duration;

use d_engine_core::read_lease::verif_clock;
use d_engine_core::role_state::RaftRoleState;
use d_engine_core::{
    BufferedRaftLog, ElectionHandler, FlushPolicy, InboundEvent, InternalEvent, MaybeCloneOneshot, MockCommitHandler,
    MockMembership, MockPurgeExecutor, MockSnapshotPolicy, MockStateMachine, MockStateMachineHandler,
    MockStorageEngine, MockTransport, PersistenceConfig, PersistenceStrategy, RaftContext, RaftCoreHandlers, RaftLog,
    RaftNodeConfig, RaftOneshot, RaftStorageHandles, ReadLease, ReplicationHandler, TypeConfig,
    follower_state::FollowerState, leader_state::LeaderState, now_ms,
};
use d_engine_proto::common::{Entry, EntryPayload, LogId, NodeRole, NodeStatus};
use d_engine_proto::server::cluster::{ClusterConfChangeRequest, NodeMeta};
use d_engine_proto::server::election::VoteRequest;
use d_engine_proto::server::replication::{
    AppendEntriesRequest, AppendEntriesResponse, ConflictResult, SuccessResult, append_entries_response,
};
use dv::{fields, nat_list, rng::Rng, show_list};
use tokio::sync::mpsc;

#[derive(Debug, Clone, Copy)]
struct LT;
impl TypeConfig for LT {
    type SE = MockStorageEngine;
    type SM = MockStateMachine;
    type R = BufferedRaftLog<LT>;
    type M = MockMembership<LT>;
    type TR = MockTransport<LT>;
    type E = ElectionHandler<LT>;
    type REP = ReplicationHandler<LT>;
    type C = MockCommitHandler;
    type SMH = MockStateMachineHandler<LT>;
    type SNP = MockSnapshotPolicy;
    type PE = MockPurgeExecutor;
}

fn node_meta(id: u32, role: NodeRole) -> NodeMeta {
    NodeMeta { id, address: format!("127.0.0.1:{}", 9000 + id), role: role as i32, status: NodeStatus::Active as i32 }
}

struct World {
    ctx: RaftContext<LT>,
    itx: mpsc::UnboundedSender<InternalEvent>,
    irx: mpsc::UnboundedReceiver<InternalEvent>,
    _iorx: mpsc::UnboundedReceiver<d_engine_core::IOTask>,
}

async fn world(node_id: u32, voters: Vec<u32>, learners: Vec<u32>, log_terms: &[u64], cfg: RaftNodeConfig) -> World {
    let storage = Arc::new(MockStorageEngine::new());
    let (log, iorx) = BufferedRaftLog::<LT>::new(
        node_id,
        PersistenceConfig {
            strategy: PersistenceStrategy::MemFirst,
            flush_policy: FlushPolicy::Batch { idle_flush_interval_ms: 1000 },
            max_buffered_entries: 100_000,
        },
        storage,
    );
    // The IO thread is never started: entries live in the in-memory log only (that is what the lease code reads).
    let log = Arc::new(log);
    let entries: Vec<Entry> = log_terms
        .iter()
        .enumerate()
        .map(|(i, t)| Entry { index: i as u64 + 1, term: *t, payload: Some(EntryPayload::noop()) })
        .collect();
    if !entries.is_empty() {
        log.append_entries(entries).await.expect("append");
    }
    let mut sm = MockStateMachine::new();
    sm.expect_last_applied().return_const(LogId { index: 0, term: 0 });
    sm.expect_is_running().returning(|| true);
    sm.expect_snapshot_metadata().returning(|| None);
    sm.expect_get_multi().returning(|keys| Ok(keys.iter().map(|_| None).collect()));
    let mut membership = MockMembership::<LT>::new();
    let v2 = voters.clone();
    membership.expect_voters().returning(move || v2.iter().map(|i| node_meta(*i, NodeRole::Follower)).collect());
    let (v3, l3) = (voters.clone(), learners.clone());
    membership.expect_replication_peers().returning(move || {
        v3.iter()
            .map(|i| node_meta(*i, NodeRole::Follower))
            .chain(l3.iter().map(|i| node_meta(*i, NodeRole::Learner)))
            .collect()
    });
    membership.expect_get_cluster_conf_version().returning(|| 1);
    let mut transport = MockTransport::<LT>::new();
    transport.expect_open_replication_stream().returning(|_, _, _| {
        Err(d_engine_core::Error::System(d_engine_core::SystemError::Network(
            d_engine_core::NetworkError::PeerConnectionNotFound(0),
        )))
    });
    let (itx, irx) = mpsc::unbounded_channel();
    let ctx = RaftContext::<LT> {
        node_id,
        storage: RaftStorageHandles { raft_log: log, state_machine: Arc::new(sm) },
        transport: Arc::new(transport),
        membership: Arc::new(membership),
        handlers: RaftCoreHandlers {
            election_handler: ElectionHandler::new(node_id),
            replication_handler: ReplicationHandler::new(node_id),
            state_machine_handler: Arc::new(MockStateMachineHandler::<LT>::new()),
            purge_executor: Arc::new(MockPurgeExecutor::new()),
        },
        node_config: Arc::new(cfg),
    };
    World { ctx, itx, irx, _iorx: iorx }
}

fn parse_dots(s: &str) -> Vec<u64> {
    s.split('.').map(|x| x.parse().expect("num")).collect()
}

fn obs(l: &LeaderState<LT>) -> String {
    let raw = l.shared_state.lease.verif_raw();
    let (t, d) = ReadLease::verif_unpack(raw);
    format!(
        "{}.{}.{}.{}.{}",
        l.current_term(),
        l.commit_index(),
        t,
        d,
        l.shared_state.lease.is_valid(now_ms()) as u8
    )
}

async fn exec_leader(f: &std::collections::HashMap<String, String>, ops: &str) -> String {
    let n: u32 = f["n"].parse().unwrap();
    let learners: Vec<u32> = nat_list(&f["lrn"]).iter().map(|x| *x as u32).collect();
    let lease: u64 = f["lease"].parse().unwrap();
    let term: u64 = f["term"].parse().unwrap();
    let log_terms = nat_list(&f["log"]);
    let commit: u64 = f["commit"].parse().unwrap();
    let voters: Vec<u32> = (2..=n).collect();
    let mut cfg = RaftNodeConfig::default();
    cfg.raft.read_consistency.lease_duration_ms = lease;
    let hb_ms = cfg.raft.replication.rpc_append_entries_clock_in_ms;
    let w = world(1, voters.clone(), learners.clone(), &log_terms, cfg).await;
    let mut l = LeaderState::<LT>::new(1, w.ctx.node_config.clone());
    verif_clock::set(Some(0));
    l.update_current_term(term);
    l.update_commit_index(commit).unwrap();
    // exactly what Raft::handle_internal_event(BecomeLeader) does
    let mut peers = voters.clone();
    peers.extend(learners.iter().copied());
    l.init_peers_next_index_and_match_index(w.ctx.raft_log().last_entry_id(), peers).unwrap();
    l.init_cluster_metadata(&w.ctx.membership()).await.unwrap();
    let mut out: Vec<String> = vec![];
    let mut stepped = false; // role changed to follower: the LeaderState no longer exists in the Raft loop
    let (etx, _erx) = mpsc::channel::<InboundEvent>(16);
    for op in ops.split(';').filter(|s| !s.is_empty()) {
        let is_clock = op.starts_with('c') && !op.starts_with("cu");
        if stepped && op != "r" && !is_clock {
            out.push("-".into());
            continue;
        }
        if op == "hb" {
            tokio::time::advance(Duration::from_millis(hb_ms + 1)).await;
            let r = l.tick(&w.itx, &etx, &w.ctx).await;
            out.push(format!("{}.{}", obs(&l), if r.is_ok() { "ok" } else { "err" }));
        } else if op == "bf" {
            let _ = l.drain_read_buffer();
            let r = l.become_follower();
            stepped = r.is_ok();
            out.push(format!("{}.{}", obs(&l), if r.is_ok() { "ok" } else { "err" }));
        } else if op == "r" {
            // the two real fast paths (ReadActor::serve_read, EmbeddedReadHandle::get_batch) on the shared lease word
            let keys = vec![bytes::Bytes::from_static(b"k")];
            let actor_ok = d_engine_server::verif_lease_paths::verif_serve_lease_read(
                &l.shared_state.lease,
                &w.ctx.storage.state_machine,
                keys.clone(),
            )
            .is_ok();
            let embedded_ok = d_engine_server::verif_lease_paths::verif_embedded_lease_read_is_local::<LT>(
                w.ctx.storage.state_machine.clone(),
                l.shared_state.lease.clone(),
                keys,
            )
            .await;
            let leader_ok = l.is_lease_valid();
            out.push(format!(
                "{}.{}.{}",
                actor_ok as u8,
                embedded_ok as u8,
                if stepped { 0 } else { leader_ok as u8 }
            ));
        } else if let Some(a) = op.strip_prefix("ae") {
            let t: u64 = a.parse().unwrap();
            let (tx, _rx) = MaybeCloneOneshot::new();
            let req = AppendEntriesRequest {
                term: t,
                leader_id: 9,
                prev_log_index: 0,
                prev_log_term: 0,
                entries: vec![],
                leader_commit_index: 0,
            };
            let r = l.handle_inbound_event(InboundEvent::AppendEntries(req, vec![tx]), &w.ctx, w.itx.clone()).await;
            out.push(format!("{}.{}", obs(&l), if r.is_ok() { "ok" } else { "err" }));
        } else if let Some(a) = op.strip_prefix("cu") {
            let t: u64 = a.parse().unwrap();
            let (tx, _rx) = MaybeCloneOneshot::new();
            let req = ClusterConfChangeRequest { id: 9, term: t, version: 2, change: None };
            let r = l.handle_inbound_event(InboundEvent::ClusterConfUpdate(req, tx), &w.ctx, w.itx.clone()).await;
            out.push(format!("{}.{}", obs(&l), if r.is_ok() { "ok" } else { "err" }));
        } else if let Some(a) = op.strip_prefix('c') {
            verif_clock::set(Some(a.parse().unwrap()));
            out.push(obs(&l));
        } else if let Some(a) = op.strip_prefix('v') {
            let t: u64 = a.parse().unwrap();
            let (tx, _rx) = MaybeCloneOneshot::new();
            let req = VoteRequest { term: t, candidate_id: 9, last_log_index: 1 << 40, last_log_term: 1 << 40 };
            let r = l.handle_inbound_event(InboundEvent::ReceiveVoteRequest(req, tx), &w.ctx, w.itx.clone()).await;
            out.push(format!("{}.{}", obs(&l), if r.is_ok() { "ok" } else { "err" }));
        } else {
            let (kind, rest) = op.split_at(1);
            let a = parse_dots(rest);
            let p = a[0] as u32;
            let result: d_engine_core::Result<AppendEntriesResponse> = match kind {
                "a" => Ok(AppendEntriesResponse {
                    node_id: p,
                    term: a[1],
                    result: Some(append_entries_response::Result::Success(SuccessResult {
                        last_match: Some(LogId { term: a[2], index: a[3] }),
                    })),
                }),
                "x" => Ok(AppendEntriesResponse {
                    node_id: p,
                    term: a[1],
                    result: Some(append_entries_response::Result::Conflict(ConflictResult {
                        conflict_term: None,
                        conflict_index: Some(a[2]),
                    })),
                }),
                "h" => Ok(AppendEntriesResponse {
                    node_id: p,
                    term: a[1],
                    result: Some(append_entries_response::Result::HigherTerm(a[2])),
                }),
                "n" => Ok(AppendEntriesResponse { node_id: p, term: a[1], result: None }),
                "e" => Err(d_engine_core::Error::System(d_engine_core::SystemError::Network(
                    d_engine_core::NetworkError::PeerConnectionNotFound(p),
                ))),
                _ => panic!("bad op {op}"),
            };
            let r = l.handle_append_result(p, result, &w.ctx, &w.itx).await;
            out.push(format!("{}.{}", obs(&l), if r.is_ok() { "ok" } else { "err" }));
        }
    }
    verif_clock::set(None);
    drop(w.irx);
    out.join(";")
}

async fn exec_follower(f: &std::collections::HashMap<String, String>, ops: &str) -> String {
    let term: u64 = f["term"].parse().unwrap();
    let log_terms = nat_list(&f["log"]);
    let cfg = RaftNodeConfig::default();
    let w = world(2, vec![1, 3], vec![], &log_terms, cfg).await;
    let mut s = FollowerState::<LT>::new(2, w.ctx.node_config.clone(), None, None);
    s.update_current_term(term);
    let mut out: Vec<String> = vec![];
    for op in ops.split(';').filter(|s| !s.is_empty()) {
        if let Some(a) = op.strip_prefix("ae") {
            let a = parse_dots(a);
            let last = w.ctx.raft_log().last_log_id().unwrap_or(LogId { index: 0, term: 0 });
            let (tx, mut rx) = MaybeCloneOneshot::new();
            let req = AppendEntriesRequest {
                term: a[0],
                leader_id: a[1] as u32,
                prev_log_index: last.index,
                prev_log_term: last.term,
                entries: vec![],
                leader_commit_index: 0,
            };
            let _ = s.handle_inbound_event(InboundEvent::AppendEntries(req, vec![tx]), &w.ctx, w.itx.clone()).await;
            let resp = rx.try_recv();
            let kind = match resp {
                Ok(Ok(r)) => match r.result {
                    Some(append_entries_response::Result::Success(_)) => "ok",
                    Some(append_entries_response::Result::Conflict(_)) => "conflict",
                    Some(append_entries_response::Result::HigherTerm(_)) => "hterm",
                    None => "none",
                },
                _ => "noreply",
            };
            out.push(format!("{}.{}", s.current_term(), kind));
        } else if let Some(a) = op.strip_prefix('v') {
            let a = parse_dots(a);
            let (tx, mut rx) = MaybeCloneOneshot::new();
            let req = VoteRequest { candidate_id: a[0] as u32, term: a[1], last_log_index: a[2], last_log_term: a[3] };
            let _ = s.handle_inbound_event(InboundEvent::ReceiveVoteRequest(req, tx), &w.ctx, w.itx.clone()).await;
            let g = match rx.try_recv() {
                Ok(Ok(r)) => r.vote_granted as u8,
                _ => 9,
            };
            out.push(format!("{}.{}", s.current_term(), g));
        } else if let Some(a) = op.strip_prefix('t') {
            tokio::time::advance(Duration::from_millis(a.parse().unwrap())).await;
            out.push(format!("{}.t", s.current_term()));
        } else {
            panic!("bad op {op}");
        }
    }
    drop(w.irx);
    out.join(";")
}

fn exec_pack(f: &std::collections::HashMap<String, String>) -> String {
    let g = |k: &str| -> u64 { f[k].parse().unwrap() };
    let (term, dl, now, cur) = (g("term"), g("dl"), g("now"), g("cur"));
    let raw = ReadLease::verif_pack(term, dl); // panics when dl needs more than 48 bits
    let (ut, ud) = ReadLease::verif_unpack(raw);
    let l = ReadLease::new();
    l.renew(term, dl);
    let same = (l.verif_raw() == raw) as u8;
    let v = l.is_valid(now) as u8;
    let vl = l.is_valid_for_leader(cur, now) as u8;
    l.invalidate(term);
    let inv = l.verif_raw();
    let iv = l.is_valid(now) as u8;
    l.renew(term, dl);
    l.revoke();
    let rv = l.is_valid(now) as u8 + l.is_valid_for_leader(cur, now) as u8 + l.is_valid_for_leader(0, now) as u8;
    format!("raw={raw} ut={ut} ud={ud} same={same} v={v} vl={vl} inv={inv} iv={iv} rv={rv}")
}

fn exec(case: &str) -> String {
    let (head, ops) = match case.rsplit_once('|') {
        Some((h, o)) => (h, o),
        None => (case, ""),
    };
    let f = fields(head);
    match f.get("k").map(|s| s.as_str()) {
        Some("pack") => exec_pack(&f),
        Some("leader") => {
            let rt = tokio::runtime::Builder::new_current_thread().enable_all().start_paused(true).build().unwrap();
            rt.block_on(exec_leader(&f, ops))
        }
        Some("follower") => {
            let rt = tokio::runtime::Builder::new_current_thread().enable_all().start_paused(true).build().unwrap();
            rt.block_on(exec_follower(&f, ops))
        }
        _ => "bad-case".into(),
    }
}

// ------------------------------------------------------------------------------------------ generator
fn gen_pack(r: &mut Rng) -> String {
    let m48 = (1u64 << 48) - 1;
    let terms = [0u64, 1, 2, 7, 65535, 65536, 65537, 131071, 131072, 1 << 32, u64::MAX - 1, u64::MAX];
    let dls = [0u64, 1, 2, 1000, m48 - 1, m48, m48 + 1, 1 << 63, u64::MAX];
    let term = if r.chance(1, 2) { *r.pick(&terms) } else { r.below(200_000) };
    let dl = match r.below(4) {
        0 => *r.pick(&dls),
        1 => m48 - r.below(3),
        _ => r.below(100_000),
    };
    let now = match r.below(4) {
        0 => dl.saturating_sub(1),
        1 => dl,
        2 => dl.saturating_add(1),
        _ => *r.pick(&dls),
    };
    let cur = match r.below(4) {
        0 => term,
        1 => term.wrapping_add(65536),
        2 => term & 0xFFFF,
        _ => *r.pick(&terms),
    };
    format!("k=pack term={term} dl={dl} now={now} cur={cur}")
}

fn gen_leader(r: &mut Rng) -> String {
    let n = *r.pick(&[2u64, 3, 3, 3, 5, 5, 4]);
    let lrn: Vec<u64> = if r.chance(1, 4) { vec![n + 1] } else { vec![] };
    let lease = *r.pick(&[250u64, 250, 100, 1, 400]);
    let term = if r.chance(1, 8) { 65536 + r.below(3) } else { 1 + r.below(4) };
    // log: some older-term entries then entries of the leader's term (or not: stale leader without own entries)
    let old = r.below(3);
    let own = r.below(4);
    let mut log: Vec<u64> = vec![];
    for _ in 0..old { log.push(term.saturating_sub(1).max(1)); }
    for _ in 0..own { log.push(term); }
    let last = log.len() as u64;
    let commit = if last == 0 { 0 } else { r.below(last + 1) };
    let nops = 2 + r.below(12);
    let mut ops: Vec<String> = vec![];
    // now_ms() == 0 only in the first millisecond of a process; `last_heartbeat_send_ts == 0` means "unset"
    let mut clock = 1 + r.below(2000);
    ops.push(format!("c{clock}"));
    let mut round = 0u64;
    let peers: Vec<u64> = (2..=n).chain(lrn.iter().copied()).collect();
    for _ in 0..nops {
        match r.below(20) {
            0..=3 => { clock += *r.pick(&[1u64, 50, 100, 100, 249, 250, 251, 1000]); ops.push(format!("c{clock}")); }
            4..=6 => { round += 1; ops.push("hb".into()); }
            7..=13 => {
                let p = *r.pick(&peers);
                let rt = match r.below(10) { 0 => term.saturating_sub(1), 1 => term + 1, _ => term };
                let mi = match r.below(6) { 0 => 0, 1 => last + 1, 2 => r.below(last + 1), _ => last };
                let rd = if round == 0 { 0 } else { 1 + r.below(round) };
                ops.push(format!("a{p}.{rt}.{term}.{mi}.{rd}"));
            }
            14 => { let p = *r.pick(&peers); ops.push(format!("x{p}.{term}.{}", r.below(last + 2))); }
            15 => {
                let p = *r.pick(&peers);
                match r.below(4) {
                    0 => ops.push(format!("h{p}.{term}.{}", term + r.below(2))),
                    1 => ops.push(format!("n{p}.{term}")),
                    2 => ops.push(format!("e{p}")),
                    _ => ops.push(format!("h{p}.{}.{}", term, term + 1)),
                }
            }
            16 => ops.push(format!("v{}", term + r.below(2))),
            17 => ops.push(format!("ae{}", term + r.below(2))),
            18 => ops.push(if r.chance(1, 2) { format!("cu{}", term + r.below(2)) } else { "bf".into() }),
            _ => ops.push("r".into()),
        }
    }
    ops.push("r".into());
    format!(
        "k=leader n={n} lrn={} lease={lease} term={term} log={} commit={commit}|{}",
        show_list(&lrn),
        show_list(&log),
        ops.join(";")
    )
}

/// structured stream: heartbeat rounds at the configured interval, acks of (possibly old) rounds arriving with
/// delays, match indexes consistent with the log — the shape in which F12 lives
fn gen_leader_rounds(r: &mut Rng) -> String {
    let n = *r.pick(&[3u64, 3, 5, 5, 7]);
    let lease = *r.pick(&[250u64, 250, 400, 100]);
    let term = 1 + r.below(5);
    let own = 1 + r.below(3);
    let old = r.below(2);
    let mut log: Vec<u64> = vec![];
    for _ in 0..old { log.push(term.saturating_sub(1).max(1)); }
    for _ in 0..own { log.push(term); }
    let last = log.len() as u64;
    let commit = if r.chance(1, 2) { last } else { r.below(last + 1) };
    let mut clock = 1 + r.below(5000);
    let mut ops = vec![format!("c{clock}")];
    let mut round = 0u64;
    let rounds = 2 + r.below(6);
    for _ in 0..rounds {
        round += 1;
        ops.push("hb".into());
        // some peers answer some round (often the current one, sometimes an old one), after a delay
        for p in 2..=n {
            if r.chance(2, 3) {
                let d = *r.pick(&[0u64, 1, 5, 20, 90]);
                if d > 0 { clock += d; ops.push(format!("c{clock}")); }
                let rd = if r.chance(3, 4) { round } else { 1 + r.below(round) };
                let mi = if r.chance(5, 6) { last } else { r.below(last + 1) };
                ops.push(format!("a{p}.{term}.{term}.{mi}.{rd}"));
                if r.chance(1, 5) { ops.push("r".into()); }
            }
        }
        clock += *r.pick(&[100u64, 100, 100, 300, 1000, 10_000]);
        ops.push(format!("c{clock}"));
        if r.chance(1, 12) {
            ops.push(r.pick(&["v", "ae", "cu"]).to_string() + &(term + 1).to_string());
        }
    }
    ops.push("r".into());
    format!("k=leader n={n} lrn=- lease={lease} term={term} log={} commit={commit}|{}", show_list(&log), ops.join(";"))
}

fn gen_follower(r: &mut Rng) -> String {
    let term = 1 + r.below(3);
    let loglen = r.below(4);
    let log: Vec<u64> = (0..loglen).map(|_| term).collect();
    let mut ops: Vec<String> = vec![];
    for _ in 0..(1 + r.below(6)) {
        match r.below(5) {
            0 => ops.push(format!("t{}", *r.pick(&[1u64, 100, 499, 500, 1000]))),
            1 | 2 => ops.push(format!("ae{}.{}", term + r.below(2) - if r.chance(1, 6) && term > 1 { 1 } else { 0 }, 1)),
            _ => {
                let t = term + r.below(3);
                let lli = if r.chance(1, 4) { r.below(loglen + 1) } else { loglen + r.below(2) };
                let llt = if r.chance(1, 4) { term.saturating_sub(1) } else { term };
                ops.push(format!("v{}.{}.{}.{}", 3, t, lli, llt));
            }
        }
    }
    format!("k=follower term={term} log={} emin=500|{}", show_list(&log), ops.join(";"))
}

fn generate(r: &mut Rng, n: usize, _tier: &str) -> Vec<String> {
    let mut out = vec![];
    for i in 0..n {
        out.push(match i % 10 {
            0 | 1 => gen_pack(r),
            2 => gen_follower(r),
            3 | 4 | 5 => gen_leader_rounds(r),
            _ => gen_leader(r),
        });
    }
    out
}

/// Same protocol as `dv::family_main`, but the real code under test prints to stdout (`println!` in
/// `LeaderState::become_follower`), which would corrupt the line protocol: fd 1 is redirected to /dev/null and the
/// protocol lines go to a duplicate of the original stdout.
fn family_main_quiet(
    generate: impl Fn(&mut Rng, usize, &str) -> Vec<String>,
    exec: impl Fn(&str) -> String + std::panic::RefUnwindSafe,
) {
    use std::io::{BufRead, Write};
    use std::os::fd::FromRawFd;
    unsafe extern "C" {
        fn dup(fd: i32) -> i32;
        fn dup2(a: i32, b: i32) -> i32;
    }
    let args: Vec<String> = std::env::args().collect();
    let mode = args.get(1).map(|s| s.as_str()).unwrap_or("");
    let cases: Vec<String> = match mode {
        "gen" => {
            let seed: u64 = args.get(2).and_then(|s| s.parse().ok()).unwrap_or(0);
            let n: usize = args.get(3).and_then(|s| s.parse().ok()).unwrap_or(100);
            let tier = args.get(4).map(|s| s.as_str()).unwrap_or("quick");
            let mut r = Rng::new(seed);
            generate(&mut r, n, tier)
        }
        "run" => std::io::stdin().lock().lines().map(|l| l.unwrap()).filter(|l| !l.is_empty()).collect(),
        _ => {
            eprintln!("usage: {} gen <seed> <n> <tier> | run", args[0]);
            std::process::exit(2);
        }
    };
    let out = unsafe {
        let saved = dup(1);
        let null = std::fs::OpenOptions::new().write(true).open("/dev/null").expect("devnull");
        dup2(std::os::fd::AsRawFd::as_raw_fd(&null), 1);
        std::fs::File::from_raw_fd(saved)
    };
    std::panic::set_hook(Box::new(|_| {}));
    let mut w = std::io::BufWriter::new(out);
    for c in cases {
        let o = match std::panic::catch_unwind(|| exec(&c)) {
            Ok(o) => o,
            Err(_) => "panic".to_string(),
        };
        writeln!(w, "{}\t{}", c, o).unwrap();
    }
    w.flush().unwrap();
}

fn main() {
    family_main_quiet(generate, exec);
}
