//! Family `purge` (C33): real purge conditions and execution on a real node stack — `LeaderState` / `FollowerState`
//! / `LearnerState::{can_purge_logs, handle_snapshot_created, handle_log_purge_completed}`, real
//! `DefaultStateMachineHandler::create_snapshot`, real `DefaultPurgeExecutor` → `BufferedRaftLog::purge_logs_up_to`
//! (IO thread running) over the real File / RocksDB storage engine and state machine, graceful restart (close,
//! stop, reopen from the same directory), and the real `ReplicationHandler::prepare_batch_requests` snapshot-target
//! rule for a lagging peer.
//!
//! Second kind (`k=worker …`): the real per-follower replication worker (`LeaderState::tick` →
//! `execute_and_process_raft_rpc` → `send_to_worker_or_spawn` → `run_replication_worker`) for a peer below the purge
//! boundary, with a transport whose snapshot push fails `fail` times and then succeeds; the harness plays the Raft
//! loop for the events the worker emits (`SnapshotPushCompleted` → `init_peers_next_index_and_match_index`,
//! `handle_snapshot_push_completed`), tokio time is paused.
//!   case  : `k=worker first=<F> last=<L> snap=<S|-> next=<n> base=<ms> cap=<ms> fail=<k>|h<dt>;b;h<dt>;…`
//!           (`b` = the peer's ack stream breaks: stream_broken + PeerStreamError → next_index := match_index + 1)
//!   output: per heartbeat round `<calls>.<peer next_index>`, calls = `Sf` (push attempted, failed) | `Sk` (push
//!           succeeded) | `A<prev_log_index>` (AppendEntries handed to the peer's stream) | `-` (nothing reached the peer)
//!
//! case : `eng=<file|rocks> role=<L|F|N> ret=<retained_log_entries>|op;op;…`
//!   w<k>.<t>   append k entries of term t to the raft log and flush
//!   c<i>       commit index := i
//!   a<i>       apply entries up to i through the handler (real engine apply)
//!   s          create_snapshot, then the role handles SnapshotCreated (and LogPurgeCompleted, if emitted)
//!   q<lp>.<li> can_purge_logs(last_purged = lp (0 = None), last_included.index = li)
//!   t<L|F|N>   role transition in place (become_follower / become_candidate+become_leader / fresh learner state)
//!   r<L|F|N>   graceful restart, then the node runs in the given role
//!   p<n>       leader: peer 2 has next_index n — what does the next heartbeat round do for it
//!   u          leader: SnapshotPushCompleted{success} for peer 2 → its next_index
//! output: one observation per op, joined by `;`:
//!   state ops: `<first>.<last>.<bt>.<rp>.<sc>.<sn>.<la>.<c>[.<P purge-arg>]`  (bt = entry_term(first-1), `-` = None)
//!   q: `0|1`   p: `A<prev>.<prevterm>` | `S<snapshot idx>` | `S-`   u: next index
use std::marker::PhantomData;
use std::path::{Path, PathBuf};
use std::sync::Arc;
use std::sync::atomic::AtomicUsize;

use bytes::Bytes;
use d_engine_core::role_state::RaftRoleState;
use d_engine_core::{
    BufferedRaftLog, ClusterMetadata, DefaultPurgeExecutor, DefaultStateMachineHandler, FlushPolicy, InternalEvent,
    LeaderStateSnapshot, MockCommitHandler, MockElectionCore, MockMembership, MockSnapshotPolicy, MockTransport,
    PersistenceConfig, PersistenceStrategy, RaftContext, RaftCoreHandlers, RaftLog, RaftNodeConfig, RaftRole,
    RaftStorageHandles, ReplicationCore, ReplicationHandler, SnapshotConfig, StateMachine, StateMachineHandler,
    StateSnapshot, StorageEngine, TypeConfig, follower_state::FollowerState, leader_state::LeaderState,
    learner_state::LearnerState,
};
use d_engine_proto::client::WriteCommand;
use d_engine_proto::common::{Entry, EntryPayload, LogId, NodeRole, NodeStatus};
use d_engine_proto::server::cluster::NodeMeta;
use d_engine_server::storage::TtlLease;
use d_engine_server::{FileStateMachine, FileStorageEngine, RocksDBStateMachine, RocksDBStorageEngine};
use dv::{fields, rng::Rng};
use prost::Message;
use tokio::sync::mpsc;

const TMP: &str = "/verif/target/tmp";

#[derive(Debug)]
struct Tc<E, S>(PhantomData<(E, S)>);
impl<E: StorageEngine + std::fmt::Debug, S: StateMachine + std::fmt::Debug> TypeConfig for Tc<E, S> {
    type R = BufferedRaftLog<Self>;
    type SE = E;
    type E = MockElectionCore<Self>;
    type TR = MockTransport<Self>;
    type SM = S;
    type M = MockMembership<Self>;
    type REP = ReplicationHandler<Self>;
    type C = MockCommitHandler;
    type SMH = DefaultStateMachineHandler<Self>;
    type SNP = MockSnapshotPolicy;
    type PE = DefaultPurgeExecutor<Self>;
}

enum Role<T: TypeConfig> {
    L(Box<LeaderState<T>>),
    F(Box<FollowerState<T>>),
    N(Box<LearnerState<T>>),
}

impl<T: TypeConfig> Role<T> {
    fn st(&self) -> &dyn RaftRoleState<T = T> {
        match self {
            Role::L(s) => s.as_ref(),
            Role::F(s) => s.as_ref(),
            Role::N(s) => s.as_ref(),
        }
    }
    fn st_mut(&mut self) -> &mut dyn RaftRoleState<T = T> {
        match self {
            Role::L(s) => s.as_mut(),
            Role::F(s) => s.as_mut(),
            Role::N(s) => s.as_mut(),
        }
    }
    fn last_purged(&self) -> Option<LogId> {
        match self {
            Role::L(s) => s.last_purged_index,
            Role::F(s) => s.last_purged_index,
            Role::N(s) => s.last_purged_index,
        }
    }
    fn scheduled(&self) -> Option<LogId> {
        match self {
            Role::L(s) => s.scheduled_purge_upto,
            _ => None,
        }
    }
    fn can_purge(&self, lp: Option<LogId>, li: LogId) -> bool {
        match self {
            Role::L(s) => s.can_purge_logs(lp, li),
            Role::F(s) => s.can_purge_logs(lp, li),
            Role::N(s) => s.can_purge_logs(lp, li),
        }
    }
}

struct Node<T: TypeConfig> {
    ctx: RaftContext<T>,
    role: Role<T>,
    itx: mpsc::UnboundedSender<InternalEvent>,
    irx: mpsc::UnboundedReceiver<InternalEvent>,
}

fn fresh_role<T: TypeConfig>(kind: &str, cfg: Arc<RaftNodeConfig>) -> Role<T> {
    match kind {
        "L" => Role::L(Box::new(LeaderState::<T>::new(1, cfg))),
        "F" => Role::F(Box::new(FollowerState::<T>::new(1, cfg, None, None))),
        _ => Role::N(Box::new(LearnerState::<T>::new(1, cfg))),
    }
}

fn snap_config(dir: &Path, ret: u64) -> SnapshotConfig {
    let mut sc = SnapshotConfig::default();
    sc.snapshots_dir = dir.to_path_buf();
    sc.retained_log_entries = ret;
    sc
}

async fn open_node<E, S>(engine: Arc<E>, sm: Arc<S>, root: &Path, ret: u64, role: &str) -> Node<Tc<E, S>>
where
    E: StorageEngine + std::fmt::Debug,
    S: StateMachine + std::fmt::Debug,
{
    let (log, rx) = BufferedRaftLog::<Tc<E, S>>::new(
        1,
        PersistenceConfig {
            strategy: PersistenceStrategy::MemFirst,
            flush_policy: FlushPolicy::Batch { idle_flush_interval_ms: 5 },
            max_buffered_entries: 100_000,
        },
        engine,
    );
    let log = log.start(rx, None);
    sm.start().await.expect("sm start");
    let snap_dir = root.join("snapshots");
    std::fs::create_dir_all(&snap_dir).unwrap();
    let smh = Arc::new(DefaultStateMachineHandler::<Tc<E, S>>::new(
        1,
        sm.last_applied().index,
        sm.clone(),
        snap_config(&snap_dir, ret),
        MockSnapshotPolicy::new(),
        None,
        Arc::new(AtomicUsize::new(0)),
    ));
    let mut cfg = RaftNodeConfig::default();
    cfg.raft.snapshot = snap_config(&snap_dir, ret);
    let cfg = Arc::new(cfg);
    let (itx, irx) = mpsc::unbounded_channel();
    let ctx = RaftContext::<Tc<E, S>> {
        node_id: 1,
        storage: RaftStorageHandles { raft_log: log.clone(), state_machine: sm },
        transport: Arc::new(MockTransport::new()),
        membership: Arc::new(MockMembership::new()),
        handlers: RaftCoreHandlers {
            election_handler: MockElectionCore::new(),
            replication_handler: ReplicationHandler::new(1),
            state_machine_handler: smh,
            purge_executor: Arc::new(DefaultPurgeExecutor::new(log)),
        },
        node_config: cfg.clone(),
    };
    Node { ctx, role: fresh_role(role, cfg), itx, irx }
}

fn obs<T: TypeConfig>(n: &Node<T>, purge_arg: Option<u64>) -> String {
    let log = n.ctx.raft_log();
    let first = log.first_entry_id();
    let bt = if first >= 2 { log.entry_term(first - 1) } else { None };
    let o = |x: Option<u64>| x.map(|v| v.to_string()).unwrap_or("-".into());
    let mut s = format!(
        "{}.{}.{}.{}.{}.{}.{}.{}",
        first,
        log.last_entry_id(),
        o(bt),
        o(n.role.last_purged().map(|l| l.index)),
        o(n.role.scheduled().map(|l| l.index)),
        o(n.ctx.state_machine().snapshot_metadata().and_then(|m| m.last_included).map(|l| l.index)),
        n.ctx.state_machine().last_applied().index,
        n.role.st().commit_index(),
    );
    if let Some(p) = purge_arg {
        s.push_str(&format!(".P{}", p));
    }
    s
}

fn peer2() -> NodeMeta {
    NodeMeta { id: 2, address: "127.0.0.1:9002".into(), role: NodeRole::Follower as i32, status: NodeStatus::Active as i32 }
}

async fn close_node<T: TypeConfig>(n: Node<T>) {
    n.ctx.raft_log().close().await;
    let _ = n.ctx.state_machine().stop();
    n.ctx.state_machine().close_storage();
    drop(n);
}

async fn run_case<E, S, FE, FS>(open_e: FE, open_s: FS, role0: &str, ret: u64, ops: &str, root: &Path) -> String
where
    E: StorageEngine + std::fmt::Debug,
    S: StateMachine + std::fmt::Debug,
    FE: Fn(&Path) -> E,
    FS: Fn(&Path) -> std::pin::Pin<Box<dyn std::future::Future<Output = S>>>,
{
    let edir: PathBuf = root.join("engine");
    let sdir: PathBuf = root.join("sm");
    let mut node = open_node(Arc::new(open_e(&edir)), Arc::new(open_s(&sdir).await), root, ret, role0).await;
    let mut out: Vec<String> = vec![];
    for op in ops.split(';').filter(|s| !s.is_empty()) {
        let (k, rest) = op.split_at(1);
        match k {
            "w" => {
                let a: Vec<u64> = rest.split('.').map(|x| x.parse().unwrap()).collect();
                let start = node.ctx.raft_log().last_entry_id() + 1;
                let entries: Vec<Entry> = (0..a[0])
                    .map(|i| Entry {
                        index: start + i,
                        term: a[1],
                        payload: Some(EntryPayload::command(Bytes::from(
                            WriteCommand::insert(Bytes::from(format!("k{}", (start + i) % 3)), Bytes::from("v")).encode_to_vec(),
                        ))),
                    })
                    .collect();
                node.ctx.raft_log().append_entries(entries).await.expect("append");
                node.ctx.raft_log().flush().await.expect("flush");
                out.push(obs(&node, None));
            }
            "c" => {
                node.role.st_mut().update_commit_index(rest.parse().unwrap()).unwrap();
                out.push(obs(&node, None));
            }
            "a" => {
                let upto: u64 = rest.parse().unwrap();
                let from = node.ctx.state_machine().last_applied().index + 1;
                if upto >= from {
                    let es = node.ctx.raft_log().get_entries_range(from..=upto).expect("range");
                    if !es.is_empty() {
                        node.ctx.state_machine_handler().apply_chunk(es).await.expect("apply");
                    }
                }
                out.push(obs(&node, None));
            }
            "s" => {
                let first_before = node.ctx.raft_log().first_entry_id();
                let res = node.ctx.state_machine_handler().create_snapshot().await;
                let label = res.as_ref().ok().and_then(|(m, _)| m.last_included).map(|l| l.index);
                let _ = node.role.st_mut().handle_snapshot_created(res, &node.ctx, &node.itx).await;
                while let Ok(ev) = node.irx.try_recv() {
                    if let InternalEvent::LogPurgeCompleted(id) = ev {
                        let _ = node.role.st_mut().handle_log_purge_completed(id);
                    }
                }
                // which purge was executed (if any): the boundary that the raft log now reports
                let first_after = node.ctx.raft_log().first_entry_id();
                let purged = if first_after != first_before && first_after >= 1 { Some(first_after - 1) } else { None };
                let _ = label;
                out.push(obs(&node, purged));
            }
            "q" => {
                let a: Vec<u64> = rest.split('.').map(|x| x.parse().unwrap()).collect();
                let lp = if a[0] == 0 { None } else { Some(LogId { index: a[0], term: 1 }) };
                out.push((node.role.can_purge(lp, LogId { index: a[1], term: 1 }) as u8).to_string());
            }
            "t" => {
                let new_role: Role<Tc<E, S>> = match (&node.role, rest) {
                    (Role::L(l), "F") => match l.become_follower().expect("bf") {
                        RaftRole::Follower(f) => Role::F(f),
                        _ => panic!("role"),
                    },
                    (Role::F(f), "L") => match f.become_candidate().expect("bc") {
                        RaftRole::Candidate(c) => match c.become_leader().expect("bl") {
                            RaftRole::Leader(l) => Role::L(l),
                            _ => panic!("role"),
                        },
                        _ => panic!("role"),
                    },
                    (Role::N(n), "F") => match n.become_follower().expect("nbf") {
                        RaftRole::Follower(f) => Role::F(f),
                        _ => panic!("role"),
                    },
                    _ => {
                        out.push("x".into());
                        continue;
                    }
                };
                node.role = new_role;
                out.push(obs(&node, None));
            }
            "r" => {
                close_node(node).await;
                node = open_node(Arc::new(open_e(&edir)), Arc::new(open_s(&sdir).await), root, ret, rest).await;
                out.push(obs(&node, None));
            }
            "p" => {
                let next: u64 = rest.parse().unwrap();
                let mut next_index = std::collections::HashMap::new();
                next_index.insert(2u32, next);
                let cm = ClusterMetadata { single_voter: false, total_voters: 3, replication_targets: vec![peer2()] };
                let res = node
                    .ctx
                    .replication_handler()
                    .prepare_batch_requests(
                        vec![],
                        StateSnapshot {
                            role: NodeRole::Leader as i32,
                            current_term: node.role.st().current_term(),
                            voted_for: None,
                            commit_index: node.role.st().commit_index(),
                        },
                        LeaderStateSnapshot { next_index, match_index: Default::default(), noop_log_id: None },
                        &cm,
                        &node.ctx,
                    )
                    .await
                    .expect("prepare");
                if res.snapshot_targets.contains(&2) {
                    // what execute_and_process_raft_rpc Phase 6 would push
                    match node.ctx.state_machine().snapshot_metadata().and_then(|m| m.last_included) {
                        Some(l) => out.push(format!("S{}", l.index)),
                        None => out.push("S-".into()),
                    }
                } else if let Some((_, req)) = res.append_requests.iter().find(|(id, _)| *id == 2) {
                    out.push(format!("A{}.{}", req.prev_log_index, req.prev_log_term));
                } else {
                    out.push("none".into());
                }
            }
            "u" => {
                // Raft::handle_internal_event(SnapshotPushCompleted{success: true})
                let last = node.ctx.raft_log().last_entry_id();
                let _ = node.role.st_mut().init_peers_next_index_and_match_index(last, vec![2]);
                out.push(node.role.st().next_index(2).map(|x| x.to_string()).unwrap_or("-".into()));
            }
            _ => panic!("bad op {op}"),
        }
    }
    close_node(node).await;
    out.join(";")
}

fn lease() -> Arc<TtlLease> {
    Arc::new(TtlLease::new(d_engine_core::config::LeaseConfig::default()))
}

// ------------------------------------------------------------------------------------------ worker kind
#[derive(Debug, Clone, Copy)]
struct WT;
impl TypeConfig for WT {
    type R = BufferedRaftLog<Self>;
    type SE = d_engine_core::MockStorageEngine;
    type E = MockElectionCore<Self>;
    type TR = MockTransport<Self>;
    type SM = d_engine_core::MockStateMachine;
    type M = MockMembership<Self>;
    type REP = ReplicationHandler<Self>;
    type C = MockCommitHandler;
    type SMH = d_engine_core::MockStateMachineHandler<Self>;
    type SNP = MockSnapshotPolicy;
    type PE = d_engine_core::MockPurgeExecutor;
}

async fn settle() {
    for _ in 0..200 {
        tokio::task::yield_now().await;
    }
}

async fn exec_worker(f: &std::collections::HashMap<String, String>, ops: &str) -> String {
    use d_engine_proto::server::replication::{AppendEntriesRequest, AppendEntriesResponse};
    use std::sync::Mutex;
    let g = |k: &str| -> u64 { f[k].parse().unwrap() };
    let (first, last, next0, base, cap, fail) = (g("first"), g("last"), g("next"), g("base"), g("cap"), g("fail"));
    let snap: Option<u64> = if f["snap"] == "-" { None } else { Some(f["snap"].parse().unwrap()) };
    let storage = Arc::new(d_engine_core::MockStorageEngine::new());
    let (log, _iorx) = BufferedRaftLog::<WT>::new(
        1,
        PersistenceConfig {
            strategy: PersistenceStrategy::MemFirst,
            flush_policy: FlushPolicy::Batch { idle_flush_interval_ms: 1000 },
            max_buffered_entries: 100_000,
        },
        storage,
    );
    let log = Arc::new(log);
    let entries: Vec<Entry> =
        (first..=last).map(|i| Entry { index: i, term: 1, payload: Some(EntryPayload::noop()) }).collect();
    if !entries.is_empty() {
        log.append_entries(entries).await.expect("append");
    }
    let mut sm = d_engine_core::MockStateMachine::new();
    sm.expect_last_applied().return_const(LogId { index: 0, term: 0 });
    sm.expect_is_running().returning(|| true);
    sm.expect_snapshot_metadata().returning(move || {
        snap.map(|i| d_engine_proto::server::storage::SnapshotMetadata {
            last_included: Some(LogId { index: i, term: 1 }),
            checksum: Bytes::from(vec![0u8; 32]),
        })
    });
    let mut membership = MockMembership::<WT>::new();
    membership.expect_voters().returning(|| vec![peer2()]);
    membership.expect_replication_peers().returning(|| vec![peer2()]);
    // transport: records what reaches the peer
    let calls: Arc<Mutex<Vec<String>>> = Arc::new(Mutex::new(vec![]));
    let streams: Arc<Mutex<Vec<mpsc::Receiver<AppendEntriesRequest>>>> = Arc::new(Mutex::new(vec![]));
    let remaining = Arc::new(Mutex::new(fail));
    type AckTx = mpsc::Sender<std::result::Result<AppendEntriesResponse, tonic::Status>>;
    let acks: Arc<Mutex<Vec<AckTx>>> = Arc::new(Mutex::new(vec![]));
    let mut transport = MockTransport::<WT>::new();
    {
        let streams = streams.clone();
        let acks = acks.clone();
        transport.expect_open_replication_stream().returning(move |_, _, _| {
            let (tx, rx) = mpsc::channel(128);
            streams.lock().unwrap().push(rx);
            let (ack_tx, ack_rx) = mpsc::channel::<std::result::Result<AppendEntriesResponse, tonic::Status>>(16);
            acks.lock().unwrap().push(ack_tx);
            Ok(d_engine_core::ReplicationStream {
                sender: tx,
                receiver: Box::pin(tokio_stream::wrappers::ReceiverStream::new(ack_rx)),
            })
        });
    }
    {
        let calls = calls.clone();
        let remaining = remaining.clone();
        transport.expect_send_snapshot().returning(move |p, _, _, _, _| {
            let mut r = remaining.lock().unwrap();
            if *r > 0 {
                *r -= 1;
                calls.lock().unwrap().push("Sf".into());
                Err(d_engine_core::Error::System(d_engine_core::SystemError::Network(
                    d_engine_core::NetworkError::PeerConnectionNotFound(p),
                )))
            } else {
                calls.lock().unwrap().push("Sk".into());
                Ok(())
            }
        });
    }
    let mut cfg = RaftNodeConfig::default();
    cfg.raft.replication.rpc_append_entries_clock_in_ms = 1;
    cfg.retry.install_snapshot.base_delay_ms = base;
    cfg.retry.install_snapshot.push_backoff_max_delay_ms = cap;
    let cfg = Arc::new(cfg);
    let (itx, mut irx) = mpsc::unbounded_channel();
    let ctx = RaftContext::<WT> {
        node_id: 1,
        storage: RaftStorageHandles { raft_log: log, state_machine: Arc::new(sm) },
        transport: Arc::new(transport),
        membership: Arc::new(membership),
        handlers: RaftCoreHandlers {
            election_handler: MockElectionCore::new(),
            replication_handler: ReplicationHandler::new(1),
            state_machine_handler: Arc::new(d_engine_core::MockStateMachineHandler::<WT>::new()),
            purge_executor: Arc::new(d_engine_core::MockPurgeExecutor::new()),
        },
        node_config: cfg.clone(),
    };
    let mut l = LeaderState::<WT>::new(1, cfg.clone());
    l.update_current_term(1);
    l.init_peers_next_index_and_match_index(ctx.raft_log().last_entry_id(), vec![2]).unwrap();
    l.init_cluster_metadata(&ctx.membership()).await.unwrap();
    l.update_next_index(2, next0).unwrap();
    let (etx, _erx) = mpsc::channel::<d_engine_core::InboundEvent>(4);
    let mut out: Vec<String> = vec![];
    for op in ops.split(';').filter(|s| !s.is_empty()) {
        if op == "b" {
            // the peer's ack stream fails: the worker's recv task sets stream_broken and reports PeerStreamError
            let last_ack = acks.lock().unwrap().last().cloned();
            if let Some(a) = last_ack {
                let _ = a.send(Err(tonic::Status::unavailable("stream reset"))).await;
            }
            settle().await;
        } else {
            let dt: u64 = op.strip_prefix('h').expect("op").parse().unwrap();
            tokio::time::advance(std::time::Duration::from_millis(dt)).await;
            let _ = l.tick(&itx, &etx, &ctx).await;
            settle().await;
        }
        // the Raft loop's handling of what the worker reported (raft.rs handle_internal_event)
        while let Ok(ev) = irx.try_recv() {
            if let InternalEvent::PeerStreamError { peer_id } = ev {
                // RaftRole::handle_peer_stream_error
                let m = l.match_index(peer_id).unwrap_or(0);
                let _ = l.update_next_index(peer_id, m + 1);
            } else if let InternalEvent::SnapshotPushCompleted { peer_id, success } = ev {
                if success {
                    let last_id = ctx.raft_log().last_entry_id();
                    let _ = l.init_peers_next_index_and_match_index(last_id, vec![peer_id]);
                }
                l.handle_snapshot_push_completed(peer_id, success, &cfg.retry.install_snapshot, 1);
            }
        }
        let mut round: Vec<String> = calls.lock().unwrap().drain(..).collect();
        for rx in streams.lock().unwrap().iter_mut() {
            while let Ok(req) = rx.try_recv() {
                round.push(format!("A{}", req.prev_log_index));
            }
        }
        let c = if round.is_empty() { "-".to_string() } else { round.join(",") };
        out.push(format!("{}.{}", c, l.next_index(2).unwrap_or(0)));
    }
    out.join(";")
}

async fn exec_async(case: &str) -> String {
    let (hd, ops) = case.split_once('|').expect("case");
    let f = fields(hd);
    if f.get("k").map(|s| s.as_str()) == Some("worker") {
        return exec_worker(&f, ops).await;
    }
    let ret: u64 = f["ret"].parse().unwrap();
    let role = f["role"].clone();
    std::fs::create_dir_all(TMP).unwrap();
    let root = tempfile::tempdir_in(TMP).unwrap();
    match f["eng"].as_str() {
        "file" => {
            run_case(
                |p: &Path| FileStorageEngine::new(p.to_path_buf()).expect("engine"),
                |p: &Path| {
                    let p = p.to_path_buf();
                    Box::pin(async move {
                        let mut sm = FileStateMachine::new(p).await.expect("open sm");
                        sm.set_lease(lease());
                        sm
                    })
                },
                &role,
                ret,
                ops,
                root.path(),
            )
            .await
        }
        _ => {
            run_case(
                |p: &Path| RocksDBStorageEngine::new(p).expect("engine"),
                |p: &Path| {
                    let p = p.to_path_buf();
                    Box::pin(async move {
                        let mut sm = RocksDBStateMachine::new(p).expect("open sm");
                        sm.set_lease(lease());
                        sm
                    })
                },
                &role,
                ret,
                ops,
                root.path(),
            )
            .await
        }
    }
}

fn exec(case: &str) -> String {
    unsafe { std::env::set_var("TMPDIR", TMP) };
    if case.starts_with("k=worker") {
        let rt = tokio::runtime::Builder::new_current_thread().enable_all().start_paused(true).build().unwrap();
        return rt.block_on(exec_async(case));
    }
    let rt = tokio::runtime::Builder::new_multi_thread().worker_threads(2).enable_all().build().unwrap();
    let r = rt.block_on(exec_async(case));
    rt.shutdown_background();
    r
}

// ------------------------------------------------------------------------------------------ generator
fn gen_case(r: &mut Rng, eng: &str) -> String {
    let role = *r.pick(&["L", "L", "F", "N"]);
    let ret = *r.pick(&[1u64, 1, 2, 3, 0, 5]);
    let mut ops: Vec<String> = vec![];
    let mut last = 0u64;
    let mut applied = 0u64;
    let mut commit = 0u64;
    let mut term = 1u64;
    let mut cur_role = role.to_string();
    let n = 3 + r.below(12);
    for _ in 0..n {
        match r.below(16) {
            0..=2 => {
                let k = 1 + r.below(5);
                if r.chance(1, 5) { term += 1; }
                ops.push(format!("w{k}.{term}"));
                last += k;
            }
            3..=4 => {
                // mostly valid: commit within the log, non-decreasing; sometimes beyond / below
                let c = match r.below(8) { 0 => last + 1, 1 => r.below(commit + 1), _ => commit.min(last) + r.below(last.saturating_sub(commit) + 1) };
                ops.push(format!("c{c}"));
                commit = c;
            }
            5..=6 => {
                let hi = commit.min(last);
                if hi > applied {
                    let a = applied + 1 + r.below(hi - applied);
                    ops.push(format!("a{a}"));
                    applied = a;
                }
            }
            7..=9 => ops.push("s".into()),
            10 => ops.push(format!("q{}.{}", r.below(last + 2), r.below(last + 3))),
            11 => {
                let to = match cur_role.as_str() { "L" => "F", "F" => "L", _ => "F" };
                ops.push(format!("t{to}"));
                cur_role = to.to_string();
            }
            12 => {
                let to = *r.pick(&["L", "L", "F", "N"]);
                ops.push(format!("r{to}"));
                cur_role = to.to_string();
                commit = 0;
            }
            13..=14 => {
                if cur_role == "L" {
                    ops.push(format!("p{}", 1 + r.below(last + 2)));
                }
            }
            _ => {
                if cur_role == "L" { ops.push("u".into()); }
            }
        }
    }
    if cur_role == "L" {
        ops.push(format!("p{}", 1 + r.below(last + 2)));
    }
    format!("eng={eng} role={role} ret={ret}|{}", ops.join(";"))
}

/// the canonical life cycle: write, commit, apply, snapshot (purge), probe lagging peers, restart, probe again
fn gen_lifecycle(r: &mut Rng, eng: &str) -> String {
    let ret = 1 + r.below(3);
    let k = 4 + r.below(8);
    let a = 2 + r.below(k - 1);
    let role = *r.pick(&["L", "L", "F"]);
    let mut ops = vec![format!("w{k}.1"), format!("c{k}"), format!("a{a}"), "s".to_string()];
    if role == "F" { ops.push("tL".into()); }
    ops.push(format!("p{}", 1 + r.below(k)));
    if r.chance(2, 3) {
        ops.push("rL".into());
        ops.push(format!("c{k}"));
        ops.push(format!("p{}", 1 + r.below(k)));
        ops.push(format!("p{}", a.saturating_sub(ret) + 1));
    }
    format!("eng={eng} role={role} ret={ret}|{}", ops.join(";"))
}

/// a peer below (or at / above) the purge boundary; snapshot pushes fail `fail` times; heartbeats spaced around the
/// backoff windows
fn gen_worker(r: &mut Rng) -> String {
    let first = 2 + r.below(6);
    let last = first + r.below(5);
    let snap = match r.below(8) { 0 => "-".to_string(), _ => (first - 1 + r.below(2)).to_string() };
    let next = match r.below(5) { 0 => first + r.below(last - first + 2), _ => 1 + r.below(first - 1) };
    let base = *r.pick(&[10u64, 50, 100, 1000]);
    let cap = base * *r.pick(&[1u64, 2, 4, 8, 64]);
    let fail = r.below(5);
    let n = 2 + r.below(10);
    let ops: Vec<String> = (0..n)
        .map(|i| {
            if i > 0 && r.chance(1, 7) {
                "b".to_string()
            } else {
                format!("h{}", match r.below(6) { 0 => 2, 1 => base, 2 => base * 2 + 1, 3 => cap, 4 => cap + 2, _ => 2 + r.below(2 * cap) })
            }
        })
        .collect();
    format!("k=worker first={first} last={last} snap={snap} next={next} base={base} cap={cap} fail={fail}|{}", ops.join(";"))
}

fn generate(r: &mut Rng, n: usize, _tier: &str) -> Vec<String> {
    let mut out = vec![];
    // the worker kind is cheap (no disk): as many again
    for _ in 0..n { out.push(gen_worker(r)); }
    for i in 0..n {
        let eng = if i % 5 == 4 { "rocks" } else { "file" };
        out.push(if i % 3 == 0 { gen_lifecycle(r, eng) } else { gen_case(r, eng) });
    }
    out
}

/// Same protocol as `dv::family_main`; `create_snapshot` and `become_follower` print to stdout, which would corrupt
/// the line protocol: fd 1 is redirected to /dev/null, protocol lines go to a duplicate of the original stdout.
fn family_main_quiet(
    generate: impl Fn(&mut Rng, usize, &str) -> Vec<String>,
    exec: impl Fn(&str) -> String + std::panic::RefUnwindSafe,
) {
    use std::io::{BufRead, Write};
    use std::os::fd::FromRawFd;
    unsafe extern "C" {
        fn dup(fd: i32) -> i32;
        fn dup2(a: i32, b: i32) -> i32;
    }
    let args: Vec<String> = std::env::args().collect();
    let mode = args.get(1).map(|s| s.as_str()).unwrap_or("");
    let cases: Vec<String> = match mode {
        "gen" => {
            let seed: u64 = args.get(2).and_then(|s| s.parse().ok()).unwrap_or(0);
            let n: usize = args.get(3).and_then(|s| s.parse().ok()).unwrap_or(100);
            let tier = args.get(4).map(|s| s.as_str()).unwrap_or("quick");
            let mut r = Rng::new(seed);
            generate(&mut r, n, tier)
        }
        "run" => std::io::stdin().lock().lines().map(|l| l.unwrap()).filter(|l| !l.is_empty()).collect(),
        _ => {
            eprintln!("usage: {} gen <seed> <n> <tier> | run", args[0]);
            std::process::exit(2);
        }
    };
    let out = unsafe {
        let saved = dup(1);
        let null = std::fs::OpenOptions::new().write(true).open("/dev/null").expect("devnull");
        dup2(std::os::fd::AsRawFd::as_raw_fd(&null), 1);
        std::fs::File::from_raw_fd(saved)
    };
    if std::env::var("DV_DEBUG").is_ok() {
        std::panic::set_hook(Box::new(|i| eprintln!("PANIC: {}", i)));
    } else {
        std::panic::set_hook(Box::new(|_| {}));
    }
    let mut w = std::io::BufWriter::new(out);
    for c in cases {
        let o = match std::panic::catch_unwind(|| exec(&c)) {
            Ok(o) => o,
            Err(_) => "panic".to_string(),
        };
        writeln!(w, "{}\t{}", c, o).unwrap();
    }
    w.flush().unwrap();
}

fn main() {
    family_main_quiet(generate, exec);
}
