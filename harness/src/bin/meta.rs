//! Family `meta` (C21): the REAL File / RocksDB meta stores, crash images around `save_hard_state`.
//!
//! Case kinds (one line each):
//!   `eng=file|S;S;...`    every `S` is one `save_hard_state` on a FileMetaStore in a temp dir. The guarded hook
//!                         `verif_crashpoint` (between create / write_all / flush / sync_all of the temp file, the
//!                         rename and the directory fsync of `save_to_file`) images the real directory
//!                         (hard_state.bin and hard_state.bin.tmp) at every crash point; every image (plus every torn
//!                         prefix of the temp file and the "file absent" image) is loaded with the REAL
//!                         `FileMetaStore::new` + `load_hard_state`.
//!   `eng=rocks|S;S;...`   same on the RocksDB meta store: process-crash image = copy of the live DB directory taken
//!                         without drop/flush; torn image = that copy with the tail of the newest WAL file cut.
//!   `eng=dec|<hex>`       arbitrary bytes as `hard_state.bin`, loaded through the real load path (decoder model).
//!   `eng=strace|S;S`      re-executes this binary under strace on `eng=file|S;S` and prints the canonical sequence
//!                         of system calls on the store's directory (checks the modelled op sequence: temp file
//!                         opened with O_TRUNC, written, fsync'ed, renamed over hard_state.bin, directory fsync'ed).
//!   `S` = `<term>/-` | `<term>/<id>/<vterm>/<0|1>`.
use std::cell::RefCell;
use std::path::{Path, PathBuf};
use std::rc::Rc;

use d_engine_core::{HardState, MetaStore, StorageEngine};
use d_engine_proto::server::election::VotedFor;
use d_engine_server::storage::{verif_crashpoint, FileMetaStore};
use d_engine_server::RocksDBStorageEngine;
use dv::{family_main, hex, rng::Rng, unhex};

const TMP: &str = "/verif/target/tmp";

fn parse_hs(s: &str) -> Option<HardState> {
    let p: Vec<&str> = s.split('/').collect();
    match p.as_slice() {
        [t, "-"] => Some(HardState { current_term: t.parse().ok()?, voted_for: None }),
        [t, id, vt, c] => Some(HardState {
            current_term: t.parse().ok()?,
            voted_for: Some(VotedFor {
                voted_for_id: id.parse().ok()?,
                voted_for_term: vt.parse().ok()?,
                committed: match *c { "0" => false, "1" => true, _ => return None },
            }),
        }),
        _ => None,
    }
}

fn show_hs(h: &Option<HardState>) -> String {
    match h {
        None => "none".into(),
        Some(h) => match &h.voted_for {
            None => format!("{}/-", h.current_term),
            Some(v) => format!("{}/{}/{}/{}", h.current_term, v.voted_for_id, v.voted_for_term, v.committed as u8),
        },
    }
}

/// Load a directory image (main = hard_state.bin, tmp = hard_state.bin.tmp; None = absent) with the real
/// FileMetaStore constructor + load_hard_state.
fn real_dir_load(main: Option<&[u8]>, tmp: Option<&[u8]>) -> String {
    // one scratch directory per process, reset for every image (each load is a fresh FileMetaStore::new)
    thread_local! { static DIR: tempfile::TempDir = tempfile::tempdir_in(TMP).unwrap(); }
    let dir: PathBuf = DIR.with(|d| d.path().to_path_buf());
    for (name, img) in [("hard_state.bin", main), ("hard_state.bin.tmp", tmp)] {
        let f = dir.join(name);
        let _ = std::fs::remove_file(&f);
        if let Some(b) = img { std::fs::write(&f, b).unwrap(); }
    }
    match FileMetaStore::new(dir) {
        Err(_) => "open-err".into(),
        Ok(s) => match s.load_hard_state() {
            Ok(h) => show_hs(&h),
            Err(_) => "load-err".into(),
        },
    }
}
fn real_file_load(img: Option<&[u8]>) -> String { real_dir_load(img, None) }

fn rle(xs: &[String]) -> String {
    if xs.is_empty() { return "-".into(); }
    let mut out: Vec<String> = vec![];
    let mut i = 0;
    while i < xs.len() {
        let mut j = i;
        while j < xs.len() && xs[j] == xs[i] { j += 1; }
        out.push(format!("{}*{}", xs[i], j - i));
        i = j;
    }
    out.join("+")
}

fn flen(b: &Option<Vec<u8>>) -> i64 { b.as_ref().map(|b| b.len() as i64).unwrap_or(-1) }

fn exec_file(ops: &str) -> String {
    let d = tempfile::tempdir_in(TMP).unwrap();
    let dir = d.path().to_path_buf();
    let store = match FileMetaStore::new(dir.clone()) { Ok(s) => s, Err(_) => return "open-err".into() };
    let (file, tmpf) = (dir.join("hard_state.bin"), dir.join("hard_state.bin.tmp"));
    let mut outs = vec![format!("absent:{}", real_file_load(None)), format!("init:{}", show_hs(&store.load_hard_state().ok().flatten()))];
    for s in ops.split(';').filter(|s| !s.is_empty()) {
        let Some(hs) = parse_hs(s) else { return "bad-case".into() };
        let before = std::fs::read(&file).ok();
        // crash-point images of the directory, taken at the real points
        type Img = (String, Option<Vec<u8>>, Option<Vec<u8>>);
        let images: Rc<RefCell<Vec<Img>>> = Rc::new(RefCell::new(vec![]));
        let (im2, f2, t2) = (images.clone(), file.clone(), tmpf.clone());
        verif_crashpoint::set(Some(Box::new(move |name: &'static str| {
            im2.borrow_mut().push((name.to_string(), std::fs::read(&f2).ok(), std::fs::read(&t2).ok()));
        })));
        let r = store.save_hard_state(&hs);
        verif_crashpoint::set(None);
        if r.is_err() { outs.push("save-err".into()); continue; }
        let mut parts = vec![];
        let mut written: Vec<u8> = vec![];
        for (name, main, tmp) in images.borrow().iter() {
            let short = name.strip_prefix("meta:").unwrap_or(name);
            parts.push(format!("{}:{}/{}:{}", short, flen(main), flen(tmp), real_dir_load(main.as_deref(), tmp.as_deref())));
            if short == "written" { written = tmp.clone().unwrap_or_default(); }
        }
        // image after return (process crash after save returned) and the live answer
        let (after, after_tmp) = (std::fs::read(&file).ok(), std::fs::read(&tmpf).ok());
        parts.push(format!("ret:{}/{}:{}", flen(&after), flen(&after_tmp), real_dir_load(after.as_deref(), after_tmp.as_deref())));
        parts.push(format!("live:{}", show_hs(&store.load_hard_state().ok().flatten())));
        // torn write of the temp file: hard_state.bin as before the save + every proper prefix of the bytes written
        let torn: Vec<String> = (0..written.len()).map(|j| real_dir_load(before.as_deref(), Some(&written[..j]))).collect();
        parts.push(format!("torn:{}", rle(&torn)));
        parts.push(format!("bytes:{}", hex(&written)));
        outs.push(parts.join(","));
    }
    outs.join(";")
}

fn copy_dir(src: &Path, dst: &Path) {
    std::fs::create_dir_all(dst).unwrap();
    for e in std::fs::read_dir(src).unwrap() {
        let e = e.unwrap();
        let p = e.path();
        let t = dst.join(e.file_name());
        if p.is_dir() { copy_dir(&p, &t); } else if e.file_name() != "LOCK" { std::fs::copy(&p, &t).unwrap(); }
    }
}

fn rocks_load(dir: &Path) -> String {
    match RocksDBStorageEngine::new(dir) {
        Err(_) => "open-err".into(),
        Ok(e) => match e.meta_store().load_hard_state() {
            Ok(h) => show_hs(&h),
            Err(_) => "load-err".into(),
        },
    }
}

fn newest_wal(dir: &Path) -> Option<PathBuf> {
    let mut logs: Vec<PathBuf> = std::fs::read_dir(dir).ok()?.filter_map(|e| e.ok()).map(|e| e.path())
        .filter(|p| p.extension().map(|x| x == "log").unwrap_or(false)).collect();
    logs.sort();
    logs.pop()
}

fn exec_rocks(ops: &str) -> String {
    let d = tempfile::tempdir_in(TMP).unwrap();
    let live = d.path().join("live");
    let eng = match RocksDBStorageEngine::new(&live) { Ok(e) => e, Err(_) => return "open-err".into() };
    let meta = eng.meta_store();
    let mut outs = vec![format!("init:{}", show_hs(&meta.load_hard_state().ok().flatten()))];
    let mut k = 0;
    for s in ops.split(';').filter(|s| !s.is_empty()) {
        let Some(hs) = parse_hs(s) else { return "bad-case".into() };
        k += 1;
        let wal_before = newest_wal(&live).and_then(|p| std::fs::metadata(p).ok()).map(|m| m.len()).unwrap_or(0);
        if meta.save_hard_state(&hs).is_err() { outs.push("save-err".into()); continue; }
        let wal_after = newest_wal(&live).and_then(|p| std::fs::metadata(p).ok()).map(|m| m.len()).unwrap_or(0);
        let mut parts = vec![format!("live:{}", show_hs(&meta.load_hard_state().ok().flatten()))];
        // process crash after save returned: what the OS holds now, no drop, no flush
        let img = d.path().join(format!("img{k}"));
        copy_dir(&live, &img);
        parts.push(format!("ret:{}", rocks_load(&img)));
        // torn WAL tail (power loss inside the unsynced append): cut the last byte / the whole new record
        let rec = wal_after.saturating_sub(wal_before);
        let mut torn = vec![];
        for cut in [1u64, rec] {
            if cut == 0 || cut > rec { continue; }
            let t = d.path().join(format!("torn{k}_{cut}"));
            copy_dir(&live, &t);
            if let Some(w) = newest_wal(&t) {
                let f = std::fs::OpenOptions::new().write(true).open(&w).unwrap();
                f.set_len(wal_after - cut).unwrap();
            }
            torn.push(rocks_load(&t));
        }
        parts.push(format!("torn:{}", rle(&torn)));
        outs.push(parts.join(","));
    }
    outs.join(";")
}

/// Canonical list of syscalls on hard_state.bin issued by the real save path (child runs `eng=file|…`).
fn exec_strace(ops: &str) -> String {
    let d = tempfile::tempdir_in(TMP).unwrap();
    let tr = d.path().join("trace.txt");
    let exe = std::env::current_exe().unwrap();
    let mut child = match std::process::Command::new("strace")
        .args(["-f", "-y", "-e", "trace=openat,write,pwrite64,writev,ftruncate,truncate,fsync,fdatasync,sync_file_range,rename,renameat,renameat2,unlink,unlinkat", "-o"])
        .arg(&tr).arg(&exe).arg("run")
        .env("DV_STRACED_DIR", d.path())   // the child works (and leaves its files) inside this temp dir
        .stdin(std::process::Stdio::piped()).stdout(std::process::Stdio::null()).stderr(std::process::Stdio::null())
        .spawn() { Ok(c) => c, Err(_) => return "strace-unavailable".into() };
    {
        use std::io::Write;
        let mut si = child.stdin.take().unwrap();
        writeln!(si, "eng=straced|{ops}").unwrap();
    }
    let _ = child.wait();
    let text = std::fs::read_to_string(&tr).unwrap_or_default();
    // which object of the store's directory a path names
    fn obj(path: &str) -> &'static str {
        if path.ends_with("hard_state.bin.tmp") { "tmp" } else if path.ends_with("hard_state.bin") { "main" }
        else if path.ends_with("straced-live") { "dir" } else { "other" }
    }
    fn paths(l: &str) -> Vec<String> {
        // quoted path arguments and `fd</path>` annotations (strace -y)
        let mut out = vec![];
        let b = l.as_bytes();
        let mut i = 0;
        while i < b.len() {
            let close = match b[i] { b'"' => b'"', b'<' => b'>', _ => { i += 1; continue; } };
            if let Some(j) = l[i + 1..].find(close as char) {
                let p = &l[i + 1..i + 1 + j];
                if p.contains("straced-live") { out.push(p.to_string()); }
                i += j + 2;
            } else { break; }
        }
        out
    }
    let mut out = vec![];
    for l in text.lines() {
        if !l.contains("straced-live") || l.contains("resumed>") { continue; }
        let l = l.splitn(2, ' ').nth(1).unwrap_or(l).trim();
        let name = l.split('(').next().unwrap_or("");
        let ps = paths(l);
        let first = ps.first().map(|p| obj(p)).unwrap_or("other");
        let item = match name {
            "openat" => {
                let mut flags: Vec<&str> = vec![];
                for f in ["O_RDONLY", "O_WRONLY", "O_RDWR", "O_CREAT", "O_TRUNC", "O_APPEND", "O_SYNC", "O_DSYNC"] {
                    if l.contains(f) { flags.push(&f[2..]); }
                }
                format!("open:{}[{}]", first, flags.join("+").to_lowercase())
            }
            "write" | "pwrite64" | "writev" => {
                let n = l.rsplit("= ").next().unwrap_or("?").trim();
                format!("{name}:{first}[{n}]")
            }
            "rename" | "renameat" | "renameat2" => format!("rename:{}>{}", first, ps.get(1).map(|p| obj(p)).unwrap_or("other")),
            other => format!("{other}:{first}"),
        };
        out.push(item);
    }
    if out.is_empty() { "no-trace".into() } else { out.join(",") }
}

/// Child side of `eng=strace`: the same saves on a store whose directory has a recognisable name; no image reloads.
fn exec_straced(ops: &str) -> String {
    let Some(base) = std::env::var_os("DV_STRACED_DIR") else { return "bad-case".into() };
    let dir = PathBuf::from(base).join("straced-live");
    let store = match FileMetaStore::new(dir) { Ok(s) => s, Err(_) => return "open-err".into() };
    for s in ops.split(';').filter(|s| !s.is_empty()) {
        if let Some(hs) = parse_hs(s) { let _ = store.save_hard_state(&hs); }
    }
    "done".into()
}

fn exec(case: &str) -> String {
    let Some((head, ops)) = case.split_once('|') else { return "bad-case".into() };
    std::fs::create_dir_all(TMP).ok();
    match head {
        "eng=file" => exec_file(ops),
        "eng=rocks" => exec_rocks(ops),
        "eng=dec" => real_file_load(Some(&unhex(ops))),
        "eng=strace" => exec_strace(ops),
        "eng=straced" => exec_straced(ops),
        _ => "bad-case".into(),
    }
}

fn gen_hs(r: &mut Rng) -> String {
    let b64 = [0u64, 1, 2, 3, 255, 256, 65535, 1 << 32, (1 << 32) + 1, u64::MAX - 1, u64::MAX, 0x0101010101010101];
    let term = if r.chance(1, 2) { r.below(6) } else { *r.pick(&b64) };
    if r.chance(2, 5) { return format!("{term}/-"); }
    let b32 = [0u64, 1, 2, 3, 255, 256, 65536, u32::MAX as u64, 0x01000001];
    let id = if r.chance(1, 2) { 1 + r.below(5) } else { *r.pick(&b32) };
    let vt = if r.chance(2, 3) { term } else { *r.pick(&b64) };
    format!("{term}/{id}/{vt}/{}", r.below(2))
}

fn encode(s: &str) -> Vec<u8> { bincode::serialize(&parse_hs(s).unwrap()).unwrap() }

fn generate(r: &mut Rng, n: usize, tier: &str) -> Vec<String> {
    let mut out = vec![
        "eng=file|1/-".to_string(),
        "eng=file|1/-;2/3/2/1".to_string(),
        "eng=strace|1/-;2/3/2/1".to_string(),
        "eng=rocks|1/-;2/3/2/1".to_string(),
        "eng=dec|-".to_string(),
    ];
    let rocks_every = if tier == "thorough" { 150 } else { 100 };   // opening RocksDB costs ~0.3 s
    for i in 0..n {
        let k = 1 + r.below(4) as usize;
        let saves: Vec<String> = (0..k).map(|_| gen_hs(r)).collect();
        if i % rocks_every == rocks_every - 1 {
            // opening RocksDB is slow (3 reopens per save): at most 2 saves per case
            out.push(format!("eng=rocks|{}", saves[..saves.len().min(2)].join(";")));
        } else if i % 97 == 50 {
            out.push(format!("eng=strace|{}", saves.join(";")));
        } else if i % 3 == 2 {
            // malformed stream for the decoder: valid encodings mutated / truncated / extended / mixed
            let mut b = encode(&saves[0]);
            match r.below(7) {
                0 => { let j = r.below(b.len() as u64 + 1) as usize; b.truncate(j); }
                1 => { let j = r.below(b.len() as u64) as usize; b[j] = *r.pick(&[0u8, 1, 2, 255]); }
                2 => { for _ in 0..=r.below(4) { b.push(r.below(256) as u8); } }
                3 => { let o = encode(&gen_hs(r)); let j = r.below(b.len() as u64 + 1) as usize; b.truncate(j); b.extend_from_slice(&o[j.min(o.len())..]); }
                4 => { b = (0..r.below(30)).map(|_| *r.pick(&[0u8, 1, 1, 0, 2, 255])).collect(); }
                5 => { b[8] = *r.pick(&[0u8, 1, 2, 255]); }
                _ => { if b.len() == 22 { b[21] = *r.pick(&[0u8, 1, 2, 255]); } }
            }
            out.push(format!("eng=dec|{}", hex(&b)));
        } else {
            out.push(format!("eng=file|{}", saves.join(";")));
        }
    }
    out
}

fn main() { family_main(generate, exec); }
