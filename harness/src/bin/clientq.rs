//! Family `clientq` (C29, C14, C30, C11): a REAL `LeaderState` driven event by event.
//!
//! World: real `BufferedRaftLog` (IO thread not started: in-memory log, the part the leader reads), real
//! `ReplicationHandler` (`prepare_batch_requests` / `generate_new_entries` / `pre_allocate_id_range`), mock
//! membership / transport, and a simulated state machine owned by this harness (lag-controllable: it applies only
//! on `ap<k>` events; `last_applied()` and `read_from_state_machine` read it).
//! Real functions called: `push_client_cmd`, `flush_cmd_buffers` (→ `process_batch` /
//! `unified_write_and_linear_read` / `execute_and_process_raft_rpc` / `process_lease_read`), `tick`,
//! `handle_append_result`, `handle_log_flushed`, `handle_apply_completed`, `drain_read_buffer`,
//! `handle_inbound_event(JoinCluster | FatalError)`, `initiate_noop_commit` (hook); the exit events `sd` / `fx` run through
//! the unchanged raft.rs `Raft::handle_internal_event(BecomeFollower | FatalError)` with the leader wrapped in a real
//! `Raft` (drain_read_buffer + become_follower + role replacement = drop of the LeaderState); for role=follower
//! `RaftRoleState::push_client_cmd` on a real `FollowerState`.
//! Every request gets a oneshot sender whose receiver is polled after every event (answer / dropped / nothing).
//! Logical clock: tokio paused time + `verif_clock` (now_ms) advanced together by `t<ms>` events.
use std::collections::BTreeMap;
use std::sync::{Arc, Mutex};
use std::time::Duration;

use bytes::Bytes;
use d_engine_core::client::{
    ClientReadRequest, ClientResponse, ClientResponsePayload, ClientWriteRequest, ErrorCode, KvEntry, WriteOperation,
};
use d_engine_core::config::ReadConsistencyPolicy as Pol;
use d_engine_core::follower_state::FollowerState;
use d_engine_core::leader_state::LeaderState;
use d_engine_core::read_lease::verif_clock;
use d_engine_core::role_state::RaftRoleState;
use d_engine_core::{
    now_ms, ApplyResult, BufferedRaftLog, ClientCmd, FlushPolicy, InboundEvent, InternalEvent, MaybeCloneOneshot,
    MaybeCloneOneshotReceiver, MockCommitHandler, MockElectionCore, MockMembership, MockPurgeExecutor,
    MockSnapshotPolicy, MockStateMachine, MockStateMachineHandler, MockStorageEngine, MockTransport,
    PersistenceConfig, PersistenceStrategy, RaftContext, RaftCoreHandlers, RaftLog, RaftNodeConfig, RaftOneshot,
    RaftStorageHandles, ReadLease, ReplicationHandler, ScanResult, TypeConfig, Raft, RaftRole, SignalParams,
};
use d_engine_proto::client::write_command::Operation;
use d_engine_proto::client::WriteCommand;
use d_engine_proto::common::entry_payload::Payload;
use d_engine_proto::common::{Entry, EntryPayload, LogId, NodeRole, NodeStatus};
use d_engine_proto::server::cluster::{ClusterMembership, JoinRequest, JoinResponse, NodeMeta};
use d_engine_proto::server::replication::{
    append_entries_response, AppendEntriesResponse, ConflictResult, SuccessResult,
};
use dv::{fields, rng::Rng};
use prost::Message;
use tokio::sync::broadcast::error::TryRecvError;
use tokio::sync::mpsc;
use tonic::Status;

#[derive(Debug, Clone, Copy)]
struct QT;
impl TypeConfig for QT {
    type SE = MockStorageEngine;
    type SM = MockStateMachine;
    type R = BufferedRaftLog<QT>;
    type M = MockMembership<QT>;
    type TR = MockTransport<QT>;
    type E = MockElectionCore<QT>;
    type REP = ReplicationHandler<QT>;
    type C = MockCommitHandler;
    type SMH = MockStateMachineHandler<QT>;
    type SNP = MockSnapshotPolicy;
    type PE = MockPurgeExecutor;
}

#[derive(Default)]
struct Sim {
    applied: u64,
    kv: u64,
}

fn node_meta(id: u32) -> NodeMeta {
    NodeMeta { id, address: format!("127.0.0.1:{}", 9000 + id), role: NodeRole::Follower as i32, status: NodeStatus::Active as i32 }
}

struct World {
    ctx: RaftContext<QT>,
    itx: mpsc::UnboundedSender<InternalEvent>,
    _irx: mpsc::UnboundedReceiver<InternalEvent>,
    _iorx: mpsc::UnboundedReceiver<d_engine_core::IOTask>,
    sim: Arc<Mutex<Sim>>,
}

async fn world(n: u32, pre: u64, trunc: u64, cfg: RaftNodeConfig) -> World {
    let storage = Arc::new(MockStorageEngine::new());
    let (log, iorx) = BufferedRaftLog::<QT>::new(
        1,
        PersistenceConfig {
            strategy: PersistenceStrategy::MemFirst,
            flush_policy: FlushPolicy::Batch { idle_flush_interval_ms: 1000 },
            max_buffered_entries: 100_000,
        },
        storage,
    );
    // The IO thread is started only for the F7 regression shape (the conflict path waits for the IO task);
    // otherwise entries live in the in-memory log only (that is what the leader reads).
    let (log, iorx) = if trunc > 0 && pre >= 2 {
        let (_tx, dummy) = mpsc::unbounded_channel::<d_engine_core::IOTask>();
        (log.start(iorx, None), dummy)
    } else {
        (Arc::new(log), iorx)
    };
    if trunc > 0 && pre >= 2 {
        // F7 regression shape: the node was a follower holding pre+trunc entries (term 0) and a conflicting
        // AppendEntries truncated the suffix from index `pre` (real `filter_out_conflicts_and_append`); the log it
        // then leads with is 1..=pre. Before fix 1bbcfa6 `next_id` stayed at pre+trunc+1.
        let entries: Vec<Entry> = (1..=pre + trunc).map(|i| Entry { index: i, term: 0, payload: Some(EntryPayload::noop()) }).collect();
        log.append_entries(entries).await.expect("append");
        log.filter_out_conflicts_and_append(pre - 1, 0, vec![Entry { index: pre, term: 1, payload: Some(EntryPayload::noop()) }])
            .await
            .expect("conflict append");
    } else {
        let entries: Vec<Entry> = (1..=pre).map(|i| Entry { index: i, term: 1, payload: Some(EntryPayload::noop()) }).collect();
        if !entries.is_empty() {
            log.append_entries(entries).await.expect("append");
        }
    }
    let sim = Arc::new(Mutex::new(Sim { applied: pre, kv: 0 }));
    let mut sm = MockStateMachine::new();
    let s1 = sim.clone();
    sm.expect_last_applied().returning(move || LogId { index: s1.lock().unwrap().applied, term: 0 });
    sm.expect_is_running().returning(|| true);
    sm.expect_snapshot_metadata().returning(|| None);
    let s2 = sim.clone();
    sm.expect_scan_prefix().returning(move |_| Ok(ScanResult { entries: vec![], revision: s2.lock().unwrap().applied }));
    let mut smh = MockStateMachineHandler::<QT>::new();
    let s3 = sim.clone();
    smh.expect_read_from_state_machine().returning(move |_keys| {
        let g = s3.lock().unwrap();
        Some(vec![KvEntry { key: Bytes::from_static(b"k"), value: Bytes::from(format!("{}@{}", g.kv, g.applied)) }])
    });
    smh.expect_should_snapshot().returning(|_| false);
    smh.expect_get_latest_snapshot_metadata().returning(|| None);
    smh.expect_update_pending().returning(|_| {});
    let mut membership = MockMembership::<QT>::new();
    membership.expect_voters().returning(move || (2..=n).map(node_meta).collect());
    membership.expect_replication_peers().returning(move || (2..=n).map(node_meta).collect());
    membership.expect_get_cluster_conf_version().returning(|| 1);
    membership.expect_contains_node().returning(move |id| id >= 1 && id <= n);
    membership.expect_can_rejoin().returning(|_, _| Ok(()));
    membership
        .expect_retrieve_cluster_membership_config()
        .returning(|_| ClusterMembership { version: 1, nodes: vec![], current_leader_id: None });
    let mut transport = MockTransport::<QT>::new();
    transport.expect_open_replication_stream().returning(|_, _, _| {
        Err(d_engine_core::Error::System(d_engine_core::SystemError::Network(
            d_engine_core::NetworkError::PeerConnectionNotFound(0),
        )))
    });
    let (itx, irx) = mpsc::unbounded_channel();
    let ctx = RaftContext::<QT> {
        node_id: 1,
        storage: RaftStorageHandles { raft_log: log, state_machine: Arc::new(sm) },
        transport: Arc::new(transport),
        membership: Arc::new(membership),
        handlers: RaftCoreHandlers {
            election_handler: MockElectionCore::new(),
            replication_handler: ReplicationHandler::new(1),
            state_machine_handler: Arc::new(smh),
            purge_executor: Arc::new(MockPurgeExecutor::new()),
        },
        node_config: Arc::new(cfg),
    };
    World { ctx, itx, _irx: irx, _iorx: iorx, sim }
}


/// Wrap the leader in a real `Raft` (same log / state machine / membership / handlers) so that the exit events run
/// through the unchanged `Raft::handle_internal_event` of raft.rs.
fn wrap_in_raft(l: LeaderState<QT>, ctx: &RaftContext<QT>) -> Raft<QT> {
    let (itx, irx) = mpsc::unbounded_channel();
    let (etx, erx) = mpsc::channel(16);
    let (ctx_tx, ctx_rx) = mpsc::channel(16);
    let (_sd_tx, sd_rx) = tokio::sync::watch::channel(());
    let mut transport = MockTransport::<QT>::new();
    transport.expect_open_replication_stream().returning(|_, _, _| {
        Err(d_engine_core::Error::System(d_engine_core::SystemError::Network(
            d_engine_core::NetworkError::PeerConnectionNotFound(0),
        )))
    });
    Raft::<QT>::new(
        1,
        RaftRole::Leader(Box::new(l)),
        RaftStorageHandles { raft_log: ctx.storage.raft_log.clone(), state_machine: ctx.storage.state_machine.clone() },
        transport,
        RaftCoreHandlers {
            election_handler: MockElectionCore::new(),
            replication_handler: ReplicationHandler::new(1),
            state_machine_handler: ctx.handlers.state_machine_handler.clone(),
            purge_executor: ctx.handlers.purge_executor.clone(),
        },
        ctx.membership.clone(),
        SignalParams::new(itx, irx, etx, erx, ctx_tx, ctx_rx, sd_rx),
        ctx.node_config.clone(),
    )
}

type RespRx = MaybeCloneOneshotReceiver<Result<ClientResponse, Status>>;
enum Rx {
    Client(RespRx),
    Scan(MaybeCloneOneshotReceiver<Result<ScanResult, Status>>),
    Join(MaybeCloneOneshotReceiver<Result<JoinResponse, Status>>),
}

fn class_status(st: &Status) -> String {
    match st.code() {
        tonic::Code::ResourceExhausted => "exhausted".into(),
        tonic::Code::InvalidArgument => "empty".into(),
        tonic::Code::FailedPrecondition if st.message() == "Not leader" => "notleader".into(),
        tonic::Code::FailedPrecondition if st.message().contains("already been added") => "joinexists".into(),
        tonic::Code::DeadlineExceeded => "deadline".into(),
        tonic::Code::Internal if st.message().starts_with("Node fatal error") => "fatal".into(),
        tonic::Code::Unavailable if st.message() == "Leader stepped down" => "stepdown".into(),
        tonic::Code::Unavailable if st.message().starts_with("LeaderNotReady") => "notready".into(),
        c => format!("status-{:?}", c),
    }
}

fn class_resp(r: &ClientResponse) -> String {
    match (&r.error, &r.result) {
        (ErrorCode::Success, Some(ClientResponsePayload::Write(w))) => if w.succeeded { "ok".into() } else { "casfail".into() },
        (ErrorCode::Success, Some(ClientResponsePayload::Read(rr))) => match rr.entries.first() {
            Some(e) => format!("val{}", String::from_utf8_lossy(&e.value)),
            None => "val-none".into(),
        },
        (ErrorCode::ProposeFailed, _) => "proposefailed".into(),
        (ErrorCode::TermOutdated, _) => "termoutdated".into(),
        (ErrorCode::NotLeader, _) => "notleader".into(),
        (e, _) => format!("err-{:?}", e),
    }
}

/// Poll one receiver: `Some(answer)` once, `None` while nothing happened.
fn poll(rx: &mut Rx) -> Option<String> {
    macro_rules! go {
        ($r:expr, $ok:expr) => {
            match $r.try_recv() {
                Ok(Ok(v)) => Some($ok(&v)),
                Ok(Err(st)) => Some(class_status(&st)),
                Err(TryRecvError::Empty) => None,
                Err(TryRecvError::Closed) => Some("dropped".to_string()),
                Err(TryRecvError::Lagged(_)) => Some("answered-twice".to_string()),
            }
        };
    }
    match rx {
        Rx::Client(r) => go!(r, class_resp),
        Rx::Scan(r) => go!(r, |_v: &ScanResult| "scanok".to_string()),
        Rx::Join(r) => go!(r, |v: &JoinResponse| if v.success { "joinok".to_string() } else { "joinfail".to_string() }),
    }
}

fn wop(op: &str, id: u64) -> Option<Option<WriteOperation>> {
    let key = Bytes::from(format!("k#{}", id));
    let val = |v: u64| Bytes::from(v.to_string());
    if op == "we" {
        Some(None)
    } else if op == "wd" {
        Some(Some(WriteOperation::Delete { key }))
    } else if let Some(v) = op.strip_prefix("wp") {
        Some(Some(WriteOperation::Insert { key, value: val(v.parse().ok()?), ttl_secs: None }))
    } else if let Some(a) = op.strip_prefix("wc") {
        let v: Vec<u64> = a.split('.').map(|x| x.parse().ok()).collect::<Option<Vec<_>>>()?;
        if v.len() != 2 { return None; }
        Some(Some(WriteOperation::CompareAndSwap { key, expected: if v[0] == 0 { None } else { Some(val(v[0])) }, new_value: val(v[1]) }))
    } else {
        None
    }
}

/// Decode one log entry into the model's notation; for writes also (id, op) for the simulated state machine.
enum Dec { Old, Noop, Conf, Put(u64, u64), Del(u64), Cas(u64, u64, u64), Bad }
fn decode(e: &Entry) -> Dec {
    let num = |b: &[u8]| std::str::from_utf8(b).ok().and_then(|s| s.parse::<u64>().ok());
    let idof = |k: &[u8]| std::str::from_utf8(k).ok().and_then(|s| s.strip_prefix("k#")).and_then(|s| s.parse::<u64>().ok());
    match e.payload.as_ref().and_then(|p| p.payload.as_ref()) {
        Some(Payload::Noop(_)) => if e.term < 2 { Dec::Old } else { Dec::Noop },
        Some(Payload::Config(_)) => Dec::Conf,
        Some(Payload::Command(b)) => match WriteCommand::decode(&b[..]).ok().and_then(|w| w.operation) {
            Some(Operation::Insert(i)) => match (idof(&i.key), num(&i.value)) { (Some(id), Some(v)) => Dec::Put(id, v), _ => Dec::Bad },
            Some(Operation::Delete(d)) => match idof(&d.key) { Some(id) => Dec::Del(id), _ => Dec::Bad },
            Some(Operation::CompareAndSwap(c)) => {
                let exp = match &c.expected_value { Some(b) => num(b), None => Some(0) };
                match (idof(&c.key), exp, num(&c.new_value)) { (Some(id), Some(e), Some(n)) => Dec::Cas(id, e, n), _ => Dec::Bad }
            }
            None => Dec::Bad,
        },
        None => Dec::Bad,
    }
}
fn show_dec(d: &Dec) -> String {
    match d {
        Dec::Old => "o".into(), Dec::Noop => "n".into(), Dec::Conf => "c".into(),
        Dec::Put(id, v) => format!("w{}p{}", id, v), Dec::Del(id) => format!("w{}d", id),
        Dec::Cas(id, e, n) => format!("w{}c{}.{}", id, e, n), Dec::Bad => "bad".into(),
    }
}

fn lst(v: Vec<String>) -> String { if v.is_empty() { "-".into() } else { v.join(",") } }

fn success(peer: u32, term: u64, m: u64) -> AppendEntriesResponse {
    AppendEntriesResponse {
        node_id: peer,
        term,
        result: Some(append_entries_response::Result::Success(SuccessResult { last_match: Some(LogId { term, index: m }) })),
    }
}

async fn run_case(f: &std::collections::HashMap<String, String>, ops: &str) -> String {
    let g = |k: &str| -> u64 { f.get(k).and_then(|s| s.parse().ok()).unwrap_or(0) };
    let leader_role = f.get("role").map(|s| s == "leader").unwrap_or(true);
    let n = g("n") as u32;
    if n == 0 { return "bad-case".into(); }
    let pre = g("pre");
    let mut cfg = RaftNodeConfig::default();
    cfg.raft.backpressure.max_pending_writes = g("maxw") as usize;
    cfg.raft.backpressure.max_pending_reads = g("maxr") as usize;
    cfg.raft.general_raft_timeout_duration_in_ms = g("T");
    cfg.raft.membership.verify_leadership_persistent_timeout = Duration::from_millis(g("PT"));
    cfg.raft.read_consistency.lease_duration_ms = g("lease");
    cfg.raft.read_consistency.allow_client_override = true;
    cfg.raft.read_consistency.default_policy = Pol::LinearizableRead;
    cfg.raft.replication.rpc_append_entries_clock_in_ms = g("hb");
    cfg.raft.snapshot.enable = false;
    cfg.raft.metrics.enable_backpressure = false;
    cfg.raft.metrics.enable_batch = false;
    verif_clock::set(Some(0));
    let mut clock: u64 = 0;
    let mut w = world(n, pre, g("trunc"), cfg).await;
    let ctx = &w.ctx;
    let (etx, _erx) = mpsc::channel::<InboundEvent>(16);

    let mut leader: Option<LeaderState<QT>> = None;
    let mut follower: Option<FollowerState<QT>> = None;
    let lease: Arc<ReadLease>;
    if leader_role {
        let mut l = LeaderState::<QT>::new(1, ctx.node_config.clone());
        l.update_current_term(2);
        l.update_commit_index(pre).unwrap();
        // what Raft::handle_internal_event(BecomeLeader) does before the noop
        l.init_peers_next_index_and_match_index(ctx.raft_log().last_entry_id(), (2..=n).collect()).unwrap();
        l.init_cluster_metadata(&ctx.membership).await.unwrap();
        lease = l.shared_state.lease.clone();
        leader = Some(l);
    } else {
        let fl = FollowerState::<QT>::new(1, ctx.node_config.clone(), None, Some(pre));
        lease = fl.shared_state().lease.clone();
        follower = Some(fl);
    }
    let mut term: u64 = 2;
    let mut commit: u64 = pre;
    let mut halted = false;
    let mut want_sd = false;
    let mut rxs: BTreeMap<u64, Rx> = BTreeMap::new();
    let mut next_id: u64 = 0;
    let mut out: Vec<String> = vec![];
    let mut last_noop: Option<u64> = None;
    let mut rafts: Vec<Raft<QT>> = vec![];
    let mut last_image: Option<(d_engine_core::leader_state::VerifLeaderQueues, d_engine_core::leader_state::VerifLeaderDeadlines)> = None;

    for op in ops.split(';').filter(|s| !s.is_empty()) {
        let dead = halted || (leader_role && leader.is_none());
        if !dead {
            if let Some(fl) = follower.as_mut() {
                // follower: only push events mean anything
                if op.starts_with('w') {
                    if let Some(cmd) = wop(op, next_id) {
                        let (tx, rx) = MaybeCloneOneshot::new();
                        fl.push_client_cmd(ClientCmd::Propose(ClientWriteRequest { client_id: 1, command: cmd }, tx), ctx);
                        rxs.insert(next_id, Rx::Client(rx));
                        next_id += 1;
                    }
                } else if op == "r0" || op == "r1" || op == "r2" {
                    let p = match op { "r0" => Pol::LinearizableRead, "r1" => Pol::LeaseRead, _ => Pol::EventualConsistency };
                    let (tx, rx) = MaybeCloneOneshot::new();
                    fl.push_client_cmd(ClientCmd::Read(ClientReadRequest { client_id: 1, keys: vec![Bytes::from_static(b"k")], consistency_policy: Some(p) }, tx), ctx);
                    rxs.insert(next_id, Rx::Client(rx));
                    next_id += 1;
                } else if op == "s" {
                    let (tx, rx) = MaybeCloneOneshot::new();
                    fl.push_client_cmd(ClientCmd::Scan(Bytes::from_static(b"k"), tx), ctx);
                    rxs.insert(next_id, Rx::Scan(rx));
                    next_id += 1;
                }
            } else if let Some(l) = leader.as_mut() {
                if op.starts_with('w') {
                    match wop(op, next_id) {
                        Some(cmd) => {
                            let (tx, rx) = MaybeCloneOneshot::new();
                            l.push_client_cmd(ClientCmd::Propose(ClientWriteRequest { client_id: 1, command: cmd }, tx), ctx);
                            rxs.insert(next_id, Rx::Client(rx));
                            next_id += 1;
                        }
                        None => return "bad-case".into(),
                    }
                } else if op == "r0" || op == "r1" || op == "r2" {
                    let p = match op { "r0" => Pol::LinearizableRead, "r1" => Pol::LeaseRead, _ => Pol::EventualConsistency };
                    let (tx, rx) = MaybeCloneOneshot::new();
                    l.push_client_cmd(ClientCmd::Read(ClientReadRequest { client_id: 1, keys: vec![Bytes::from_static(b"k")], consistency_policy: Some(p) }, tx), ctx);
                    rxs.insert(next_id, Rx::Client(rx));
                    next_id += 1;
                } else if op == "s" {
                    let (tx, rx) = MaybeCloneOneshot::new();
                    l.push_client_cmd(ClientCmd::Scan(Bytes::from_static(b"k"), tx), ctx);
                    rxs.insert(next_id, Rx::Scan(rx));
                    next_id += 1;
                } else if let Some(a) = op.strip_prefix('j') {
                    let node: u32 = match a.parse() { Ok(x) => x, Err(_) => return "bad-case".into() };
                    let (tx, rx) = MaybeCloneOneshot::new();
                    let req = JoinRequest { node_id: node, node_role: NodeRole::Learner as i32, address: format!("127.0.0.1:{}", 9000 + node), status: NodeStatus::Promotable as i32 };
                    let _ = l.handle_inbound_event(InboundEvent::JoinCluster(req, tx), ctx, w.itx.clone()).await;
                    rxs.insert(next_id, Rx::Join(rx));
                    next_id += 1;
                } else if op == "f" {
                    let _ = l.flush_cmd_buffers(ctx, &w.itx).await;
                } else if op == "noop" {
                    let _ = l.verif_initiate_noop_commit(ctx, &w.itx).await;
                } else if op == "lf" {
                    let d = ctx.raft_log().last_entry_id();
                    l.handle_log_flushed(d, ctx, &w.itx).await;
                } else if op == "sd" {
                    // the REAL raft.rs handling of InternalEvent::BecomeFollower: drain_read_buffer(), then
                    // `self.role = self.role.become_follower()` (the LeaderState is dropped by that assignment)
                    term = l.current_term();
                    commit = l.commit_index();
                    last_noop = l.noop_log_id;
                    let lead = leader.take().unwrap();
                    let mut raft = wrap_in_raft(lead, ctx);
                    let r = raft.handle_internal_event(InternalEvent::BecomeFollower(None)).await;
                    if r.is_err() { return "become-follower-failed".into(); }
                    if !matches!(raft.role, RaftRole::Follower(_)) { return "not-follower-after-stepdown".into(); }
                    last_image = Some((Default::default(), Default::default()));
                    rafts.push(raft);
                } else if op == "fi" {
                    let r = l.handle_inbound_event(InboundEvent::FatalError { source: "StateMachine".into(), error: "boom".into() }, ctx, w.itx.clone()).await;
                    if r.is_ok() { return "fatal-returned-ok".into(); }
                    halted = true;
                } else if op == "fx" {
                    // the REAL raft.rs handling of `InternalEvent::FatalError` (what the SM worker sends): returns
                    // Err(Fatal); the loop exits; the role state is whatever that code leaves
                    let lead = leader.take().unwrap();
                    let mut raft = wrap_in_raft(lead, ctx);
                    let r = raft.handle_internal_event(InternalEvent::FatalError { source: "StateMachine".into(), error: "boom".into() }).await;
                    if r.is_ok() { return "fatal-returned-ok".into(); }
                    let role = std::mem::replace(&mut raft.role, RaftRole::Follower(Box::new(FollowerState::<QT>::new(1, ctx.node_config.clone(), None, None))));
                    match role {
                        RaftRole::Leader(b) => leader = Some(*b),
                        _ => return "role-changed-by-fatal".into(),
                    }
                    rafts.push(raft);
                    halted = true;
                } else if let Some(a) = op.strip_prefix("ap") {
                    let k: u64 = match a.parse() { Ok(x) => x, Err(_) => return "bad-case".into() };
                    let last = ctx.raft_log().last_entry_id();
                    let k = k.min(l.commit_index()).min(last);
                    let from = w.sim.lock().unwrap().applied;
                    if k > from {
                        let mut results = vec![];
                        {
                            let mut s = w.sim.lock().unwrap();
                            for i in from + 1..=k {
                                let e = match ctx.raft_log().entry(i) { Ok(Some(e)) => e, _ => return format!("missing-entry-{}", i) };
                                let okk = match decode(&e) {
                                    Dec::Put(_, v) => { s.kv = v; true }
                                    Dec::Del(_) => { s.kv = 0; true }
                                    Dec::Cas(_, ex, nv) => if s.kv == ex { s.kv = nv; true } else { false },
                                    _ => true,
                                };
                                results.push(ApplyResult { index: i, succeeded: okk });
                            }
                            s.applied = k;
                        }
                        let _ = l.handle_apply_completed(k, results, ctx, &w.itx).await;
                    }
                } else if let Some(a) = op.strip_prefix('t') {
                    let ms: u64 = match a.parse() { Ok(x) => x, Err(_) => return "bad-case".into() };
                    clock += ms;
                    verif_clock::set(Some(clock));
                    if ms > 0 { tokio::time::advance(Duration::from_millis(ms)).await; }
                    let _ = l.tick(&w.itx, &etx, ctx).await;
                } else if let Some(a) = op.strip_prefix('a') {
                    let v: Vec<u64> = match a.split('.').map(|x| x.parse().ok()).collect::<Option<Vec<u64>>>() { Some(v) if v.len() == 3 => v, _ => return "bad-case".into() };
                    let t = l.current_term();
                    let _ = l.handle_append_result(v[0] as u32, Ok(success(v[0] as u32, t, v[1])), ctx, &w.itx).await;
                } else if let Some(a) = op.strip_prefix('x') {
                    let p: u32 = match a.parse() { Ok(x) => x, Err(_) => return "bad-case".into() };
                    let t = l.current_term();
                    let resp = AppendEntriesResponse { node_id: p, term: t, result: Some(append_entries_response::Result::Conflict(ConflictResult { conflict_term: None, conflict_index: Some(1) })) };
                    let _ = l.handle_append_result(p, Ok(resp), ctx, &w.itx).await;
                } else if let Some(a) = op.strip_prefix('h') {
                    let t: u64 = match a.parse() { Ok(x) => x, Err(_) => return "bad-case".into() };
                    let _ = l.handle_append_result(2, Ok(success(2, t, 0)), ctx, &w.itx).await;
                } else if op == "z" {
                    let _ = l.handle_append_result(2, Ok(success(2, 1, 0)), ctx, &w.itx).await;
                } else {
                    return "bad-case".into();
                }
                if let Some(l) = leader.as_ref() {
                    term = l.current_term();
                    commit = l.commit_index();
                }
            }
        }
        // drain the internal-event channel for step-down requests
        // (BecomeFollower is observable; everything else is ignored)
        // NB: `_irx` is owned by the World; we only need the flag, read it through a fresh try_recv below.
        let mut answers: Vec<String> = vec![];
        let mut done: Vec<u64> = vec![];
        for (id, rx) in rxs.iter_mut() {
            if let Some(a) = poll(rx) {
                answers.push(format!("{}={}", id, a));
                done.push(*id);
            }
        }
        for id in done { rxs.remove(&id); }
        let applied = w.sim.lock().unwrap().applied;
        let lv = leader_role && lease.is_valid_for_leader(term, now_ms());
        out.push(format!("{}/c{}a{}l{}", if answers.is_empty() { "-".to_string() } else { answers.join(",") }, commit, applied, lv as u8));
    }
    // step-down requests emitted on the internal channel
    while let Ok(ev) = w._irx.try_recv() {
        if matches!(ev, InternalEvent::BecomeFollower(_)) { want_sd = true; }
    }
    // final image
    let last = ctx.raft_log().last_entry_id();
    let mut logv = vec![];
    for i in 1..=last {
        match ctx.raft_log().entry(i) { Ok(Some(e)) => logv.push(show_dec(&decode(&e))), _ => logv.push("missing".into()) }
    }
    let (q, d, noop) = match leader.as_ref() {
        Some(l) => (l.verif_queues(), l.verif_deadlines(), l.noop_log_id),
        None => match last_image { Some((q, d)) => (q, d, last_noop), None => (Default::default(), Default::default(), None) },
    };
    // after a step-down the real state is gone: the noop index printed is the one last seen before the drop
    let noop_s = match noop { Some(x) => x.to_string(), None => "-".into() };
    drop(rafts);
    let phase = if leader_role && leader.is_none() { "stepped" } else if halted { "halted" } else { "run" };
    format!(
        "{}|last={} commit={} noop={} P={} L={} S={} E={} W={} A={} R={} Q={} C={} log={} phase={} sd={}",
        out.join(";"), last, commit, noop_s, q.propose_buffer, q.linearizable_read_buffer, q.lease_read_queue, q.eventual_read_queue,
        lst(q.pending_client_writes.iter().zip(d.pending_client_writes.iter()).map(|((e, s, n, wt), (_, r))| format!("{}:{}:{}:{}:{}", e, s, n, *wt as u8, r)).collect()),
        lst(q.pending_write_apply.iter().map(|x| x.to_string()).collect()),
        lst(q.pending_reads.iter().zip(d.pending_reads.iter()).map(|((k, n), (_, r))| format!("{}:{}:{}", k, n, r)).collect()),
        lst(d.pending_lease_reads.iter().map(|x| x.to_string()).collect()),
        lst(q.pending_commit_actions.iter().zip(d.pending_commit_actions.iter()).map(|((k, n), (_, r))| format!("{}:{}:{}", k, if *n { "n" } else { "j" }, r)).collect()),
        lst(logv), phase, want_sd as u8
    )
}

fn exec(case: &str) -> String {
    let (hd, ops) = match case.split_once('|') { Some(x) => x, None => return "bad-case".into() };
    let f = fields(hd);
    let rt = tokio::runtime::Builder::new_current_thread().enable_all().start_paused(true).build().unwrap();
    let r = rt.block_on(run_case(&f, ops));
    verif_clock::set(None);
    r
}

// ------------------------------------------------------------------------------------------ generator

fn header(r: &mut Rng, leader: bool) -> (String, u64, u64) {
    let n = *r.pick(&[1u64, 3, 3, 3, 5]);
    let maxw = *r.pick(&[0u64, 0, 2, 3]);
    let maxr = *r.pick(&[0u64, 0, 2]);
    let t = *r.pick(&[200u64, 1000]);
    let pt = *r.pick(&[300u64, 2000]);
    let lease = *r.pick(&[0u64, 50, 500, 100000]);
    let hb = *r.pick(&[100u64, 150]);
    let pre = r.below(3);
    (
        format!("role={} n={} maxw={} maxr={} T={} PT={} lease={} hb={} pre={}", if leader { "leader" } else { "follower" }, n, maxw, maxr, t, pt, lease, hb, pre),
        n, pre,
    )
}

/// Structured, mostly-valid traces: the generator tracks a rough picture of the leader (last index, rounds) so that
/// acks are plausible, apply follows commit, etc.; a share of traces is adversarial (random order, stale acks).
fn gen_trace(r: &mut Rng, tier: &str) -> String {
    let leader = !r.chance(1, 12);
    let (hd, n, pre) = header(r, leader);
    let len = if tier == "thorough" { r.range(4, 40) } else { r.range(3, 24) } as usize;
    let mut ops: Vec<String> = vec![];
    let mut last = pre; // rough
    let mut rounds = 0u64;
    let mut buffered = 0u64;
    if !leader {
        for _ in 0..len {
            ops.push(match r.below(6) { 0 | 1 => format!("wp{}", r.range(1, 4)), 2 => "we".into(), 3 => format!("r{}", r.below(3)), 4 => "s".into(), _ => "f".into() });
        }
        return format!("{}|{}", hd, ops.join(";"));
    }
    let chaotic = r.chance(1, 4);
    if !r.chance(1, 6) {
        ops.push("noop".into()); last += 1; if n > 1 { rounds += 1; }
        if !r.chance(1, 5) {
            if n == 1 { ops.push("lf".into()); } else {
                for p in 2..=(2 + (n - 1) / 2).min(n) { if !r.chance(1, 6) { ops.push(format!("a{}.{}.{}", p, last, rounds)); } }
            }
        }
    }
    while ops.len() < len {
        let c = r.below(100);
        if c < 28 {
            let k = r.below(10);
            ops.push(if k < 5 { format!("wp{}", r.range(1, 4)) } else if k < 6 { "wd".into() } else if k < 9 { format!("wc{}.{}", r.below(4), r.range(1, 4)) } else { "we".into() });
            if k < 9 { buffered += 1; }
        } else if c < 42 {
            ops.push(format!("r{}", *r.pick(&[0u64, 0, 0, 1, 2])));
        } else if c < 58 {
            ops.push("f".into()); last += buffered; buffered = 0; if n > 1 { rounds += 1; }
        } else if c < 72 {
            if n == 1 { ops.push("lf".into()); } else {
                let p = r.range(2, n);
                let m = if chaotic { r.below(last + 2) } else if r.chance(3, 4) { last } else { r.below(last + 1) };
                let rd = if r.chance(3, 4) { rounds } else { r.below(rounds + 1) };
                ops.push(format!("a{}.{}.{}", p, m, rd));
            }
        } else if c < 82 {
            ops.push(format!("ap{}", if r.chance(3, 4) { last } else { r.below(last + 2) }));
        } else if c < 88 {
            let ms = *r.pick(&[0u64, 50, 100, 150, 200, 300, 1000, 2000]);
            ops.push(format!("t{}", ms)); last += buffered; buffered = 0;
        } else if c < 90 {
            ops.push("s".into());
        } else if c < 93 {
            ops.push(format!("j{}", r.range(1, n + 3))); last += 1;
        } else if c < 94 {
            ops.push(if r.chance(1, 2) { "lf".into() } else { format!("x{}", r.range(2, n.max(2))) });
        } else if c < 95 {
            ops.push("z".into());
        } else if c < 97 {
            ops.push(format!("h{}", r.range(2, 4)));
            if !chaotic { ops.push("sd".into()); }
        } else if c < 99 {
            ops.push("sd".into());
        } else {
            ops.push(if r.chance(1, 2) { "fi".into() } else { "fx".into() });
        }
    }
    // exit paths at the end of a good share of traces
    match r.below(8) { 0 | 1 => ops.push("sd".into()), 2 => ops.push("fi".into()), 3 => ops.push(format!("t{}", *r.pick(&[200u64, 1000, 2000]))), _ => {} }
    format!("{}|{}", hd, ops.join(";"))
}

fn generate(r: &mut Rng, n: usize, tier: &str) -> Vec<String> {
    (0..n).map(|_| gen_trace(r, tier)).collect()
}

/// Same protocol as `dv::family_main`, but the real code under test prints to stdout (`println!` in
/// `send_join_success` → `print_leader_accepting_new_node`): fd 1 is redirected to /dev/null and the protocol lines go
/// to a duplicate of the original stdout.
fn family_main_quiet(generate: impl Fn(&mut Rng, usize, &str) -> Vec<String>, exec: impl Fn(&str) -> String + std::panic::RefUnwindSafe) {
    use std::io::{BufRead, Write};
    use std::os::fd::FromRawFd;
    unsafe extern "C" {
        fn dup(fd: i32) -> i32;
        fn dup2(a: i32, b: i32) -> i32;
    }
    let args: Vec<String> = std::env::args().collect();
    let mode = args.get(1).map(|s| s.as_str()).unwrap_or("");
    let cases: Vec<String> = match mode {
        "gen" => {
            let seed: u64 = args.get(2).and_then(|s| s.parse().ok()).unwrap_or(0);
            let n: usize = args.get(3).and_then(|s| s.parse().ok()).unwrap_or(100);
            let tier = args.get(4).map(|s| s.as_str()).unwrap_or("quick");
            let mut r = Rng::new(seed);
            generate(&mut r, n, tier)
        }
        "run" => std::io::stdin().lock().lines().map(|l| l.unwrap()).filter(|l| !l.is_empty()).collect(),
        _ => {
            eprintln!("usage: {} gen <seed> <n> <tier> | run", args[0]);
            std::process::exit(2);
        }
    };
    let out = unsafe {
        let saved = dup(1);
        let null = std::fs::OpenOptions::new().write(true).open("/dev/null").expect("devnull");
        dup2(std::os::fd::AsRawFd::as_raw_fd(&null), 1);
        std::fs::File::from_raw_fd(saved)
    };
    std::panic::set_hook(Box::new(|_| {}));
    let mut w = std::io::BufWriter::new(out);
    for c in cases {
        let o = match std::panic::catch_unwind(|| exec(&c)) {
            Ok(o) => o,
            Err(_) => "panic".to_string(),
        };
        writeln!(w, "{}\t{}", c, o).unwrap();
    }
    w.flush().unwrap();
}

fn main() {
    family_main_quiet(generate, exec);
}
