//! Family `repl` (C08, C36, C07): the REAL replication code on generated cases.
//!
//! `L` cases (leader side): a real `BufferedRaftLog` (built like the repo's own tests: `MockStorageEngine`
//! + `BufferedRaftLog::new(..).start(..)`) is filled, optionally purged, then the real
//! `ReplicationHandler::prepare_batch_requests` (pub `ReplicationCore` trait) is called through a real
//! `RaftContext`; it runs `generate_new_entries`, `retrieve_to_be_synced_logs_for_peers`,
//! `build_append_request` and the snapshot-target split. The raw (possibly gapped) helper output of
//! `retrieve_to_be_synced_logs_for_peers` is printed as well.
//!
//! `F` cases (follower side): a real `Raft` with a real `FollowerState`, the real `ReplicationHandler`
//! and a real `BufferedRaftLog`; every op is one *queue* of AppendEntries events handed to the unchanged
//! `Raft::process_inbound_events` (hook `verif_process_inbound`): `merge_append_entries`, then
//! `FollowerState::handle_inbound_event` -> `handle_append_entries_request_workflow` ->
//! `handle_append_entries` -> `check_append_entries_request_is_legal` / `filter_out_conflicts_and_append` /
//! `if_update_commit_index_as_follower`, one response fanned out to every merged sender.
//!
//! `R` cases (leader reaction to an ack): real `handle_success_response` / `handle_conflict_response`.
use std::collections::HashMap;
use std::sync::Arc;

use bytes::Bytes;
use d_engine_core::alias::ROF;
use d_engine_core::follower_state::FollowerState;
use d_engine_core::*;
use d_engine_proto::common::{Entry, EntryPayload, LogId, entry_payload::Payload};
use d_engine_proto::server::cluster::NodeMeta;
use d_engine_proto::server::replication::{
    AppendEntriesRequest, AppendEntriesResponse, ConflictResult, SuccessResult, append_entries_response,
};
use dv::{family_main, fields, rng::Rng};
use tokio::sync::{mpsc, watch};

#[derive(Debug)]
struct VT;
impl TypeConfig for VT {
    type SE = MockStorageEngine;
    type SM = MockStateMachine;
    type R = BufferedRaftLog<Self>;
    type M = MockMembership<Self>;
    type TR = MockTransport<Self>;
    type E = MockElectionCore<Self>;
    type REP = ReplicationHandler<Self>;
    type C = MockCommitHandler;
    type SMH = MockStateMachineHandler<Self>;
    type SNP = MockSnapshotPolicy;
    type PE = MockPurgeExecutor;
}

// ------------------------------------------------------------------------------------------ helpers
fn pay_bytes(p: u64) -> EntryPayload { EntryPayload::command(Bytes::from(p.to_string().into_bytes())) }
fn pay_of(e: &Entry) -> u64 {
    match e.payload.as_ref().and_then(|p| p.payload.as_ref()) {
        Some(Payload::Command(b)) => std::str::from_utf8(b).ok().and_then(|s| s.parse().ok()).unwrap_or(0),
        _ => 0,
    }
}
fn mk_entry(i: u64, t: u64, p: u64) -> Entry { Entry { index: i, term: t, payload: Some(pay_bytes(p)) } }
fn show_entries(es: &[Entry]) -> String {
    if es.is_empty() { return "-".into(); }
    es.iter().map(|e| format!("{}.{}.{}", e.index, e.term, pay_of(e))).collect::<Vec<_>>().join(",")
}
fn parse_entries(s: &str) -> Vec<Entry> {
    if s == "-" || s.is_empty() { return vec![]; }
    s.split(',')
        .map(|x| {
            let v: Vec<u64> = x.split('.').map(|y| y.parse().unwrap()).collect();
            mk_entry(v[0], v[1], v[2])
        })
        .collect()
}
fn terms_list(s: &str) -> Vec<u64> { dv::nat_list(s) }

static CASE_NO: std::sync::atomic::AtomicU64 = std::sync::atomic::AtomicU64::new(0);

fn new_log() -> Arc<BufferedRaftLog<VT>> {
    let n = CASE_NO.fetch_add(1, std::sync::atomic::Ordering::SeqCst);
    let storage = Arc::new(MockStorageEngine::with_id(format!("repl-{}-{}", std::process::id(), n)));
    let (log, rx) = BufferedRaftLog::<VT>::new(
        1,
        PersistenceConfig {
            strategy: PersistenceStrategy::MemFirst,
            flush_policy: FlushPolicy::Batch { idle_flush_interval_ms: 1000 },
            max_buffered_entries: 1000,
        },
        storage,
    );
    log.start(rx, None)
}

/// Fill a fresh log with entries 1..=n (terms from the list, payload 100+i), then purge up to `purge`.
async fn build_log(terms: &[u64], purge: u64) -> Arc<BufferedRaftLog<VT>> {
    let log = new_log();
    let es: Vec<Entry> = terms.iter().enumerate().map(|(i, t)| mk_entry(i as u64 + 1, *t, 101 + i as u64)).collect();
    if !es.is_empty() { log.append_entries(es).await.unwrap(); }
    if purge > 0 {
        let t = log.entry_term(purge).unwrap_or(0);
        log.purge_logs_up_to(LogId { index: purge, term: t }).await.unwrap();
    }
    log
}

fn node_cfg(cap: u64, merge: usize) -> Arc<RaftNodeConfig> {
    let mut c = RaftNodeConfig::default();
    c.raft.replication.append_entries_max_entries_per_replication = cap;
    c.raft.batching.max_merge_entries = merge;
    c.raft.batching.max_batch_size = 10_000;
    c.raft.election.election_timeout_min = 10_000_000;
    c.raft.election.election_timeout_max = 20_000_000;
    Arc::new(c)
}

fn context(id: u32, log: Arc<ROF<VT>>, cfg: Arc<RaftNodeConfig>) -> RaftContext<VT> {
    RaftContext {
        node_id: id,
        storage: RaftStorageHandles { raft_log: log, state_machine: Arc::new(MockStateMachine::new()) },
        transport: Arc::new(MockTransport::new()),
        membership: Arc::new(MockMembership::new()),
        handlers: RaftCoreHandlers {
            election_handler: MockElectionCore::new(),
            replication_handler: ReplicationHandler::new(id),
            state_machine_handler: Arc::new(MockStateMachineHandler::new()),
            purge_executor: Arc::new(MockPurgeExecutor::new()),
        },
        node_config: cfg,
    }
}

fn show_logid(l: Option<LogId>) -> String {
    match l { Some(x) => format!("{}.{}", x.index, x.term), None => "-".into() }
}
fn show_opt(o: Option<u64>) -> String { o.map(|x| x.to_string()).unwrap_or("-".into()) }

fn show_ack(r: &AppendEntriesResponse) -> String {
    match &r.result {
        Some(append_entries_response::Result::Success(s)) => format!("s.{}.{}", r.term, show_logid(s.last_match)),
        Some(append_entries_response::Result::Conflict(c)) => {
            format!("c.{}.{}.{}", r.term, show_opt(c.conflict_term), show_opt(c.conflict_index))
        }
        Some(append_entries_response::Result::HigherTerm(t)) => format!("h.{}.{}", r.term, t),
        None => "none".into(),
    }
}

// ------------------------------------------------------------------------------------------ L cases
async fn exec_leader(f: &HashMap<String, String>) -> String {
    let g = |k: &str| -> u64 { f.get(k).and_then(|s| s.parse().ok()).expect("field") };
    let me = g("me") as u32;
    let terms = terms_list(f.get("log").unwrap());
    let log = build_log(&terms, g("purge")).await;
    let cfg = node_cfg(g("cap"), 1000);
    let ctx = context(me, log.clone(), cfg);
    let mut next: HashMap<u32, u64> = HashMap::new();
    let ns = f.get("next").unwrap();
    if ns != "-" {
        for kv in ns.split(',') {
            let mut it = kv.split(':');
            next.insert(it.next().unwrap().parse().unwrap(), it.next().unwrap().parse().unwrap());
        }
    }
    let targets: Vec<NodeMeta> = dv::nat_list(f.get("tg").unwrap())
        .into_iter()
        .map(|id| NodeMeta { id: id as u32, address: String::new(), role: 1, status: 2 })
        .collect();
    let n_new = g("new");
    let payloads: Vec<EntryPayload> = (0..n_new).map(|j| pay_bytes(901 + j)).collect();
    let last_before = log.last_entry_id();
    let snap = StateSnapshot { role: 3, current_term: g("term"), voted_for: None, commit_index: g("commit") };
    let lsnap = LeaderStateSnapshot { next_index: next.clone(), match_index: HashMap::new(), noop_log_id: None };
    let meta = ClusterMetadata { single_voter: false, total_voters: targets.len() + 1, replication_targets: targets };
    let res = ctx.handlers.replication_handler.prepare_batch_requests(payloads, snap, lsnap, &meta, &ctx).await;
    let out = match res {
        Err(_) => "err".to_string(),
        Ok(pr) => {
            let mut parts: Vec<String> = Vec::new();
            for (id, r) in &pr.append_requests {
                // speculative next_index exactly as leader_state.rs execute_and_process_raft_rpc computes it
                let spec = r.prev_log_index + r.entries.len() as u64 + 1;
                parts.push(format!(
                    "{}:{}:{}:{}:{}:{}:{}:{}",
                    id, r.prev_log_index, r.prev_log_term, r.leader_commit_index, r.term, r.leader_id, spec,
                    show_entries(&r.entries)
                ));
            }
            let snaps: Vec<u64> = pr.snapshot_targets.iter().map(|x| *x as u64).collect();
            // raw helper output (the function the repo's own test pins), sorted by peer id
            let last_after = log.last_entry_id();
            let new_entries = if n_new > 0 { log.get_entries_range(last_before + 1..=last_after).unwrap() } else { vec![] };
            let raw = ctx.handlers.replication_handler.retrieve_to_be_synced_logs_for_peers(
                &new_entries, last_before, g("cap"), &next, &log);
            let mut rawv: Vec<(u32, Vec<Entry>)> = raw.into_iter().collect();
            rawv.sort_by_key(|x| x.0);
            let raws: Vec<String> = rawv
                .iter()
                .map(|(id, es)| format!("{}:{}", id, dv::show_list(&es.iter().map(|e| e.index).collect::<Vec<_>>())))
                .collect();
            format!(
                "last={} first={} reqs={} snap={} raw={}",
                last_after,
                log.first_entry_id(),
                if parts.is_empty() { "-".into() } else { parts.join("|") },
                dv::show_list(&snaps),
                if raws.is_empty() { "-".into() } else { raws.join("/") }
            )
        }
    };
    log.close().await;
    out
}

// ------------------------------------------------------------------------------------------ F cases
fn parse_req(s: &str) -> AppendEntriesRequest {
    let p: Vec<&str> = s.split('/').collect();
    let n = |i: usize| -> u64 { p[i].parse().unwrap() };
    AppendEntriesRequest {
        term: n(0),
        leader_id: n(1) as u32,
        prev_log_index: n(2),
        prev_log_term: n(3),
        leader_commit_index: n(4),
        entries: parse_entries(p[5]),
    }
}

async fn exec_follower(f: &HashMap<String, String>, ops: &str) -> String {
    let g = |k: &str| -> u64 { f.get(k).and_then(|s| s.parse().ok()).expect("field") };
    let id = 2u32;
    let terms = terms_list(f.get("log").unwrap());
    let log = build_log(&terms, g("purge")).await;
    let cfg = node_cfg(100, g("merge") as usize);
    let role = RaftRole::Follower(Box::new(FollowerState::<VT>::new(
        id,
        cfg.clone(),
        Some(HardState { current_term: g("term"), voted_for: None }),
        Some(g("commit")),
    )));
    let (itx, irx) = mpsc::unbounded_channel();
    let (etx, erx) = mpsc::channel(16);
    let (ctx_, crx) = mpsc::channel(16);
    let (_stx, srx) = watch::channel(());
    let mut raft = Raft::<VT>::new(
        id,
        role,
        RaftStorageHandles { raft_log: log.clone(), state_machine: Arc::new(MockStateMachine::new()) },
        MockTransport::new(),
        RaftCoreHandlers {
            election_handler: MockElectionCore::new(),
            replication_handler: ReplicationHandler::new(id),
            state_machine_handler: Arc::new(MockStateMachineHandler::new()),
            purge_executor: Arc::new(MockPurgeExecutor::new()),
        },
        Arc::new(MockMembership::new()),
        SignalParams::new(itx, irx, etx, erx, ctx_, crx, srx),
        cfg,
    );
    let mut outs: Vec<String> = Vec::new();
    for op in ops.split(';').filter(|s| !s.is_empty()) {
        let mut events = Vec::new();
        let mut rxs = Vec::new();
        for rs in op.split('+') {
            let (tx, rx) = MaybeCloneOneshot::new();
            rxs.push(rx);
            events.push(InboundEvent::AppendEntries(parse_req(rs), vec![tx]));
        }
        let r = raft.verif_process_inbound(events).await;
        let mut acks = Vec::new();
        for rx in rxs.iter_mut() {
            acks.push(match rx.try_recv() {
                Ok(Ok(a)) => show_ack(&a),
                Ok(Err(_)) => "status".into(),
                Err(_) => "noack".into(),
            });
        }
        let last = log.last_entry_id();
        let ents = if last > 0 { log.get_entries_range(1..=last).unwrap() } else { vec![] };
        outs.push(format!(
            "{}{}@{}@{}@{}.{}@{}",
            if r.is_err() { "E!" } else { "" },
            acks.join(","),
            raft.current_term(),
            raft.verif_commit_index(),
            log.first_entry_id(),
            last,
            show_entries(&ents)
        ));
    }
    drop(raft);
    log.close().await;
    if outs.is_empty() { "-".into() } else { outs.join(";") }
}

// ------------------------------------------------------------------------------------------ R cases
async fn exec_react(f: &HashMap<String, String>) -> String {
    let g = |k: &str| -> u64 { f.get(k).and_then(|s| s.parse().ok()).expect("field") };
    let terms = terms_list(f.get("log").unwrap());
    let log = build_log(&terms, 0).await;
    let h = ReplicationHandler::<VT>::new(1);
    let kind = f.get("ack").unwrap().as_str();
    let opt = |k: &str| -> Option<u64> { f.get(k).and_then(|s| if s == "-" { None } else { s.parse().ok() }) };
    let out = match kind {
        "s" => {
            let lm = opt("mi").map(|i| LogId { index: i, term: g("mt") });
            match h.handle_success_response(2, g("pterm"), SuccessResult { last_match: lm }, g("lterm")) {
                Ok(u) => format!("ok {} {} {}", show_opt(u.match_index), u.next_index, u.success),
                Err(_) => "higher-term".into(),
            }
        }
        _ => {
            let c = ConflictResult { conflict_term: opt("ct"), conflict_index: opt("ci") };
            match h.handle_conflict_response(2, c, &log, g("cur")) {
                Ok(u) => format!("ok {} {} {}", show_opt(u.match_index), u.next_index, u.success),
                Err(_) => "err".into(),
            }
        }
    };
    log.close().await;
    out
}

fn exec(case: &str) -> String {
    let rt = tokio::runtime::Builder::new_current_thread().enable_all().build().unwrap();
    let (head, ops) = match case.split_once('|') { Some((h, o)) => (h, o), None => (case, "") };
    let kind = head.split(' ').next().unwrap_or("");
    let f = fields(head);
    rt.block_on(async {
        match kind {
            "L" => exec_leader(&f).await,
            "F" => exec_follower(&f, ops).await,
            "R" => exec_react(&f).await,
            _ => "bad-case".into(),
        }
    })
}

// ---------------------------------------------------------------------------------------- generators
fn gen_terms(r: &mut Rng, len: u64, maxterm: u64) -> Vec<u64> {
    // non-decreasing terms along the log, starting at 1
    let mut t = 1;
    let mut v = Vec::new();
    for _ in 0..len {
        if t < maxterm && r.chance(1, 4) { t = (t + 1 + r.below(2)).min(maxterm); }
        v.push(t.min(maxterm));
    }
    v
}

fn gen_leader(r: &mut Rng) -> String {
    let cap = *r.pick(&[1u64, 2, 3, 100]);
    // lag relative to cap: last_before - next in {cap-1, cap, cap+1} most of the time
    let n_peers = 1 + r.below(3);
    let base_len = match cap { 100 => 98 + r.below(8), _ => r.below(9) } + if r.chance(1, 3) { cap + 1 } else { 0 };
    let len = base_len.max(if r.chance(1, 10) { 0 } else { 1 });
    let maxterm = 1 + r.below(3);
    let terms = gen_terms(r, len, maxterm);
    let term = terms.last().copied().unwrap_or(1) + r.below(2);
    let new = *r.pick(&[0u64, 1, 3]);
    let purge = if len >= 2 && r.chance(1, 4) { 1 + r.below(len - 1) } else { 0 };
    let mut next = Vec::new();
    let mut tg = Vec::new();
    for p in 0..n_peers {
        let id = 2 + p;
        tg.push(id);
        let nx = match r.below(8) {
            0 => len + 1,                                    // up to date
            1 => 1,                                          // from scratch (prev = (0,0))
            2 | 3 | 4 => {
                // last_before - next = lag, lag in {cap-1, cap, cap+1}
                let lag = match r.below(3) { 0 => cap.saturating_sub(1), 1 => cap, _ => cap + 1 };
                len.saturating_sub(lag).max(1)
            }
            5 => len + 2 + r.below(3),                       // beyond the log (stale speculative advance)
            6 => { if purge > 0 { purge + r.below(2) } else { 1 + r.below(len + 1) } } // at the purge boundary
            _ => 1 + r.below(len + 1),
        };
        if !r.chance(1, 12) { next.push(format!("{}:{}", id, nx)); } // sometimes a target without next_index
    }
    if r.chance(1, 5) { next.push(format!("1:{}", len + 1)); } // own id in the map: skipped by the helper
    let commit = r.below(len + 1);
    format!(
        "L cap={} term={} commit={} purge={} me=1 log={} new={} next={} tg={}",
        cap, term, commit, purge, dv::show_list(&terms), new,
        if next.is_empty() { "-".into() } else { next.join(",") },
        dv::show_list(&tg)
    )
}

/// A leader log used to cut follower-side requests from.
struct Ldr { terms: Vec<u64> }
impl Ldr {
    fn term(&self, i: u64) -> u64 { if i == 0 { 0 } else { self.terms[(i - 1) as usize] } }
    fn ents(&self, from: u64, to: u64) -> String {
        if to < from { return "-".into(); }
        (from..=to).map(|i| format!("{}.{}.{}", i, self.term(i), 100 + i)).collect::<Vec<_>>().join(",")
    }
}

fn gen_follower(r: &mut Rng, malformed: bool) -> String {
    // leader log 1..n (payload 100+i, same as build_log so agreeing entries are byte-identical)
    let n = 3 + r.below(10);
    let maxterm = 2 + r.below(3);
    let lterms = gen_terms(r, n, maxterm);
    let ldr = Ldr { terms: lterms.clone() };
    let lterm = *lterms.last().unwrap();
    // follower: a prefix of the leader log + optional stale tail (older or equal term, distinct payloads come
    // from the same 100+i scheme only when the terms agree; a stale tail differs by term)
    let agree = r.below(n + 1);
    let mut fterms: Vec<u64> = lterms[..agree as usize].to_vec();
    let stale = if r.chance(1, 2) { r.below(5) } else { 0 };
    let base = fterms.last().copied().unwrap_or(1);
    for k in 0..stale {
        // stale tail term: not equal to the leader's term at that index (otherwise it is not stale)
        let idx = agree + k + 1;
        let lt = if idx <= n { ldr.term(idx) } else { 0 };
        let mut t = base + if r.chance(1, 3) { 1 } else { 0 };
        if t == lt { t = if lt > base { base } else { lt + 1 }; }
        if let Some(l) = fterms.last() { if t < *l { t = *l; } }
        fterms.push(t);
    }
    let fterm = (*fterms.last().unwrap_or(&1)).max(1) + r.below(2);
    let flen = fterms.len() as u64;
    let commit = if agree == 0 { 0 } else { r.below(agree.min(flen) + 1) };
    let merge = *r.pick(&[1000u64, 1000, 4, 2, 1]);
    let purge = if agree >= 2 && r.chance(1, 8) { 1 + r.below(commit.min(agree - 1)).min(agree - 2) } else { 0 };
    let nops = 1 + r.below(3);
    let mut ops = Vec::new();
    let mut next = match r.below(4) { 0 => 1, 1 => agree + 1, 2 => 1 + r.below(n + 1), _ => (agree + 1).saturating_sub(r.below(3)).max(1) };
    let mut lcommit = r.below(n + 1);
    let mut stop = false;
    for _ in 0..nops {
        if stop { break; }
        let qn = 1 + if r.chance(1, 2) { r.below(4) } else { 0 };
        let mut reqs = Vec::new();
        for _ in 0..qn {
            if stop { break; }
            let cap = *r.pick(&[0u64, 1, 2, 3, 100]);
            let prev = next.saturating_sub(1).min(n);
            let to = (prev + cap).min(n);
            let mut rterm = lterm.max(fterm.saturating_sub(r.below(2) * r.below(2)));
            if lcommit < n && r.chance(1, 3) { lcommit += 1 + r.below(n - lcommit); }
            let mut pterm = ldr.term(prev);
            let mut ents = ldr.ents(prev + 1, to);
            let mut c = lcommit;
            let mut jump = false;
            if malformed {
                match r.below(7) {
                    0 => { rterm = fterm.saturating_sub(1); }                 // stale leader term
                    1 => { pterm += 1; }                                        // wrong prev term
                    // gapped request: the follower takes it as it comes (a hole in its log); nothing is sent
                    // afterwards because `entry_term` inside a hole is answered by TermSegments (family buflog)
                    2 => { if to >= prev + 3 { ents = format!("{},{}", ldr.ents(prev + 1, prev + 1), ldr.ents(prev + 3, to)); stop = true; } }
                    3 => { c = r.below(n + 3); }                                // commit going backwards / beyond
                    4 => { jump = true; }                                       // non-chaining next request
                    5 => { rterm += 1; }                                        // different term inside the queue
                    _ => {}
                }
            }
            reqs.push(format!("{}/1/{}/{}/{}/{}", rterm, prev, pterm, c, ents));
            // pipelined: the next request continues after this one; sometimes it overlaps or repeats
            next = match r.below(6) { 0 => prev + 1, 1 => (to + 1).saturating_sub(1).max(1), _ => to + 1 };
            if jump { next = 1 + r.below(n + 2); }
        }
        ops.push(reqs.join("+"));
    }
    format!(
        "F term={} commit={} merge={} purge={} log={} ldr={}|{}",
        fterm, commit, merge, purge, dv::show_list(&fterms), dv::show_list(&lterms), ops.join(";")
    )
}

fn gen_react(r: &mut Rng) -> String {
    let len = r.below(8);
    let terms = gen_terms(r, len, 3);
    if r.chance(1, 2) {
        let lterm = 1 + r.below(4);
        let pterm = (lterm + r.below(3)).saturating_sub(1);
        let mi = if r.chance(1, 6) { "-".to_string() } else { r.below(12).to_string() };
        format!("R ack=s lterm={} pterm={} mi={} mt={} log={}", lterm, pterm, mi, 1 + r.below(3), dv::show_list(&terms))
    } else {
        let ct = if r.chance(1, 3) { "-".to_string() } else { (1 + r.below(4)).to_string() };
        let ci = if r.chance(1, 5) { "-".to_string() } else { r.below(10).to_string() };
        format!("R ack=c ct={} ci={} cur={} log={}", ct, ci, r.below(10), dv::show_list(&terms))
    }
}

fn generate(r: &mut Rng, n: usize, tier: &str) -> Vec<String> {
    let mut out = Vec::new();
    for i in 0..n {
        out.push(match i % 10 {
            0 | 1 | 2 => gen_leader(r),
            3 | 4 | 5 | 6 => gen_follower(r, false),
            7 | 8 => gen_follower(r, true),
            _ => gen_react(r),
        });
    }
    if tier == "thorough" {
        // small-scope exhaustive: all (len ≤ 6, next ≤ len+2, cap ≤ 3, new ∈ {0,1,3}) single-term leader cases
        for len in 0..=6u64 {
            for next in 1..=len + 2 {
                for cap in 1..=3u64 {
                    for new in [0u64, 1, 3] {
                        let terms: Vec<u64> = (0..len).map(|i| 1 + i / 3).collect();
                        out.push(format!(
                            "L cap={} term={} commit={} purge=0 me=1 log={} new={} next=2:{} tg=2",
                            cap, 1 + len / 3, len / 2, dv::show_list(&terms), new, next
                        ));
                    }
                }
            }
        }
    }
    out
}

fn main() { family_main(generate, exec); }
