//! Family `cluster` (C04, C05, C10, C32): a deterministic mini-cluster of N in {3,5} REAL d-engine nodes.
//!
//! Real code under test, per node: a real `Raft<T>` (event handling of `run()` single-stepped through the
//! `verif_cluster_*` hooks: one select arm + `process_*` per step, `handle_internal_event`, `merge_append_entries`,
//! `Drop` = hard-state save), the real role states (`FollowerState`, `CandidateState`, `LeaderState` incl. the
//! per-follower replication worker tasks), the real `ElectionHandler`, `ReplicationHandler` and
//! `BufferedRaftLog` (with its real IO thread) over an in-memory `StorageEngine` defined here.
//! Simulated here: `Transport` (records every message, the schedule decides delivery / loss / duplication /
//! reordering / stream errors), static `Membership`, clock (tokio paused time), state machine (mock, unused).
//!
//! Case:   `n=3 cap=2|ev;ev;...`   events (see `Cluster::step`):
//!   t:N  timer of node N fires          vq:C:P / vr:C:P / ve:C  vote request / response delivery, election end
//!   w:N:X client write X at N           a:M r:M d:M u:M  deliver AE / deliver response / drop / duplicate msg M
//!   se:L:P stream L->P breaks (recv side)  sc:L:P stream torn down (next send fails)  lf:N log flushed at N      ac:N:I apply completed up to I at N
//!   x:N:K crash (loses last K unflushed entries, no Drop)   g:N graceful stop   up:N start
//! Output: one observable cluster state per event, joined by `|` (format in `Cluster::observe`).
#[path = "cluster/sim.rs"]
mod sim;
#[path = "cluster/sched.rs"]
mod sched;

use std::io::BufRead;

fn main() {
    let args: Vec<String> = std::env::args().collect();
    let mode = args.get(1).map(|s| s.as_str()).unwrap_or("");
    let cases: Vec<String> = match mode {
        "gen" => {
            let seed: u64 = args.get(2).and_then(|s| s.parse().ok()).unwrap_or(0);
            let n: usize = args.get(3).and_then(|s| s.parse().ok()).unwrap_or(100);
            let tier = args.get(4).map(|s| s.as_str()).unwrap_or("quick");
            let mut r = dv::rng::Rng::new(seed);
            sched::generate(&mut r, n, tier)
        }
        "run" => std::io::stdin().lock().lines().map(|l| l.unwrap()).filter(|l| !l.is_empty()).collect(),
        _ => {
            eprintln!("usage: {} gen <seed> <n> <tier> | run", args[0]);
            std::process::exit(2);
        }
    };
    std::panic::set_hook(Box::new(|_| {}));
    // The real `become_*` functions println!; collect results and print them after all cases ran so that
    // protocol lines are never interleaved with those (lines without a tab are ignored by ./check).
    let mut out = Vec::with_capacity(cases.len());
    for c in cases {
        let o = match std::panic::catch_unwind(|| sim::exec(&c)) {
            Ok(o) => o,
            Err(_) => "panic".to_string(),
        };
        out.push(format!("{}\t{}", c, o));
    }
    println!();
    for l in out {
        println!("{}", l);
    }
}
