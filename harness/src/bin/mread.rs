//! Family `mread` (C35): a multi-key read through EVERY real read path, on the same real state.
//!
//! Case `mread|op;op;...`:  p:<k>:<v> put   d:<k> delete   R:<k>,<k>,...  multi-key read (`R:` = no keys)
//! bytes are lowercase hex, `-` = empty byte string.
//!
//! For each `R` the harness prints one group (groups joined by ` / `):
//!   ef=   FileStateMachine::get_multi                       er=   RocksDBStateMachine::get_multi
//!   smh=  DefaultStateMachineHandler::read_from_state_machine (sparse: found keys only, `k:v`)
//!   fpr=  proto_convert::fast_path_batch_read_response(keys, ef)     (sparse, hook)
//!   embf= EmbeddedClient::get_multi_with_consistency(Eventual)   → EmbeddedReadHandle::get_batch → sm.get_multi
//!   embl= … (LeaseRead, lease valid)                              → same fast path
//!   embc= … (LinearizableRead) → cmd_tx_path: ClientCmd::Read answered (by this harness, as the leader does)
//!         with ClientResponse::read_results(read_from_state_machine(keys).unwrap_or_default()) → realigned
//!   gf=   real GrpcClient::get_multi_with_policy(Eventual) over TCP → real Node::handle_client_read →
//!         StandaloneReadHandle/ReadActor → sm.get_multi → fast_path_batch_read_response → client realignment
//!   gl=   … (LeaseRead, lease valid): same server fast path
//!   gc=   … (LinearizableRead): server cmd_tx path → read_results(read_from_state_machine) → to_proto_response
//!         → client into_read_results + realignment
//! Aligned results print `v` / `_` per key joined by `,` (`.` = empty list), `err` = the call failed.
use bytes::Bytes;
use d_engine_client::ClientBuilder;
use d_engine_core::client::{ClientApi, ClientResponse};
use d_engine_core::config::ReadConsistencyPolicy as Pol;
use d_engine_core::{
    ApplyEntry, ClientCmd, Command, DefaultStateMachineHandler, LogSizePolicy, MockBuilder, MockTypeConfig, RaftOneshot,
    ReadLease, StateMachine, StateMachineHandler, now_ms,
};
use d_engine_proto::client::raft_client_service_server::RaftClientServiceServer;
use d_engine_proto::common::{NodeRole, NodeStatus};
use d_engine_proto::server::cluster::cluster_management_service_server::{
    ClusterManagementService, ClusterManagementServiceServer,
};
use d_engine_proto::server::cluster::{
    ClusterConfChangeRequest, ClusterConfUpdateResponse, ClusterMembership, JoinRequest, JoinResponse,
    LeaderDiscoveryRequest, LeaderDiscoveryResponse, MetadataRequest, NodeMeta,
};
use d_engine_server::node::RaftTypeConfig;
use d_engine_server::storage::{FileStateMachine, FileStorageEngine, RocksDBStateMachine, TtlLease};
use d_engine_server::{EmbeddedClient, Node};
use dv::{family_main, hex, rng::Rng, unhex};
use std::sync::atomic::AtomicUsize;
use std::sync::{Arc, Mutex, OnceLock};
use std::time::Duration;
use tokio::sync::{mpsc, watch};

type PT = RaftTypeConfig<FileStorageEngine, FileStateMachine>;
type MT = MockTypeConfig;

fn rt() -> &'static tokio::runtime::Runtime {
    static RT: OnceLock<tokio::runtime::Runtime> = OnceLock::new();
    RT.get_or_init(|| tokio::runtime::Builder::new_current_thread().enable_all().build().unwrap())
}

struct Cluster {
    addr: String,
}
#[tonic::async_trait]
impl ClusterManagementService for Cluster {
    async fn update_cluster_conf(
        &self,
        _r: tonic::Request<ClusterConfChangeRequest>,
    ) -> Result<tonic::Response<ClusterConfUpdateResponse>, tonic::Status> {
        Err(tonic::Status::unimplemented("verif"))
    }
    async fn get_cluster_metadata(
        &self,
        _r: tonic::Request<MetadataRequest>,
    ) -> Result<tonic::Response<ClusterMembership>, tonic::Status> {
        Ok(tonic::Response::new(ClusterMembership {
            version: 1,
            nodes: vec![NodeMeta {
                id: 1,
                address: self.addr.clone(),
                role: NodeRole::Leader as i32,
                status: NodeStatus::Active as i32,
            }],
            current_leader_id: Some(1),
        }))
    }
    async fn join_cluster(&self, _r: tonic::Request<JoinRequest>) -> Result<tonic::Response<JoinResponse>, tonic::Status> {
        Err(tonic::Status::unimplemented("verif"))
    }
    async fn discover_leader(
        &self,
        _r: tonic::Request<LeaderDiscoveryRequest>,
    ) -> Result<tonic::Response<LeaderDiscoveryResponse>, tonic::Status> {
        Err(tonic::Status::unimplemented("verif"))
    }
}

struct World {
    _dir: tempfile::TempDir,
    file: Arc<FileStateMachine>,
    rocks: Arc<RocksDBStateMachine>,
    smh: Arc<DefaultStateMachineHandler<PT>>,
    emb: EmbeddedClient<FileStorageEngine, FileStateMachine>,
    grpc: d_engine_client::Client,
    _keep: Vec<Box<dyn std::any::Any + Send>>,
    used: usize,
}

fn lease() -> Arc<TtlLease> {
    Arc::new(TtlLease::new(d_engine_core::config::LeaseConfig { cleanup_interval_ms: 1000, max_cleanup_duration_ms: 1 }))
}

/// The leader's part on the command channel: `ClientCmd::Read` is answered exactly like
/// `LeaderState::process_linearizable_reads` / `RaftRoleState` do.
fn spawn_responder(mut rx: mpsc::Receiver<ClientCmd>, smh: Arc<DefaultStateMachineHandler<PT>>) {
    tokio::spawn(async move {
        while let Some(cmd) = rx.recv().await {
            if let ClientCmd::Read(req, sender) = cmd {
                let results = smh.read_from_state_machine(req.keys).unwrap_or_default();
                let _ = sender.send(Ok(ClientResponse::read_results(results)));
            }
        }
    });
}

async fn build_world() -> World {
    std::fs::create_dir_all("/verif/target/tmp").ok();
    let dir = tempfile::tempdir_in("/verif/target/tmp").unwrap();
    let mut f = FileStateMachine::new(dir.path().join("file")).await.unwrap();
    f.set_lease(lease());
    let file = Arc::new(f);
    let mut r = RocksDBStateMachine::new(dir.path().join("rocks")).unwrap();
    r.set_lease(lease());
    let rocks = Arc::new(r);
    let mut sc = d_engine_core::config::SnapshotConfig::default();
    sc.snapshots_dir = dir.path().join("snapshots");
    let smh = Arc::new(DefaultStateMachineHandler::<PT>::new(
        1,
        0,
        file.clone(),
        sc,
        LogSizePolicy::new(1_000_000, Duration::from_secs(3600)),
        None,
        Arc::new(AtomicUsize::new(0)),
    ));
    let read_lease = Arc::new(ReadLease::new());
    read_lease.renew(1, now_ms() + 3_600_000_000);

    // embedded client over the real File engine
    let (cmd_tx, cmd_rx) = mpsc::channel::<ClientCmd>(64);
    spawn_responder(cmd_rx, smh.clone());
    let (event_tx, event_rx) = mpsc::channel(4);
    let emb = Node::<PT>::verif_embedded_client(event_tx, cmd_tx, file.clone(), read_lease.clone(), 7, Duration::from_secs(5));

    // gRPC: real Node handlers behind a real tonic server; its state machine forwards to the real File engine
    let mut msm = d_engine_core::mock_state_machine();
    let f2 = file.clone();
    msm.expect_get_multi().returning(move |keys| f2.get_multi(keys));
    let f3 = file.clone();
    msm.expect_get().returning(move |k| f3.get(k));
    let (sd_tx, sd_rx) = watch::channel(());
    let mut cfg = d_engine_core::RaftNodeConfig::default();
    cfg.raft.general_raft_timeout_duration_in_ms = 5_000;
    let raft = MockBuilder::new(sd_rx.clone()).with_node_config(cfg).build_raft();
    let (gcmd_tx, gcmd_rx) = mpsc::channel::<ClientCmd>(64);
    spawn_responder(gcmd_rx, smh.clone());
    let node = Node::<MT>::verif_new(raft, gcmd_tx, Arc::new(msm), read_lease.clone(), sd_rx.clone());
    let port = {
        let l = std::net::TcpListener::bind("127.0.0.1:0").unwrap();
        l.local_addr().unwrap().port()
    };
    let sock: std::net::SocketAddr = format!("127.0.0.1:{}", port).parse().unwrap();
    let addr = format!("http://127.0.0.1:{}", port);
    let cluster = Cluster { addr: addr.clone() };
    tokio::spawn(async move {
        let _ = tonic::transport::Server::builder()
            .add_service(ClusterManagementServiceServer::new(cluster))
            .add_service(RaftClientServiceServer::new(node))
            .serve(sock)
            .await;
    });
    // the client's bootstrap retries until the server is up
    let grpc = ClientBuilder::new(vec![addr]).connect_timeout(Duration::from_secs(5)).request_timeout(Duration::from_secs(10)).build().await.expect("grpc client");
    World {
        _dir: dir,
        file,
        rocks,
        smh,
        emb,
        grpc,
        _keep: vec![Box::new(sd_tx), Box::new(event_rx)],
        used: 0,
    }
}

fn world() -> &'static Mutex<Option<World>> {
    static W: OnceLock<Mutex<Option<World>>> = OnceLock::new();
    W.get_or_init(|| Mutex::new(None))
}

fn show_aligned(r: Result<Vec<Option<Bytes>>, ()>) -> String {
    match r {
        Err(()) => "err".into(),
        Ok(v) if v.is_empty() => ".".into(),
        Ok(v) => v.iter().map(|o| o.as_ref().map(|b| hex(b)).unwrap_or_else(|| "_".into())).collect::<Vec<_>>().join(","),
    }
}
fn show_sparse(v: Vec<(Bytes, Bytes)>) -> String {
    if v.is_empty() { ".".into() } else { v.iter().map(|(k, x)| format!("{}:{}", hex(k), hex(x))).collect::<Vec<_>>().join(",") }
}

async fn run_case(w: &mut World, case: &str) -> String {
    let body = case.rsplit_once('|').map(|x| x.1).unwrap_or(case);
    w.file.reset().await.unwrap();
    StateMachine::reset(w.rocks.as_ref()).await.unwrap();
    let mut idx = 0u64;
    let mut groups: Vec<String> = vec![];
    for t in body.split(';').filter(|t| !t.is_empty()) {
        let f: Vec<&str> = t.split(':').collect();
        match (f[0], f.len()) {
            ("p", 3) | ("d", 2) => {
                idx += 1;
                let command = if f[0] == "p" {
                    Command::Insert { key: Bytes::from(unhex(f[1])), value: Bytes::from(unhex(f[2])), ttl_secs: None }
                } else {
                    Command::Delete { key: Bytes::from(unhex(f[1])) }
                };
                let e = [ApplyEntry { index: idx, term: 1, command }];
                w.file.apply_chunk(&e).await.unwrap();
                w.rocks.apply_chunk(&e).await.unwrap();
            }
            ("R", 2) => {
                let keys: Vec<Bytes> =
                    if f[1].is_empty() { vec![] } else { f[1].split(',').map(|k| Bytes::from(unhex(k))).collect() };
                let ef = w.file.get_multi(&keys).map_err(|_| ());
                let er = w.rocks.get_multi(&keys).map_err(|_| ());
                let smh = w.smh.read_from_state_machine(keys.clone()).unwrap_or_default();
                let fpr = match &ef {
                    Ok(vals) => {
                        let resp = d_engine_server::verif_proto_convert::fast_path_batch_read_response(&keys, vals.clone());
                        match resp.success_result {
                            Some(d_engine_proto::client::client_response::SuccessResult::ReadData(rd)) if resp.error == 0 => {
                                show_sparse(rd.results.into_iter().map(|e| (e.key, e.value)).collect())
                            }
                            _ => "bad-response".into(),
                        }
                    }
                    Err(()) => "err".into(),
                };
                let embf = w.emb.get_multi_with_consistency(&keys, Pol::EventualConsistency).await.map_err(|_| ());
                let embl = w.emb.get_multi_with_consistency(&keys, Pol::LeaseRead).await.map_err(|_| ());
                let embc = w.emb.get_multi_with_consistency(&keys, Pol::LinearizableRead).await.map_err(|_| ());
                let gf = ClientApi::get_multi_with_policy(&*w.grpc, &keys, Some(Pol::EventualConsistency)).await.map_err(|_| ());
                let gl = ClientApi::get_multi_with_policy(&*w.grpc, &keys, Some(Pol::LeaseRead)).await.map_err(|_| ());
                let gc = ClientApi::get_multi_with_policy(&*w.grpc, &keys, Some(Pol::LinearizableRead)).await.map_err(|_| ());
                groups.push(format!(
                    "ef={} er={} smh={} fpr={} embf={} embl={} embc={} gf={} gl={} gc={}",
                    show_aligned(ef),
                    show_aligned(er),
                    show_sparse(smh.into_iter().map(|e| (e.key, e.value)).collect()),
                    fpr,
                    show_aligned(embf),
                    show_aligned(embl),
                    show_aligned(embc),
                    show_aligned(gf),
                    show_aligned(gl),
                    show_aligned(gc)
                ));
            }
            _ => return "bad-case".into(),
        }
    }
    if groups.is_empty() { "-".into() } else { groups.join(" / ") }
}

fn exec(case: &str) -> String {
    let mut g = world().lock().unwrap_or_else(|e| e.into_inner());
    rt().block_on(async {
        if g.as_ref().map(|w| w.used >= 2000).unwrap_or(true) {
            *g = None;
            *g = Some(build_world().await);
        }
        let w = g.as_mut().unwrap();
        w.used += 1;
        run_case(w, case).await
    })
}

// ------------------------------------------------------------------------------------------ generator
const KEYS: [&str; 7] = ["61", "62", "6162", "-", "ff", "61ff", "00"];
const VALS: [&str; 4] = ["78", "-", "7879", "00"];

fn generate(r: &mut Rng, n: usize, _tier: &str) -> Vec<String> {
    let mut out = vec![
        "mread|R:".to_string(),
        "mread|R:61".to_string(),
        "mread|p:61:78;R:61,61".to_string(),
        "mread|p:61:-;R:61,62".to_string(),
        "mread|p:-:78;R:-,61,-".to_string(),
    ];
    for _ in 0..n {
        let keys: Vec<&str> = if r.chance(1, 2) { KEYS[..3].to_vec() } else { KEYS.to_vec() };
        let mut ops = vec![];
        for _ in 0..r.range(0, 6) {
            if r.chance(3, 4) {
                ops.push(format!("p:{}:{}", r.pick(&keys), r.pick(&VALS)));
            } else {
                ops.push(format!("d:{}", r.pick(&keys)));
            }
        }
        for _ in 0..r.range(1, 2) {
            let nk = match r.below(8) {
                0 => 0,
                1 => 1,
                _ => r.range(2, 6),
            };
            // duplicates are likely (small alphabet), missing keys too
            let ks: Vec<String> = (0..nk).map(|_| r.pick(&keys).to_string()).collect();
            ops.push(format!("R:{}", ks.join(",")));
            if r.chance(1, 3) {
                ops.push(format!("d:{}", r.pick(&keys)));
            }
        }
        out.push(format!("mread|{}", ops.join(";")));
    }
    out
}

fn main() {
    family_main(generate, exec);
}
