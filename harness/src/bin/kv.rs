//! Family `kv` (C22, C25): the two REAL state machines (`FileStateMachine`, `RocksDBStateMachine`) in temp
//! dirs, driven with the same command lists through the real decode path
//! (`WriteCommand` → `client_command_to_entry_payloads` → `Entry` → `decode_entries` → `apply_chunk`),
//! reads through `get` / `get_multi` / `scan_prefix`.
//!
//! Case: `kv|op;op;...`
//!   p:<k>:<v>:<ttl>   insert (ttl decimal, 0 = none)      d:<k>   delete
//!   c:<k>:<e>:<v>     CAS, e = `_` (None) | hex | `-`       n / f   Noop / Config entry
//!   /                 chunk boundary (apply pending chunk)  i:<n>   next entry gets index n
//!   G:<k>  M:<k>,<k>  S:<p>   get / get_multi / scan_prefix (flush the pending chunk first)
//!   U:<p>             the private `prefix_successor(p)` of the RocksDB engine (hook), printed as a read `U<hex|_>`
//!   L:<r>:<d>:<p>     (C25) the API path: REAL `RaftRoleState::push_client_cmd(ClientCmd::Scan(p, ..))` on a real
//!                     `LeaderState` (r=l) / `FollowerState` (f) / `CandidateState` (c) / `LearnerState` (n) whose
//!                     `RaftContext` holds THIS engine as state machine and whose commit index is
//!                     last_applied + d (committed-but-unapplied entries); prints the answer like `S..@rev`, or
//!                     `Enot-leader` / `E<code>`
//!   X:<p>             (C25) scan_prefix(p) with the pending chunk applied *inside* the scan/apply gap:
//!                     RocksDB: between the revision load and the iterator creation (since the F24 fix; hook
//!                     `verif_set_rocks_scan_gap_callback`);
//!                     File: the scan runs between the memory update and `update_last_applied`
//!                     (hook `verif_apply_gap`).
//! bytes are lowercase hex, `-` = empty.
//! Output: `file{flags=.. reads=.. kv=.. len=.. la=i.t} rocks{...}`; hash-map ordered results are sorted
//! by key (File scan), RocksDB scan results are printed in the order the iterator returned them.
use bytes::Bytes;
use d_engine_core::{ApplyEntry, StateMachine, client_command_to_entry_payloads, decode_entries};
use d_engine_proto::client::WriteCommand;
use d_engine_proto::common::{Entry, EntryPayload, MembershipChange, Noop, entry_payload::Payload};
use d_engine_server::storage::{FileStateMachine, RocksDBStateMachine, TtlLease};
use dv::{family_main, hex, rng::Rng, unhex};
use std::panic::AssertUnwindSafe;
use std::sync::{Arc, Mutex, OnceLock};

const TERM: u64 = 1;

fn rt() -> &'static tokio::runtime::Runtime {
    static RT: OnceLock<tokio::runtime::Runtime> = OnceLock::new();
    RT.get_or_init(|| tokio::runtime::Builder::new_current_thread().enable_all().build().unwrap())
}

#[derive(Clone, Debug)]
enum Op {
    Cmd(Option<WriteCommand>, bool), // None = noop (bool: config instead of noop)
    Cut,
    Index(u64),
    Get(Vec<u8>),
    Multi(Vec<Vec<u8>>),
    Scan(Vec<u8>),
    GapScan(Vec<u8>),
    Succ(Vec<u8>),
    /// role (l/f/c/n), commit index = last_applied + delta, prefix
    RoleScan(char, u64, Vec<u8>),
}

fn parse(case: &str) -> Option<Vec<Op>> {
    let body = case.rsplit_once('|').map(|x| x.1).unwrap_or(case);
    let mut ops = vec![];
    for t in body.split(';').filter(|t| !t.is_empty()) {
        let f: Vec<&str> = t.split(':').collect();
        let op = match (f[0], f.len()) {
            ("p", 4) => Op::Cmd(
                Some(WriteCommand::insert_with_ttl(unhex(f[1]), unhex(f[2]), f[3].parse().ok()?)),
                false,
            ),
            ("d", 2) => Op::Cmd(Some(WriteCommand::delete(unhex(f[1]))), false),
            ("c", 4) => {
                let e = if f[2] == "_" { None } else { Some(unhex(f[2])) };
                Op::Cmd(Some(WriteCommand::compare_and_swap(unhex(f[1]), e, unhex(f[3]))), false)
            }
            ("n", 1) => Op::Cmd(None, false),
            ("f", 1) => Op::Cmd(None, true),
            ("/", 1) => Op::Cut,
            ("i", 2) => Op::Index(f[1].parse().ok()?),
            ("G", 2) => Op::Get(unhex(f[1])),
            ("M", 2) => Op::Multi(if f[1].is_empty() { vec![] } else { f[1].split(',').map(unhex).collect() }),
            ("S", 2) => Op::Scan(unhex(f[1])),
            ("X", 2) => Op::GapScan(unhex(f[1])),
            ("U", 2) => Op::Succ(unhex(f[1])),
            ("L", 4) => Op::RoleScan(f[1].chars().next()?, f[2].parse().ok()?, unhex(f[3])),
            _ => return None,
        };
        ops.push(op);
    }
    Some(ops)
}

fn entry(index: u64, cmd: &Option<WriteCommand>, config: bool) -> Entry {
    let payload = match cmd {
        Some(wc) => client_command_to_entry_payloads(vec![wc.clone()]).into_iter().next().unwrap(),
        None if config => EntryPayload { payload: Some(Payload::Config(MembershipChange { change: None })) },
        None => EntryPayload { payload: Some(Payload::Noop(Noop {})) },
    };
    Entry { index, term: TERM, payload: Some(payload) }
}

fn opt(v: &Option<Bytes>) -> String {
    match v {
        None => "_".into(),
        Some(b) => hex(b),
    }
}

fn show_scan(mut es: Vec<(Bytes, Bytes)>, rev: u64, sort: bool) -> String {
    if sort {
        es.sort();
    }
    let body: Vec<String> = es.iter().map(|(k, v)| format!("{}:{}", hex(k), hex(v))).collect();
    format!("S{}@{}", body.join(","), rev)
}

/// Which engine-specific gap hook to use for `X`.
#[derive(Clone, Copy, PartialEq)]
enum Kind {
    File,
    Rocks,
}

type GapSlot = Mutex<Option<Box<dyn FnMut() + Send>>>;
fn gap_slot() -> &'static GapSlot {
    static S: OnceLock<GapSlot> = OnceLock::new();
    S.get_or_init(|| Mutex::new(None))
}
/// Installed once: the repo's hooks call this at the gap; it runs (and consumes) the armed closure.
fn gap_callback() {
    let f = gap_slot().lock().unwrap().take();
    if let Some(mut f) = f {
        f();
    }
}

fn run_engine<S: StateMachine + std::fmt::Debug>(sm: Arc<S>, kind: Kind, ops: &[Op], universe: &[Vec<u8>]) -> String {
    let mut flags = String::new();
    let mut reads: Vec<String> = vec![];
    let mut pending: Vec<Entry> = vec![];
    let mut next: u64 = 1;
    let flush = |pending: &mut Vec<Entry>, flags: &mut String| -> Result<(), String> {
        if pending.is_empty() {
            return Ok(());
        }
        let decoded: Vec<ApplyEntry> = decode_entries(std::mem::take(pending)).map_err(|_| "decode-error".to_string())?;
        let res = rt().block_on(sm.apply_chunk(&decoded)).map_err(|_| "apply-error".to_string())?;
        if res.len() != decoded.len() {
            return Err("result-length".into());
        }
        for (r, e) in res.iter().zip(decoded.iter()) {
            if r.index != e.index {
                return Err("result-index".into());
            }
            flags.push(if r.succeeded { '1' } else { '0' });
        }
        Ok(())
    };
    for op in ops {
        match op {
            Op::Cmd(c, cfg) => {
                pending.push(entry(next, c, *cfg));
                next += 1;
            }
            Op::Index(n) => next = *n,
            Op::Cut => {
                if let Err(e) = flush(&mut pending, &mut flags) {
                    return e;
                }
            }
            Op::Get(k) => {
                if let Err(e) = flush(&mut pending, &mut flags) {
                    return e;
                }
                match sm.get(k) {
                    Ok(v) => reads.push(format!("G{}", opt(&v))),
                    Err(_) => return "get-error".into(),
                }
            }
            Op::Multi(ks) => {
                if let Err(e) = flush(&mut pending, &mut flags) {
                    return e;
                }
                let keys: Vec<Bytes> = ks.iter().map(|k| Bytes::from(k.clone())).collect();
                match sm.get_multi(&keys) {
                    Ok(vs) => reads.push(format!("M{}", vs.iter().map(opt).collect::<Vec<_>>().join(","))),
                    Err(_) => return "get-multi-error".into(),
                }
            }
            Op::Scan(p) => {
                if let Err(e) = flush(&mut pending, &mut flags) {
                    return e;
                }
                match sm.scan_prefix(p) {
                    Ok(r) => reads.push(show_scan(r.entries, r.revision, kind == Kind::File)),
                    Err(_) => return "scan-error".into(),
                }
            }
            Op::Succ(p) => {
                // the private `prefix_successor` (hook); does not touch the engine
                let u = d_engine_server::storage::verif_prefix_successor(p);
                reads.push(format!("U{}", u.map(|v| hex(&v)).unwrap_or_else(|| "_".into())));
            }
            Op::RoleScan(role, delta, p) => {
                if let Err(e) = flush(&mut pending, &mut flags) {
                    return e;
                }
                reads.push(role_scan(sm.clone(), *role, *delta, p, kind == Kind::File));
            }
            Op::GapScan(p) => {
                // the pending chunk is applied "concurrently" with the scan, at the engine's gap
                let chunk = std::mem::take(&mut pending);
                let out: Arc<Mutex<Option<Result<String, String>>>> = Arc::new(Mutex::new(None));
                match kind {
                    Kind::Rocks => {
                        // scan runs; between its revision load and the iterator creation the chunk is applied
                        let sm2 = sm.clone();
                        let o2 = out.clone();
                        let n = chunk.len();
                        *gap_slot().lock().unwrap() = Some(Box::new(move || {
                            if n == 0 {
                                *o2.lock().unwrap() = Some(Ok(String::new()));
                                return;
                            }
                            let r = (|| -> Result<String, String> {
                                let decoded = decode_entries(chunk.clone()).map_err(|_| "decode-error".to_string())?;
                                let res =
                                    rt().block_on(sm2.apply_chunk(&decoded)).map_err(|_| "apply-error".to_string())?;
                                Ok(res.iter().map(|r| if r.succeeded { '1' } else { '0' }).collect())
                            })();
                            *o2.lock().unwrap() = Some(r);
                        }));
                        let r = sm.scan_prefix(p);
                        // empty-prefix scans return before the gap: run the armed apply now
                        gap_callback();
                        match out.lock().unwrap().take() {
                            Some(Ok(f)) => flags.push_str(&f),
                            Some(Err(e)) => return e,
                            None => return "gap-not-reached".into(),
                        }
                        match r {
                            Ok(r) => reads.push(show_scan(r.entries, r.revision, false)),
                            Err(_) => return "scan-error".into(),
                        }
                    }
                    Kind::File => {
                        // apply runs; between memory update and update_last_applied the scan runs
                        let sm2 = sm.clone();
                        let o2 = out.clone();
                        let p2 = p.clone();
                        *gap_slot().lock().unwrap() = Some(Box::new(move || {
                            let r = sm2
                                .scan_prefix(&p2)
                                .map(|r| show_scan(r.entries, r.revision, true))
                                .map_err(|_| "scan-error".to_string());
                            *o2.lock().unwrap() = Some(r);
                        }));
                        if !chunk.is_empty() {
                            pending = chunk;
                            if let Err(e) = flush(&mut pending, &mut flags) {
                                return e;
                            }
                        }
                        gap_callback(); // empty chunk: no apply, the scan just runs
                        match out.lock().unwrap().take() {
                            Some(Ok(s)) => reads.push(s),
                            Some(Err(e)) => return e,
                            None => return "gap-not-reached".into(),
                        }
                    }
                }
            }
        }
    }
    if let Err(e) = flush(&mut pending, &mut flags) {
        return e;
    }
    let mut kv = vec![];
    for k in universe {
        match sm.get(k) {
            Ok(Some(v)) => kv.push(format!("{}:{}", hex(k), hex(&v))),
            Ok(None) => {}
            Err(_) => return "get-error".into(),
        }
    }
    let la = sm.last_applied();
    format!(
        "flags={} reads={} kv={} len={} la={}.{}",
        if flags.is_empty() { "-".into() } else { flags },
        if reads.is_empty() { "-".into() } else { reads.join("/") },
        if kv.is_empty() { "-".into() } else { kv.join(",") },
        sm.len(),
        la.index,
        la.term
    )
}


// ---------------------------------------------------------------------------------- API path (role states)
/// Everything mocked except the state machine, which is the real engine under test.
#[derive(Debug)]
struct KT<S>(std::marker::PhantomData<fn() -> S>);
impl<S: StateMachine + std::fmt::Debug> d_engine_core::TypeConfig for KT<S> {
    type SE = d_engine_core::MockStorageEngine;
    type SM = S;
    type R = d_engine_core::MockRaftLog;
    type M = d_engine_core::MockMembership<Self>;
    type TR = d_engine_core::MockTransport<Self>;
    type E = d_engine_core::MockElectionCore<Self>;
    type REP = d_engine_core::MockReplicationCore<Self>;
    type C = d_engine_core::MockCommitHandler;
    type SMH = d_engine_core::MockStateMachineHandler<Self>;
    type SNP = d_engine_core::MockSnapshotPolicy;
    type PE = d_engine_core::MockPurgeExecutor;
}

fn role_scan<S: StateMachine + std::fmt::Debug>(sm: Arc<S>, role: char, delta: u64, p: &[u8], sort: bool) -> String {
    use d_engine_core::role_state::RaftRoleState;
    use d_engine_core::{ClientCmd, MaybeCloneOneshot, RaftContext, RaftCoreHandlers, RaftOneshot, RaftStorageHandles};
    rt().block_on(async {
        let cfg = Arc::new(d_engine_core::RaftNodeConfig::default());
        let commit = sm.last_applied().index + delta;
        let ctx = RaftContext::<KT<S>> {
            node_id: 1,
            storage: RaftStorageHandles { raft_log: Arc::new(d_engine_core::MockRaftLog::new()), state_machine: sm.clone() },
            transport: Arc::new(d_engine_core::MockTransport::new()),
            membership: Arc::new(d_engine_core::MockMembership::new()),
            handlers: RaftCoreHandlers {
                election_handler: d_engine_core::MockElectionCore::new(),
                replication_handler: d_engine_core::MockReplicationCore::new(),
                state_machine_handler: Arc::new(d_engine_core::MockStateMachineHandler::new()),
                purge_executor: Arc::new(d_engine_core::MockPurgeExecutor::new()),
            },
            node_config: cfg.clone(),
        };
        let (tx, mut rx) = MaybeCloneOneshot::new();
        let cmd = ClientCmd::Scan(Bytes::copy_from_slice(p), tx);
        match role {
            'l' => {
                let mut st = d_engine_core::leader_state::LeaderState::<KT<S>>::new(1, cfg.clone());
                st.update_commit_index(commit).unwrap();
                st.push_client_cmd(cmd, &ctx);
            }
            'f' => {
                let mut st = d_engine_core::follower_state::FollowerState::<KT<S>>::new(1, cfg.clone(), None, None);
                st.update_commit_index(commit).unwrap();
                st.push_client_cmd(cmd, &ctx);
            }
            'c' => {
                let f = d_engine_core::follower_state::FollowerState::<KT<S>>::new(1, cfg.clone(), None, None);
                let mut st = d_engine_core::candidate_state::CandidateState::from(&f);
                st.update_commit_index(commit).unwrap();
                st.push_client_cmd(cmd, &ctx);
            }
            'n' => {
                let mut st = d_engine_core::learner_state::LearnerState::<KT<S>>::new(1, cfg.clone());
                st.update_commit_index(commit).unwrap();
                st.push_client_cmd(cmd, &ctx);
            }
            _ => return "Ebad-role".to_string(),
        }
        match rx.try_recv() {
            Ok(Ok(r)) => show_scan(r.entries, r.revision, sort),
            Ok(Err(st)) if st.code() == tonic::Code::FailedPrecondition && st.message() == "Not leader" => "Enot-leader".into(),
            Ok(Err(st)) => format!("E{:?}", st.code()),
            Err(_) => "Eno-answer".into(),
        }
    })
}

fn universe(ops: &[Op]) -> Vec<Vec<u8>> {
    use d_engine_proto::client::write_command::Operation;
    let mut u: Vec<Vec<u8>> = vec![];
    for op in ops {
        match op {
            Op::Cmd(Some(wc), _) => match &wc.operation {
                Some(Operation::Insert(i)) => u.push(i.key.to_vec()),
                Some(Operation::Delete(d)) => u.push(d.key.to_vec()),
                Some(Operation::CompareAndSwap(c)) => u.push(c.key.to_vec()),
                None => {}
            },
            Op::Get(k) => u.push(k.clone()),
            Op::Multi(ks) => u.extend(ks.iter().cloned()),
            _ => {}
        }
    }
    u.sort();
    u.dedup();
    u
}

fn lease() -> Arc<TtlLease> {
    Arc::new(TtlLease::new(d_engine_core::config::LeaseConfig { cleanup_interval_ms: 1000, max_cleanup_duration_ms: 1 }))
}

/// The engines are opened once per process (opening/closing a RocksDB instance costs ~0.2 s here) and
/// brought back to the empty state with the real `reset()` before every case; after a panic, and every
/// 500 cases, they are dropped and re-opened in a fresh temp dir.
struct Pool {
    _dir: tempfile::TempDir,
    file: Arc<FileStateMachine>,
    rocks: Arc<RocksDBStateMachine>,
    used: usize,
}

fn new_pool() -> Pool {
    std::fs::create_dir_all("/verif/target/tmp").ok();
    let dir = tempfile::tempdir_in("/verif/target/tmp").unwrap();
    let mut f = rt().block_on(FileStateMachine::new(dir.path().join("file"))).unwrap();
    f.set_lease(lease());
    let mut r = RocksDBStateMachine::new(dir.path().join("rocks")).unwrap();
    r.set_lease(lease());
    Pool { _dir: dir, file: Arc::new(f), rocks: Arc::new(r), used: 0 }
}

fn pool() -> &'static Mutex<Option<Pool>> {
    static P: OnceLock<Mutex<Option<Pool>>> = OnceLock::new();
    P.get_or_init(|| Mutex::new(None))
}

fn exec(case: &str) -> String {
    let Some(ops) = parse(case) else { return "bad-case".into() };
    let uni = universe(&ops);
    install_hooks();
    let mut guard = pool().lock().unwrap_or_else(|e| e.into_inner());
    if guard.as_ref().map(|p| p.used >= 500).unwrap_or(true) {
        *guard = None; // drop the old engines first (RocksDB lock, files)
        *guard = Some(new_pool());
    }
    let p = guard.as_mut().unwrap();
    p.used += 1;
    let (fsm, rsm) = (p.file.clone(), p.rocks.clone());
    let mut poisoned = false;
    let f = std::panic::catch_unwind(AssertUnwindSafe(|| {
        rt().block_on(fsm.reset()).unwrap();
        run_engine(fsm.clone(), Kind::File, &ops, &uni)
    }))
    .unwrap_or_else(|_| {
        poisoned = true;
        "panic".into()
    });
    *gap_slot().lock().unwrap() = None;
    let r = std::panic::catch_unwind(AssertUnwindSafe(|| {
        rt().block_on(StateMachine::reset(rsm.as_ref())).unwrap();
        run_engine(rsm.clone(), Kind::Rocks, &ops, &uni)
    }))
    .unwrap_or_else(|_| {
        poisoned = true;
        "panic".into()
    });
    *gap_slot().lock().unwrap() = None;
    if poisoned {
        drop(fsm);
        drop(rsm);
        *guard = None;
    }
    format!("file{{{}}} rocks{{{}}}", f, r)
}

fn install_hooks() {
    static ONCE: OnceLock<()> = OnceLock::new();
    ONCE.get_or_init(|| {
        d_engine_server::storage::verif_set_file_apply_gap_callback(gap_callback);
        d_engine_server::storage::verif_set_rocks_scan_gap_callback(gap_callback);
    });
}

// ------------------------------------------------------------------------------------------ generator
const KEYS: [&str; 10] = ["61", "62", "6162", "61ff", "ff", "ffff", "61ff00", "6200", "-", "616263"];
const VALS: [&str; 4] = ["78", "79", "-", "7879"];
const PREFIXES: [&str; 9] = ["61", "62", "61ff", "ff", "ffff", "6162", "-", "63", "61ffff"];

/// `shadow` follows the reference semantics so that CAS expectations can be made to match (or just miss)
/// the current value on purpose.
fn gen_cmd(r: &mut Rng, keys: &[&str], vals: &[&str], shadow: &mut std::collections::HashMap<String, String>) -> String {
    let k = *r.pick(keys);
    match r.below(10) {
        0..=3 => {
            let ttl = if r.chance(1, 5) { *r.pick(&[100000u64, 0, u64::MAX / 4, 3600]) } else { 0 };
            let v = *r.pick(vals);
            shadow.insert(k.to_string(), v.to_string());
            format!("p:{}:{}:{}", k, v, ttl)
        }
        4 | 5 => {
            shadow.remove(k);
            format!("d:{}", k)
        }
        6..=8 => {
            let cur = shadow.get(k).cloned();
            let e = match r.below(4) {
                0 | 1 => cur.clone().unwrap_or_else(|| "_".to_string()), // matches the current state
                2 => "_".to_string(),
                _ => r.pick(vals).to_string(),
            };
            let v = *r.pick(vals);
            if cur.clone().unwrap_or_else(|| "_".to_string()) == e {
                shadow.insert(k.to_string(), v.to_string());
            }
            format!("c:{}:{}:{}", k, e, v)
        }
        _ => (if r.chance(1, 2) { "n" } else { "f" }).to_string(),
    }
}

fn gen_read(r: &mut Rng, keys: &[&str]) -> String {
    if r.chance(1, 6) {
        let role = *r.pick(&["l", "l", "l", "l", "f", "c", "n"]);
        let delta = *r.pick(&[0u64, 0, 1, 2, 5, 1000]);
        return format!("L:{}:{}:{}", role, delta, r.pick(&PREFIXES));
    }
    if r.chance(1, 8) {
        let n = r.below(4);
        let p: String = (0..n).map(|_| *r.pick(&["ff", "ff", "00", "61", "fe", "7f", "80"])).collect();
        return format!("U:{}", if p.is_empty() { "-".to_string() } else { p });
    }
    match r.below(3) {
        0 => format!("G:{}", r.pick(keys)),
        1 => {
            let n = r.below(5);
            format!("M:{}", (0..n).map(|_| r.pick(keys).to_string()).collect::<Vec<_>>().join(","))
        }
        _ => format!("S:{}", r.pick(&PREFIXES)),
    }
}

/// all command lists over 2 keys × 2 values (19 commands), length `len`, as index vectors
fn small_cmds() -> Vec<String> {
    let ks = ["61", "62"];
    let vs = ["78", "79"];
    let mut out = vec!["n".to_string()];
    for k in ks {
        for v in vs {
            out.push(format!("p:{}:{}:0", k, v));
        }
        out.push(format!("d:{}", k));
        for e in ["_", "78", "79"] {
            for v in vs {
                out.push(format!("c:{}:{}:{}", k, e, v));
            }
        }
    }
    out
}

fn with_chunking(cmds: &[String], mask: u32) -> String {
    let mut s: Vec<String> = vec![];
    for (i, c) in cmds.iter().enumerate() {
        s.push(c.clone());
        if i + 1 < cmds.len() && mask & (1 << i) != 0 {
            s.push("/".into());
        }
    }
    format!("kv|{};S:61;M:61,62", s.join(";"))
}

fn generate(r: &mut Rng, n: usize, tier: &str) -> Vec<String> {
    let mut out = vec![];
    let small = small_cmds();
    // small-scope exhaustive part: all lists of length ≤ L over 19 commands × all chunkings
    let exhaustive_len = if tier == "thorough" { 3 } else { 2 };
    for len in 1..=exhaustive_len {
        let total = small.len().pow(len as u32);
        for code in 0..total {
            let mut c = code;
            let cmds: Vec<String> = (0..len)
                .map(|_| {
                    let x = small[c % small.len()].clone();
                    c /= small.len();
                    x
                })
                .collect();
            for mask in 0..(1u32 << (len - 1)) {
                out.push(with_chunking(&cmds, mask));
            }
        }
    }
    // sampled lists of length 4..5 over the same alphabet, ALL chunkings of each list
    let sampled = if tier == "thorough" { n / 16 } else { n / 64 };
    for _ in 0..sampled {
        let len = r.range(4, 5) as usize;
        let cmds: Vec<String> = (0..len).map(|_| r.pick(&small).clone()).collect();
        for mask in 0..(1u32 << (len - 1)) {
            out.push(with_chunking(&cmds, mask));
        }
    }
    // structured random: wider alphabet (empty key/value, 0xFF keys), reads interleaved, TTL field set
    for i in 0..n {
        let keys: Vec<&str> = if r.chance(1, 2) { KEYS[..3].to_vec() } else { KEYS.to_vec() };
        let len = r.range(1, 14);
        let mut ops: Vec<String> = vec![];
        let malformed = i % 7 == 0;
        let gap = i % 5 == 1;
        let mut shadow = std::collections::HashMap::new();
        for _ in 0..len {
            match r.below(12) {
                0 | 1 => ops.push("/".into()),
                2 => ops.push(gen_read(r, &keys)),
                3 if malformed => ops.push(format!("i:{}", r.below(6))),
                3 if gap => ops.push(format!("X:{}", r.pick(&PREFIXES))),
                _ => ops.push(gen_cmd(r, &keys, &VALS, &mut shadow)),
            }
        }
        if gap {
            ops.push(format!("X:{}", r.pick(&PREFIXES)));
        }
        if i % 4 == 2 {
            // API path with committed-but-unapplied entries (commit index ahead of last_applied)
            ops.push(format!("L:l:{}:{}", r.pick(&[1u64, 2, 7]), r.pick(&PREFIXES)));
        }
        ops.push(format!("S:{}", r.pick(&PREFIXES)));
        out.push(format!("kv|{}", ops.join(";")));
    }
    out
}

fn main() {
    family_main(generate, exec);
}
