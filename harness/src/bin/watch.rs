//! Family `watch` (C24): REAL `WatchRegistry` + REAL `WatchDispatcher::run` (spawned task) + real tokio
//! broadcast/mpsc channels, fed by the REAL `DefaultStateMachineHandler::apply_chunk`
//! (`read_prev_values`, `broadcast_watch_events`) over the real `FileStateMachine`; current-thread runtime
//! with paused clock, deterministic stepping by yielding.
//!
//! Case: `buf=<watcher_buffer_size> q=<event_queue_size> max=<max_watcher_count> hb=<0|1> la=<n>|op;op;...`
//!   x:<cmd>,<cmd>..   handler.apply_chunk of one chunk; cmd = p.<key>.<v> | d.<key> | c.<key>.<e|n>.<v> | n
//!   r:<key>:<0|1>     register(key, prev_kv)          R:<prefix>:<0|1>   register_prefix(prefix, prev_kv)
//!   d                 dispatcher task runs until idle
//!   h                 heartbeat interval fires (clock advanced), dispatcher runs until idle
//!   t:<id>:<n>        watcher <id> takes up to n events from its channel
//!   u:<id>            watcher handle dropped          v:<id>   into_receiver() then receiver dropped
//! After the last op: dispatcher runs until idle, every live watcher drains its channel.
//! `la` = value of the dispatcher's `last_applied` counter, wired exactly as NodeBuilder does
//! (`Arc::new(AtomicU64::new(last_applied_index))`, handed to the dispatcher, never written afterwards).
//! Output: `reg=<ok|limit|invalid,..> w1=<events> w2=<events> .. pk=<prev_kv_watcher_count>`
//!   event = <P|D|C|G>.<key>.<value|_>.<revision>.<prev: - (not requested) | _ (empty) | value>
#[path = "../apply_common.rs"]
mod common;
use bytes::Bytes;
use common::*;
use d_engine_core::watch::{WatchDispatcher, WatchEvent, WatchEventType, WatchRegistry, WatcherHandle};
use d_engine_core::{DefaultStateMachineHandler, MockSnapshotPolicy, SnapshotConfig, StateMachineHandler};
use d_engine_proto::client::WriteCommand;
use d_engine_proto::common::{Entry, EntryPayload};
use d_engine_server::storage::FileStateMachine;
use dv::{family_main, fields, rng::Rng};
use prost::Message;
use std::sync::Arc;
use std::sync::atomic::AtomicU64;
use std::time::Duration;
use tokio::sync::{broadcast, mpsc};

fn show_bytes(b: &[u8]) -> String {
    if b.is_empty() { "_".into() } else { String::from_utf8_lossy(b).to_string() }
}

fn show_event(e: &WatchEvent) -> String {
    let t = match e.event_type {
        WatchEventType::Put => "P",
        WatchEventType::Delete => "D",
        WatchEventType::Canceled => "C",
        WatchEventType::Progress => "G",
    };
    let prev = match &e.prev_value {
        None => "-".to_string(),
        Some(b) => show_bytes(b),
    };
    format!("{}.{}.{}.{}.{}", t, String::from_utf8_lossy(&e.key), show_bytes(&e.value), e.revision, prev)
}

fn cmd_entry(tok: &str, index: u64) -> Option<Entry> {
    let f: Vec<&str> = tok.split('.').collect();
    let enc = |wc: WriteCommand| {
        let mut buf = Vec::new();
        wc.encode(&mut buf).unwrap();
        EntryPayload::command(Bytes::from(buf))
    };
    let payload = match (f[0], f.len()) {
        ("p", 3) => enc(WriteCommand::insert(f[1].as_bytes().to_vec(), val_bytes(f[2].parse().ok()?))),
        ("d", 2) => enc(WriteCommand::delete(f[1].as_bytes().to_vec())),
        ("c", 4) => {
            let e = if f[2] == "n" { None } else { Some(val_bytes(f[2].parse().ok()?)) };
            enc(WriteCommand::compare_and_swap(f[1].as_bytes().to_vec(), e, val_bytes(f[3].parse().ok()?)))
        }
        ("n", 1) => EntryPayload::noop(),
        _ => return None,
    };
    Some(Entry { index, term: TERM, payload: Some(payload) })
}

struct W {
    handle: Option<WatcherHandle>,
    got: Vec<String>,
}

fn take(w: &mut W, n: usize) {
    if let Some(h) = w.handle.as_mut() {
        for _ in 0..n {
            match h.receiver_mut().try_recv() {
                Ok(e) => w.got.push(show_event(&e)),
                Err(_) => break,
            }
        }
    }
}

async fn exec_async(case: &str) -> String {
    let Some((head, body)) = case.rsplit_once('|') else { return "bad-case".into() };
    let f = fields(head);
    let g = |k: &str| f.get(k).and_then(|x| x.parse::<u64>().ok());
    let (Some(buf), Some(q), Some(maxw), Some(hb), Some(la)) = (g("buf"), g("q"), g("max"), g("hb"), g("la")) else {
        return "bad-case".into();
    };
    if q == 0 || q > 1 << 20 {
        return "bad-case".into();
    }
    std::fs::create_dir_all("/verif/target/tmp").ok();
    let dir = tempfile::tempdir_in("/verif/target/tmp").unwrap();
    let fsm = FileStateMachine::new(dir.path().join("sm")).await.unwrap();
    let sm = Arc::new(RecSm::new(fsm, false));
    // apply_chunk must not yield to the dispatcher task in the middle (file IO awaits would)
    sm.sync_inner.store(true, std::sync::atomic::Ordering::SeqCst);

    // wiring as in d-engine-server/src/node/builder.rs (watch_system)
    let (broadcast_tx, broadcast_rx) = broadcast::channel(q as usize);
    let (unregister_tx, unregister_rx) = mpsc::unbounded_channel();
    let registry = Arc::new(WatchRegistry::new_with_limits(buf as usize, maxw as usize, unregister_tx));
    let last_applied_ref = Arc::new(AtomicU64::new(la));
    let hb_ms = if hb > 0 { 1000 } else { 0 };
    let dispatcher = WatchDispatcher::new(Arc::clone(&registry), broadcast_rx, unregister_rx, Arc::clone(&last_applied_ref), hb_ms);
    let dh = tokio::spawn(async move { dispatcher.run().await });
    let mut sc = SnapshotConfig::default();
    sc.snapshots_dir = dir.path().join("snap");
    let handler = DefaultStateMachineHandler::<Tc>::new(
        1,
        la,
        sm.clone(),
        sc,
        MockSnapshotPolicy::new(),
        Some(broadcast_tx.clone()),
        registry.prev_kv_watcher_count_arc(),
    );
    yields(4).await; // let the dispatcher create its interval at t = 0

    let mut ws: Vec<W> = vec![];
    let mut reg: Vec<&str> = vec![];
    let mut next_index = la + 1;
    let mut ticks = 0u64;
    let mut elapsed = 0u64;
    for op in body.split(';').filter(|t| !t.is_empty()) {
        let p: Vec<&str> = op.split(':').collect();
        match (p[0], p.len()) {
            ("x", 2) => {
                let mut chunk = vec![];
                for tok in p[1].split(',').filter(|t| !t.is_empty()) {
                    let Some(e) = cmd_entry(tok, next_index) else { return "bad-case".into() };
                    next_index += 1;
                    chunk.push(e);
                }
                if handler.apply_chunk(chunk).await.is_err() {
                    return "apply-error".into();
                }
            }
            ("r", 3) | ("R", 3) => {
                let key = Bytes::from(p[1].as_bytes().to_vec());
                let pk = p[2] == "1";
                let res = if p[0] == "r" { registry.register(key, pk) } else { registry.register_prefix(key, pk) };
                match res {
                    Ok(h) => {
                        if h.id() != ws.len() as u64 + 1 {
                            return format!("unexpected-watcher-id {}", h.id());
                        }
                        ws.push(W { handle: Some(h), got: vec![] });
                        reg.push("ok");
                    }
                    Err(d_engine_core::watch::WatchError::LimitExceeded(_)) => reg.push("limit"),
                    Err(d_engine_core::watch::WatchError::InvalidPrefix) => reg.push("invalid"),
                }
            }
            ("d", 1) => yields(12).await,
            ("h", 1) => {
                if hb > 0 {
                    ticks += 1;
                    let target = ticks * 1000 + 100;
                    tokio::time::advance(Duration::from_millis(target - elapsed)).await;
                    elapsed = target;
                }
                yields(16).await;
            }
            ("t", 3) => {
                let (Ok(id), Ok(n)) = (p[1].parse::<usize>(), p[2].parse::<usize>()) else { return "bad-case".into() };
                if id >= 1 && id <= ws.len() {
                    take(&mut ws[id - 1], n);
                }
            }
            ("u", 2) | ("v", 2) => {
                let Ok(id) = p[1].parse::<usize>() else { return "bad-case".into() };
                if id >= 1 && id <= ws.len() {
                    if let Some(h) = ws[id - 1].handle.take() {
                        if p[0] == "u" {
                            drop(h);
                        } else {
                            let (_, _, rx) = h.into_receiver();
                            drop(rx);
                        }
                    }
                }
            }
            _ => return "bad-case".into(),
        }
    }
    yields(16).await;
    for w in ws.iter_mut() {
        take(w, usize::MAX);
    }
    let pk = registry.prev_kv_watcher_count();
    dh.abort();
    let mut out = format!("reg={}", if reg.is_empty() { "-".to_string() } else { reg.join(",") });
    for (i, w) in ws.iter().enumerate() {
        out.push_str(&format!(" w{}={}", i + 1, if w.got.is_empty() { "-".to_string() } else { w.got.join(",") }));
    }
    out.push_str(&format!(" pk={}", pk));
    out
}

fn exec(case: &str) -> String {
    let rt = tokio::runtime::Builder::new_current_thread().enable_all().start_paused(true).build().unwrap();
    rt.block_on(exec_async(case))
}

const KEYS: [&str; 9] = ["/a", "/a/", "/a/b", "/a/b/", "/a/b/c", "/ab", "/b", "/", "a"];
const PREFIXES: [&str; 6] = ["/", "/a/", "/a/b/", "/b/", "/a", "a/"];

fn cmd(r: &mut Rng) -> String {
    let k = *r.pick(&KEYS);
    match r.below(8) {
        0..=3 => format!("p.{}.{}", k, r.below(4)),
        4 => format!("d.{}", k),
        5 | 6 => {
            let e = if r.chance(1, 3) { "n".to_string() } else { r.below(4).to_string() };
            format!("c.{}.{}.{}", k, e, r.below(4))
        }
        _ => "n".into(),
    }
}

fn generate(r: &mut Rng, n: usize, tier: &str) -> Vec<String> {
    let mut out = vec![];
    if tier == "thorough" {
        // small-scope exhaustive: every sequence of length <= 5 over a 7-op alphabet, one exact and one
        // prefix watcher, tiny buffer (1) and ring (2), heartbeat on
        let alphabet = ["x:p./a/b.1", "x:c./a/b.1.2,d./a/b", "d", "t:1:1", "t:2:1", "h", "r:/a/b:1"];
        let mut stack: Vec<Vec<&str>> = vec![vec![]];
        while let Some(sq) = stack.pop() {
            if !sq.is_empty() {
                out.push(format!("buf=1 q=2 max=16 hb=1 la=0|r:/a/b:0;R:/a/:0;{}", sq.join(";")));
            }
            if sq.len() < 5 {
                for a in alphabet.iter() {
                    let mut t = sq.clone();
                    t.push(a);
                    stack.push(t);
                }
            }
        }
    }
    for i in 0..n {
        // i % 4 == 3: stress stream (tiny ring / tiny buffers, dispatcher rarely runs); otherwise roomy ring
        let stress = i % 4 == 3;
        let buf = if stress { r.range(0, 2) } else { r.range(1, 4) };
        let q = if stress { r.range(1, 4) } else { r.range(16, 64) };
        let maxw = if r.chance(1, 6) { r.range(0, 2) } else { 16 };
        let hb = if r.chance(1, 3) { 1 } else { 0 };
        let la = if r.chance(1, 4) { r.below(5) } else { 0 };
        let mut ops = vec![];
        let mut nw = 0u64;
        for _ in 0..r.range(1, 3) {
            if r.chance(2, 3) {
                ops.push(format!("r:{}:{}", r.pick(&KEYS), r.below(2)));
            } else {
                ops.push(format!("R:{}:{}", r.pick(&PREFIXES), r.below(2)));
            }
            nw += 1;
        }
        for _ in 0..r.range(3, 22) {
            match r.below(16) {
                0..=5 => {
                    let k = r.range(1, 3);
                    let cs: Vec<String> = (0..k).map(|_| cmd(r)).collect();
                    ops.push(format!("x:{}", cs.join(",")));
                    if !stress || r.chance(1, 3) {
                        ops.push("d".into());
                    }
                }
                6 | 7 => ops.push("d".into()),
                8 => {
                    if r.chance(2, 3) {
                        ops.push(format!("r:{}:{}", r.pick(&KEYS), r.below(2)));
                    } else {
                        ops.push(format!("R:{}:{}", r.pick(&PREFIXES), r.below(2)));
                    }
                    nw += 1;
                }
                9..=11 => ops.push(format!("t:{}:{}", r.range(1, nw.max(1)), r.range(1, 4))),
                12 => ops.push(format!("u:{}", r.range(1, nw.max(1)))),
                13 => ops.push(format!("v:{}", r.range(1, nw.max(1)))),
                _ => ops.push(if hb > 0 && r.chance(1, 2) { "h".into() } else { "d".into() }),
            }
        }
        out.push(format!("buf={} q={} max={} hb={} la={}|{}", buf, q, maxw, hb, la, ops.join(";")));
    }
    out
}

fn main() {
    family_main(generate, exec);
}
