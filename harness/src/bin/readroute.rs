//! Family `readroute` (C13): which policy a read is answered under, decided by the REAL code on every
//! API path, for the whole finite product role × default × override × client policy × path × lease.
//!
//! Real functions driven:
//!  * path=raft : `RaftRoleState::push_client_cmd` on a real Follower/Candidate/Learner state (role_state.rs)
//!                or a real `LeaderState` (leader_state.rs `push_client_cmd` + `determine_read_policy`);
//!  * path=grpc : `<Node<T> as RaftClientService>::handle_client_read` (grpc_raft_service.rs) on a Node wired
//!                like `NodeBuilder::build` (real `run_read_actor`/`serve_read`, real `StandaloneReadHandle`);
//!                this harness plays the Raft loop on the command channel with the same real role state;
//!  * path=emb  : `EmbeddedClient::get_multi_with_consistency` → `EmbeddedReadHandle::get_batch`.
//! Observation: `fast:local-<p>` (answered without a command reaching the Raft loop, `p` = policy the fast path
//! matched on), `raft:local-ev`, `raft:not-leader`, `raft:leader-<p>` (queue the leader put the read into).
use std::cell::RefCell;
use std::sync::Arc;
use std::time::Duration;

use bytes::Bytes;
use d_engine_core::candidate_state::CandidateState;
use d_engine_core::client::{ClientReadRequest, ClientResponsePayload, ErrorCode};
use d_engine_core::config::ReadConsistencyPolicy as Pol;
use d_engine_core::follower_state::FollowerState;
use d_engine_core::leader_state::LeaderState;
use d_engine_core::learner_state::LearnerState;
use d_engine_core::role_state::RaftRoleState;
use d_engine_core::{
    now_ms, ClientCmd, MaybeCloneOneshot, MockBuilder, MockTypeConfig, RaftContext, RaftNodeConfig, RaftOneshot,
};
use d_engine_proto::client::raft_client_service_server::RaftClientService;
use d_engine_server::Node;
use dv::{family_main, fields, rng::Rng};
use tokio::sync::{mpsc, watch};

type T = MockTypeConfig;

enum Role {
    F(FollowerState<T>),
    C(CandidateState<T>),
    L(LearnerState<T>),
    Leader(LeaderState<T>),
}

impl Role {
    fn st(&mut self) -> &mut dyn RaftRoleState<T = T> {
        match self {
            Role::F(s) => s,
            Role::C(s) => s,
            Role::L(s) => s,
            Role::Leader(s) => s,
        }
    }
}

fn pol(s: &str) -> Option<Pol> {
    match s {
        "lin" => Some(Pol::LinearizableRead),
        "lease" => Some(Pol::LeaseRead),
        "ev" => Some(Pol::EventualConsistency),
        _ => None,
    }
}
fn pol_name(p: &Pol) -> &'static str {
    match p {
        Pol::LinearizableRead => "lin",
        Pol::LeaseRead => "lease",
        Pol::EventualConsistency => "ev",
    }
}

fn sm() -> d_engine_core::MockStateMachine {
    let mut sm = d_engine_core::mock_state_machine();
    sm.expect_get_multi().returning(|keys| Ok(keys.iter().map(|_| None).collect()));
    sm
}

/// What the Raft loop does with one `ClientCmd::Read`: the real role state's `push_client_cmd`, then observe.
fn raft_loop_step(role: &mut Role, ctx: &RaftContext<T>, cmd: ClientCmd) -> String {
    // keep a second receiver on the same channel (test-support senders are broadcast) to observe the answer
    let (req, sender) = match cmd {
        ClientCmd::Read(r, s) => (r, s),
        _ => return "raft:unexpected-cmd".into(),
    };
    let (probe_tx, mut probe_rx) = MaybeCloneOneshot::new();
    // forwarders: we hand `probe_tx` to the role and relay the answer to the original sender afterwards
    let before = if let Role::Leader(l) = role { Some(l.verif_queues()) } else { None };
    let expected = if let Role::Leader(l) = role { Some(l.verif_determine_read_policy(&req)) } else { None };
    role.st().push_client_cmd(ClientCmd::Read(req, probe_tx), ctx);
    let out = match role {
        Role::Leader(l) => {
            let a = l.verif_queues();
            let b = before.unwrap();
            let d = (
                a.linearizable_read_buffer as i64 - b.linearizable_read_buffer as i64,
                a.lease_read_queue as i64 - b.lease_read_queue as i64,
                a.eventual_read_queue as i64 - b.eventual_read_queue as i64,
            );
            let q = match d {
                (1, 0, 0) => "lin",
                (0, 1, 0) => "lease",
                (0, 0, 1) => "ev",
                _ => "none",
            };
            if q != pol_name(expected.as_ref().unwrap()) {
                format!("raft:leader-mismatch-{}-{}", q, pol_name(expected.as_ref().unwrap()))
            } else if probe_rx.try_recv().is_ok() {
                "raft:leader-answered-at-push".into()
            } else {
                // resolve the queued sender so that an API handler waiting on it returns
                let _ = l.drain_read_buffer();
                format!("raft:leader-{}", q)
            }
        }
        _ => match probe_rx.try_recv() {
            Ok(Ok(resp)) => {
                if resp.error == ErrorCode::Success && matches!(resp.result, Some(ClientResponsePayload::Read(_))) {
                    "raft:local-ev".into()
                } else {
                    format!("raft:resp-{:?}", resp.error)
                }
            }
            Ok(Err(st)) => {
                if st.code() == tonic::Code::FailedPrecondition && st.message() == "Not leader" {
                    "raft:not-leader".into()
                } else {
                    format!("raft:status-{:?}", st.code())
                }
            }
            Err(_) => "raft:no-answer".into(),
        },
    };
    // relay whatever the role answered to the API handler's receiver
    match probe_rx.try_recv() {
        Ok(v) => {
            let _ = sender.send(v);
        }
        Err(_) => {
            let _ = sender.send(Err(tonic::Status::unavailable("verif: relayed")));
        }
    }
    out
}

fn exec_with(case: &str, lease_probe: Option<bool>) -> String {
    let f = fields(case);
    let g = |k: &str| f.get(k).cloned().unwrap_or_default();
    let (role_s, def_s, ovr, cli, path, lease) =
        (g("role"), g("def"), g("ovr") == "1", g("cli"), g("path"), lease_probe.unwrap_or(g("lease") == "1"));
    let dflt = match pol(&def_s) {
        Some(p) => p,
        None => return "bad-case".into(),
    };

    let rt = tokio::runtime::Builder::new_current_thread().enable_all().build().unwrap();
    rt.block_on(async move {
        let mut cfg = RaftNodeConfig::default();
        cfg.raft.read_consistency.default_policy = dflt;
        cfg.raft.read_consistency.allow_client_override = ovr;
        cfg.raft.general_raft_timeout_duration_in_ms = 2_000;
        let arc_cfg = Arc::new(cfg.clone());
        let (_sd_tx, sd_rx) = watch::channel(());
        let ctx: RaftContext<T> = MockBuilder::new(sd_rx.clone()).with_node_config(cfg.clone()).build_context();

        let mut role = match role_s.as_str() {
            "follower" => Role::F(FollowerState::new(1, arc_cfg.clone(), None, None)),
            "candidate" => Role::C(CandidateState::from(&FollowerState::<T>::new(1, arc_cfg.clone(), None, None))),
            "learner" => Role::L(LearnerState::new(1, arc_cfg.clone())),
            "leader" => Role::Leader(LeaderState::new(1, arc_cfg.clone())),
            _ => return "bad-case".to_string(),
        };
        let lease_arc = role.st().shared_state().lease.clone();
        let term = role.st().current_term();
        if lease {
            lease_arc.renew(term, now_ms() + 3_600_000);
        } else {
            lease_arc.revoke();
        }
        let keys = vec![Bytes::from_static(b"k")];
        let cli_pol: Option<Pol> = pol(&cli);

        match path.as_str() {
            "raft" => {
                if cli == "unknown" {
                    return "n/a".into();
                }
                let (tx, _rx) = MaybeCloneOneshot::new();
                let req = ClientReadRequest { client_id: 7, keys, consistency_policy: cli_pol };
                raft_loop_step(&mut role, &ctx, ClientCmd::Read(req, tx))
            }
            "grpc" | "emb" => {
                let (cmd_tx, mut cmd_rx) = mpsc::channel::<ClientCmd>(16);
                let seen: RefCell<Option<String>> = RefCell::new(None);
                let sm_arc = Arc::new(sm());
                let api = async {
                    if path == "grpc" {
                        let raft = MockBuilder::new(sd_rx.clone()).with_node_config(cfg.clone()).build_raft();
                        let node = Node::<T>::verif_new(raft, cmd_tx.clone(), sm_arc.clone(), lease_arc.clone(), sd_rx.clone());
                        let raw = match cli.as_str() {
                            "none" => None,
                            "unknown" => Some(77),
                            "lin" => Some(d_engine_proto::client::ReadConsistencyPolicy::LinearizableRead as i32),
                            "lease" => Some(d_engine_proto::client::ReadConsistencyPolicy::LeaseRead as i32),
                            "ev" => Some(d_engine_proto::client::ReadConsistencyPolicy::EventualConsistency as i32),
                            _ => return "bad-case".to_string(),
                        };
                        let req = d_engine_proto::client::ClientReadRequest { client_id: 7, keys: keys.clone(), consistency_policy: raw };
                        match node.handle_client_read(tonic::Request::new(req)).await {
                            Ok(_) => "ok".to_string(),
                            Err(st) => format!("err-{:?}", st.code()),
                        }
                    } else {
                        let p = match cli_pol.clone() {
                            Some(p) => p,
                            None => return "n/a".to_string(),
                        };
                        let (event_tx, _event_rx) = mpsc::channel(4);
                        let client = Node::<T>::verif_embedded_client_cfg(event_tx, cmd_tx.clone(), sm_arc.clone(), lease_arc.clone(), 7, Duration::from_millis(2_000), cfg.raft.read_consistency.default_policy.clone(), ovr);
                        match client.get_multi_with_consistency(&keys, p).await {
                            Ok(_) => "ok".to_string(),
                            Err(_) => "err".to_string(),
                        }
                    }
                };
                let raft_loop = async {
                    while let Some(cmd) = cmd_rx.recv().await {
                        let o = raft_loop_step(&mut role, &ctx, cmd);
                        let mut s = seen.borrow_mut();
                        *s = Some(match s.take() {
                            None => o,
                            Some(prev) => format!("{}+{}", prev, o),
                        });
                    }
                };
                let api_out = tokio::select! {
                    biased;
                    r = api => r,
                    _ = raft_loop => "raft-loop-ended".to_string(),
                };
                if api_out == "n/a" || api_out == "bad-case" {
                    return api_out;
                }
                let seen = seen.borrow().clone();
                match seen {
                    Some(o) => o,
                    None => {
                        if api_out == "ok" {
                            // answered without a command reaching the Raft loop; which policy it was served
                            // under is determined by the probe in `exec`
                            "fast:local".into()
                        } else {
                            format!("fast:{}", api_out)
                        }
                    }
                }
            }
            _ => "bad-case".into(),
        }
    })
}

/// A fast-path answer is classified by observation: an eventual read is served locally whatever the lease, a lease
/// read only under a valid lease — so the same case is replayed with the lease revoked.
fn exec(case: &str) -> String {
    let o = exec_with(case, None);
    if o != "fast:local" {
        return o;
    }
    let lease = fields(case).get("lease").map(|s| s == "1").unwrap_or(false);
    if !lease {
        return "fast:local-ev".into();
    }
    if exec_with(case, Some(false)) == "fast:local" { "fast:local-ev".into() } else { "fast:local-lease".into() }
}

/// The whole product is enumerated on every run (720 cases); `n` and the seed only decide the order.
fn generate(r: &mut Rng, _n: usize, _tier: &str) -> Vec<String> {
    let mut out = vec![];
    for role in ["follower", "candidate", "learner", "leader"] {
        for d in ["lin", "lease", "ev"] {
            for ovr in ["0", "1"] {
                for cli in ["none", "lin", "lease", "ev", "unknown"] {
                    for path in ["raft", "grpc", "emb"] {
                        for lease in ["0", "1"] {
                            out.push(format!("role={} def={} ovr={} cli={} path={} lease={}", role, d, ovr, cli, path, lease));
                        }
                    }
                }
            }
        }
    }
    // seeded shuffle: order must not matter (each case builds its own world)
    for i in (1..out.len()).rev() {
        let j = r.below(i as u64 + 1) as usize;
        out.swap(i, j);
    }
    out
}

fn main() {
    family_main(generate, exec);
}
