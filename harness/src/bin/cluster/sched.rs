//! Closed-loop schedule generator: the next event is drawn (from the seeded PRNG) among the events that are
//! enabled in the state the REAL cluster is in, so schedules are mostly meaningful (elections that complete,
//! replication that is acknowledged) with a tail of faults (loss, duplication, reordering, stream errors,
//! crashes) and a malformed stream (events that are not enabled / unknown ids).
use crate::sim::{new_runtime, Cluster};
use dv::rng::Rng;

#[derive(Clone, Copy)]
struct Profile {
    faults: u64,   // weight of loss / dup / stream error
    crashes: u64,  // weight of crash / graceful stop
    resets: bool,  // allow delivery of duplicated prev=(0,0) requests etc. (always allowed; flag biases `u`)
    len: usize,
    heal: bool,
    churn: bool, // followers time out although a leader exists: leader changes with divergent logs (conflict paths)
}

fn pick_weighted(r: &mut Rng, opts: &[(u64, String)]) -> Option<String> {
    let total: u64 = opts.iter().map(|o| o.0).sum();
    if total == 0 {
        return None;
    }
    let mut x = r.below(total);
    for (w, s) in opts {
        if x < *w {
            return Some(s.clone());
        }
        x -= *w;
    }
    None
}

async fn one_schedule(r: &mut Rng, n: u32, cap: u64, p: Profile) -> String {
    let mut c = Cluster::new(n, cap);
    let mut evs: Vec<String> = vec![];
    let mut next_payload = 1u64;
    for _ in 0..p.len {
        let mut opts: Vec<(u64, String)> = vec![];
        let roles: Vec<char> = (1..=n).map(|i| c.role_of(i)).collect();
        let has_leader = roles.iter().any(|x| *x == 'L');
        let electing = roles.iter().any(|x| *x == 'E' || *x == 'C');
        for i in 1..=n {
            match roles[(i - 1) as usize] {
                'F' => opts.push((if has_leader || electing { if p.churn { 5 } else { 1 } } else { 12 }, format!("t:{}", i))),
                'C' => opts.push((12, format!("t:{}", i))),
                'L' => {
                    opts.push((5, format!("t:{}", i)));
                    opts.push((10, format!("w:{}:{}", i, next_payload)));
                    opts.push((3, format!("lf:{}", i)));
                    let cm = c.commit_of(i);
                    if cm > 0 {
                        opts.push((6, format!("ac:{}:{}", i, cm)));
                    }
                }
                'D' => opts.push((10, format!("up:{}", i))),
                _ => {}
            }
            if roles[(i - 1) as usize] != 'D' {
                opts.push((p.crashes, format!("x:{}:{}", i, r.below(3))));
                if roles[(i - 1) as usize] != 'E' {
                    opts.push((p.crashes, format!("g:{}", i)));
                    opts.push((1, format!("lf:{}", i)));
                }
            }
        }
        for (cand, undel, replies, _coll) in c.elections() {
            for q in &undel {
                opts.push((14, format!("vq:{}:{}", cand, q)));
            }
            for q in &replies {
                opts.push((14, format!("vr:{}:{}", cand, q)));
            }
            let w = if undel.is_empty() && replies.is_empty() { 30 } else { 3 };
            opts.push((w, format!("ve:{}", cand)));
        }
        for m in c.ae_ids() {
            opts.push((10, format!("a:{}", m)));
            opts.push((p.faults, format!("d:{}", m)));
            let dupw = if c.msg_is_reset(m) && p.resets { p.faults * 2 } else { p.faults };
            opts.push((dupw, format!("u:{}", m)));
        }
        for m in c.resp_ids() {
            opts.push((10, format!("r:{}", m)));
            opts.push((p.faults, format!("d:{}", m)));
        }
        for (l, q) in c.open_streams() {
            opts.push((p.faults, format!("se:{}:{}", l, q)));
            opts.push((p.faults, format!("sc:{}:{}", l, q)));
        }
        // malformed stream: events that are not enabled
        opts.push((1, format!("a:{}", 900 + r.below(50))));
        opts.push((1, format!("ve:{}", 1 + r.below(n as u64))));
        opts.push((1, format!("vq:{}:{}", 1 + r.below(n as u64), 1 + r.below(n as u64))));
        let Some(ev) = pick_weighted(r, &opts) else { break };
        if ev.starts_with("w:") {
            next_payload += 1;
        }
        c.step(&ev).await;
        evs.push(ev);
    }
    // C32: half of the schedules end with "faults stop": restart the nodes (sometimes all but one: a minority may
    // stay down) and run 2n+4 rounds of the fixed fair schedule
    if p.heal {
        let keep_down = if r.chance(1, 3) { 1 + r.below(n as u64) as u32 } else { 0 };
        for i in 1..=n {
            if i != keep_down && c.role_of(i) == 'D' {
                evs.push(format!("up:{}", i));
            }
        }
        // bound = elections (2n+6 rounds) + twice the catch-up distance ((longest log + 1) / cap rounds, rounded up)
        let longest = (1..=n).map(|i| c.log_len(i)).max().unwrap_or(0);
        evs.push(format!("h:{}", 2 * n as u64 + 6 + 2 * ((longest + cap) / cap)));
    }
    c.shutdown().await;
    format!("n={} cap={}|{}", n, cap, evs.join(";"))
}

pub fn generate(r: &mut Rng, count: usize, tier: &str) -> Vec<String> {
    let mut out = vec![];
    let thorough = tier == "thorough";
    for i in 0..count {
        let n = if i % 7 == 6 { 5 } else { 3 };
        let cap = *r.pick(&[1u64, 2, 2, 3, 100]);
        let p = match i % 5 {
            0 => Profile { faults: 0, crashes: 0, resets: false, len: 40, heal: false, churn: false },
            1 => Profile { faults: 2, crashes: 0, resets: true, len: 60, heal: true, churn: false },
            2 => Profile { faults: 1, crashes: 1, resets: false, len: 60, heal: false, churn: false },
            3 => Profile { faults: 2, crashes: 0, resets: false, len: 90, heal: true, churn: true },
            _ => Profile { faults: 3, crashes: 1, resets: true, len: if thorough { 120 } else { 80 }, heal: true, churn: false },
        };
        let rt = new_runtime();
        let case = rt.block_on(one_schedule(r, n, cap, p));
        drop(rt);
        out.push(case);
    }
    out
}
