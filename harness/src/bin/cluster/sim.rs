//! The simulated cluster: in-memory storage engine, static membership, recording transport, scheduler.
use std::collections::{BTreeMap, HashMap, HashSet};
use std::ops::RangeInclusive;
use std::sync::{Arc, Mutex};
use std::time::Duration;

use async_trait::async_trait;
use d_engine_core::follower_state::FollowerState;
use d_engine_core::{
    ApplyResult, BufferedRaftLog, ClientCmd, ClientWriteRequest, ClusterUpdateResult, ConnectionType, ElectionHandler,
    Error, HardState, InboundEvent, InternalEvent, LogStore, MaybeCloneOneshot, Membership, MetaStore,
    MockCommitHandler, MockPurgeExecutor, MockSnapshotPolicy, MockStateMachine, MockStateMachineHandler, NetworkError,
    Raft, RaftCoreHandlers, RaftLog, RaftNodeConfig, RaftOneshot, RaftRole, RaftStorageHandles, ReplicationHandler,
    ReplicationStream, Result, SignalParams, StorageEngine, Transport, TypeConfig, VoteResult, WriteOperation,
};
use d_engine_proto::common::entry_payload::Payload;
use d_engine_proto::common::{Entry, LogId, MembershipChange, NodeRole, NodeStatus};
use d_engine_proto::server::cluster::{
    ClusterConfChangeRequest, ClusterConfUpdateResponse, ClusterMembership, NodeMeta,
};
use d_engine_proto::server::election::{VoteRequest, VoteResponse};
use d_engine_proto::server::replication::{append_entries_response, AppendEntriesRequest, AppendEntriesResponse};
use futures::StreamExt;
use prost::Message;
use tokio::sync::{mpsc, oneshot, watch};
use tokio::task::JoinHandle;

// ------------------------------------------------------------------------------------------ type config
#[derive(Debug)]
pub struct CT;
impl TypeConfig for CT {
    type SE = MemEngine;
    type SM = MockStateMachine;
    type R = BufferedRaftLog<CT>;
    type M = SimMembership;
    type TR = SimTransport;
    type E = ElectionHandler<CT>;
    type REP = ReplicationHandler<CT>;
    type C = MockCommitHandler;
    type SMH = MockStateMachineHandler<CT>;
    type SNP = MockSnapshotPolicy;
    type PE = MockPurgeExecutor;
}

// ------------------------------------------------------------------------------------------ storage
/// What the log store holds. `floor` = highest index that is certainly written given program order alone
/// (a reset / replace is awaited by the caller, plain appends are written by the IO thread whenever it runs).
#[derive(Debug, Default, Clone)]
pub struct LogImage {
    pub entries: BTreeMap<u64, Entry>,
    pub floor: u64,
}
#[derive(Debug, Default)]
pub struct MemLog {
    inner: Mutex<LogImage>,
}
impl MemLog {
    fn last(&self) -> u64 {
        self.inner.lock().unwrap().entries.keys().next_back().copied().unwrap_or(0)
    }
    pub fn sync_all(&self) {
        let mut g = self.inner.lock().unwrap();
        g.floor = g.entries.keys().next_back().copied().unwrap_or(0);
    }
    /// store content if the IO thread had not yet written the last `k` plain appends
    pub fn image_after_loss(&self, k: u64) -> LogImage {
        let g = self.inner.lock().unwrap();
        let last = g.entries.keys().next_back().copied().unwrap_or(0);
        let lose = k.min(last.saturating_sub(g.floor));
        let keep = last - lose;
        LogImage { entries: g.entries.range(..=keep).map(|(k, v)| (*k, v.clone())).collect(), floor: keep }
    }
}
#[async_trait]
impl LogStore for MemLog {
    async fn persist_entries(&self, entries: Vec<Entry>) -> std::result::Result<(), Error> {
        let mut g = self.inner.lock().unwrap();
        for e in entries {
            g.entries.insert(e.index, e);
        }
        Ok(())
    }
    async fn entry(&self, index: u64) -> std::result::Result<Option<Entry>, Error> {
        Ok(self.inner.lock().unwrap().entries.get(&index).cloned())
    }
    fn get_entries(&self, range: RangeInclusive<u64>) -> std::result::Result<Vec<Entry>, Error> {
        Ok(self.inner.lock().unwrap().entries.range(range).map(|(_, v)| v.clone()).collect())
    }
    async fn purge(&self, cutoff_index: LogId) -> std::result::Result<(), Error> {
        let mut g = self.inner.lock().unwrap();
        g.entries.retain(|k, _| *k > cutoff_index.index);
        Ok(())
    }
    async fn truncate(&self, from_index: u64) -> std::result::Result<(), Error> {
        let mut g = self.inner.lock().unwrap();
        g.entries.retain(|k, _| *k < from_index);
        g.floor = g.floor.min(from_index.saturating_sub(1));
        Ok(())
    }
    async fn replace_range(&self, from_index: u64, new_entries: Vec<Entry>) -> std::result::Result<(), Error> {
        let mut g = self.inner.lock().unwrap();
        g.entries.retain(|k, _| *k < from_index);
        g.floor = g.floor.min(from_index.saturating_sub(1));
        for e in new_entries {
            g.floor = g.floor.max(e.index);
            g.entries.insert(e.index, e);
        }
        Ok(())
    }
    fn is_write_durable(&self) -> bool {
        true
    }
    async fn reset(&self) -> std::result::Result<(), Error> {
        let mut g = self.inner.lock().unwrap();
        g.entries.clear();
        g.floor = 0;
        Ok(())
    }
    fn last_index(&self) -> u64 {
        self.last()
    }
}
#[derive(Debug, Default)]
pub struct MemMeta {
    hs: Mutex<Option<HardState>>,
}
impl MetaStore for MemMeta {
    fn save_hard_state(&self, state: &HardState) -> std::result::Result<(), Error> {
        *self.hs.lock().unwrap() = Some(*state);
        Ok(())
    }
    fn load_hard_state(&self) -> std::result::Result<Option<HardState>, Error> {
        Ok(*self.hs.lock().unwrap())
    }
}
#[derive(Debug)]
pub struct MemEngine {
    log: Arc<MemLog>,
    meta: Arc<MemMeta>,
}
impl MemEngine {
    fn from_image(img: LogImage, hs: Option<HardState>) -> Self {
        MemEngine { log: Arc::new(MemLog { inner: Mutex::new(img) }), meta: Arc::new(MemMeta { hs: Mutex::new(hs) }) }
    }
}
impl StorageEngine for MemEngine {
    type LogStore = MemLog;
    type MetaStore = MemMeta;
    fn log_store(&self) -> Arc<MemLog> {
        self.log.clone()
    }
    fn meta_store(&self) -> Arc<MemMeta> {
        self.meta.clone()
    }
}

// ------------------------------------------------------------------------------------------ membership
/// Static membership: nodes 1..=n, all Active voters (role Follower).
#[derive(Debug)]
pub struct SimMembership {
    my_id: u32,
    n: u32,
}
impl SimMembership {
    fn meta(id: u32) -> NodeMeta {
        NodeMeta { id, address: format!("sim:{}", id), role: NodeRole::Follower as i32, status: NodeStatus::Active as i32 }
    }
    fn peers(&self) -> Vec<NodeMeta> {
        (1..=self.n).filter(|i| *i != self.my_id).map(Self::meta).collect()
    }
}
#[async_trait]
impl Membership<CT> for SimMembership {
    async fn members(&self) -> Vec<NodeMeta> {
        (1..=self.n).map(Self::meta).collect()
    }
    async fn replication_peers(&self) -> Vec<NodeMeta> {
        self.peers()
    }
    async fn voters(&self) -> Vec<NodeMeta> {
        self.peers()
    }
    async fn initial_cluster_size(&self) -> usize {
        self.n as usize
    }
    async fn nodes_with_status(&self, _status: NodeStatus) -> Vec<NodeMeta> {
        (1..=self.n).map(Self::meta).collect()
    }
    async fn get_node_status(&self, node_id: u32) -> Option<NodeStatus> {
        if node_id >= 1 && node_id <= self.n { Some(NodeStatus::Active) } else { None }
    }
    async fn check_cluster_is_ready(&self) -> Result<()> {
        Ok(())
    }
    async fn get_peers_id_with_condition<F>(&self, condition: F) -> Vec<u32>
    where
        F: Fn(i32) -> bool + Send + Sync + 'static,
    {
        self.peers().into_iter().filter(|m| condition(m.role)).map(|m| m.id).collect()
    }
    async fn retrieve_cluster_membership_config(&self, current_leader_id: Option<u32>) -> ClusterMembership {
        ClusterMembership { version: 0, nodes: (1..=self.n).map(Self::meta).collect(), current_leader_id }
    }
    async fn update_cluster_conf_from_leader(
        &self,
        _my_id: u32,
        _my_current_term: u64,
        _current_conf_version: u64,
        _current_leader_id: Option<u32>,
        _req: &ClusterConfChangeRequest,
    ) -> Result<ClusterConfUpdateResponse> {
        Err(NetworkError::TaskBackoffFailed("sim: no conf updates".into()).into())
    }
    async fn get_cluster_conf_version(&self) -> u64 {
        0
    }
    async fn update_conf_version(&self, _version: u64) {}
    async fn incr_conf_version(&self) {}
    async fn add_learner(&self, _node_id: u32, _address: String, _status: NodeStatus) -> Result<()> {
        Ok(())
    }
    async fn activate_node(&mut self, _new_node_id: u32) -> Result<()> {
        Ok(())
    }
    async fn update_node_status(&self, _node_id: u32, _status: NodeStatus) -> Result<()> {
        Ok(())
    }
    async fn contains_node(&self, node_id: u32) -> bool {
        node_id >= 1 && node_id <= self.n
    }
    async fn retrieve_node_meta(&self, node_id: u32) -> Option<NodeMeta> {
        if node_id >= 1 && node_id <= self.n { Some(Self::meta(node_id)) } else { None }
    }
    async fn remove_node(&self, _node_id: u32) -> Result<()> {
        Ok(())
    }
    async fn force_remove_node(&self, _node_id: u32) -> Result<()> {
        Ok(())
    }
    async fn get_all_nodes(&self) -> Vec<NodeMeta> {
        (1..=self.n).map(Self::meta).collect()
    }
    async fn pre_warm_connections(&self) -> Result<()> {
        Ok(())
    }
    async fn get_peer_channel(&self, _node_id: u32, _conn_type: ConnectionType) -> Option<tonic::transport::Channel> {
        None
    }
    async fn get_address(&self, node_id: u32) -> Option<String> {
        Some(format!("sim:{}", node_id))
    }
    async fn apply_config_change(&self, _change: MembershipChange) -> Result<()> {
        Ok(())
    }
    async fn notify_config_applied(&self, _index: u64) {}
    async fn can_rejoin(&self, _node_id: u32, _role: i32) -> Result<()> {
        Ok(())
    }
}

// ------------------------------------------------------------------------------------------ transport
struct Stream {
    sid: u64,
    /// `None` after `sc`: the transport side of the request channel is gone, the worker's next send fails
    req_rx: Option<mpsc::Receiver<AppendEntriesRequest>>,
    resp_tx: mpsc::UnboundedSender<std::result::Result<AppendEntriesResponse, tonic::Status>>,
}
struct Election {
    req: VoteRequest,
    finish: Option<oneshot::Sender<Vec<Result<VoteResponse>>>>,
    delivered: HashSet<u32>,
    replies: BTreeMap<u32, VoteResponse>,
    collected: Vec<VoteResponse>,
}
#[derive(Default)]
struct Net {
    streams: HashMap<(u32, u32), Stream>,
    elections: HashMap<u32, Election>,
    next_sid: u64,
}
pub struct SimTransport {
    my_id: u32,
    n: u32,
    net: Arc<Mutex<Net>>,
}
fn unsupported<T>(what: &str) -> Result<T> {
    Err(NetworkError::TaskBackoffFailed(format!("sim transport: {} unsupported", what)).into())
}
#[async_trait]
impl Transport<CT> for SimTransport {
    async fn send_cluster_update(
        &self,
        _req: ClusterConfChangeRequest,
        _retry: &d_engine_core::RetryPolicies,
        _membership: Arc<SimMembership>,
    ) -> Result<ClusterUpdateResult> {
        unsupported("send_cluster_update")
    }
    async fn send_append_requests(
        &self,
        _requests: Vec<(u32, AppendEntriesRequest)>,
        _retry: &d_engine_core::RetryPolicies,
        _membership: Arc<SimMembership>,
        _response_compress_enabled: bool,
    ) -> Result<d_engine_core::AppendResult> {
        unsupported("send_append_requests")
    }
    async fn send_vote_requests(
        &self,
        req: VoteRequest,
        _retry: &d_engine_core::RetryPolicies,
        _membership: Arc<SimMembership>,
    ) -> Result<VoteResult> {
        let (tx, rx) = oneshot::channel();
        self.net.lock().unwrap().elections.insert(
            self.my_id,
            Election { req, finish: Some(tx), delivered: HashSet::new(), replies: BTreeMap::new(), collected: vec![] },
        );
        let responses = rx.await.unwrap_or_default();
        Ok(VoteResult { peer_ids: (1..=self.n).filter(|i| *i != self.my_id).collect(), responses })
    }
    async fn join_cluster(
        &self,
        _leader_id: u32,
        _request: d_engine_proto::server::cluster::JoinRequest,
        _retry: d_engine_core::BackoffPolicy,
        _membership: Arc<SimMembership>,
    ) -> Result<d_engine_proto::server::cluster::JoinResponse> {
        unsupported("join_cluster")
    }
    async fn discover_leader(
        &self,
        _request: d_engine_proto::server::cluster::LeaderDiscoveryRequest,
        _rpc_enable_compression: bool,
        _membership: Arc<SimMembership>,
    ) -> Result<Vec<d_engine_proto::server::cluster::LeaderDiscoveryResponse>> {
        unsupported("discover_leader")
    }
    async fn send_append_request(
        &self,
        _peer_id: u32,
        _request: AppendEntriesRequest,
        _retry: &d_engine_core::RetryPolicies,
        _membership: Arc<SimMembership>,
        _response_compress_enabled: bool,
    ) -> Result<AppendEntriesResponse> {
        unsupported("send_append_request")
    }
    async fn send_snapshot(
        &self,
        _peer_id: u32,
        _metadata: d_engine_proto::server::storage::SnapshotMetadata,
        _smh: Arc<MockStateMachineHandler<CT>>,
        _membership: Arc<SimMembership>,
        _config: d_engine_core::SnapshotConfig,
    ) -> Result<()> {
        unsupported("send_snapshot")
    }
    async fn request_snapshot_from_leader(
        &self,
        _leader_id: u32,
        _ack_tx: mpsc::Receiver<d_engine_proto::server::storage::SnapshotAck>,
        _retry: &d_engine_core::InstallSnapshotBackoffPolicy,
        _membership: Arc<SimMembership>,
    ) -> Result<mpsc::Receiver<d_engine_proto::server::storage::SnapshotChunk>> {
        unsupported("request_snapshot_from_leader")
    }
    async fn open_replication_stream(
        &self,
        peer_id: u32,
        _membership: Arc<SimMembership>,
        _compress: bool,
    ) -> Result<ReplicationStream> {
        let (req_tx, req_rx) = mpsc::channel(128);
        let (resp_tx, resp_rx) = mpsc::unbounded_channel();
        let mut net = self.net.lock().unwrap();
        net.next_sid += 1;
        let sid = net.next_sid;
        net.streams.insert((self.my_id, peer_id), Stream { sid, req_rx: Some(req_rx), resp_tx });
        Ok(ReplicationStream {
            sender: req_tx,
            receiver: tokio_stream::wrappers::UnboundedReceiverStream::new(resp_rx).boxed(),
        })
    }
}

// ------------------------------------------------------------------------------------------ cluster
enum Msg {
    Ae { from: u32, to: u32, sid: u64, req: AppendEntriesRequest, reply: bool },
    Resp { from: u32, to: u32, sid: u64, resp: AppendEntriesResponse },
}
enum Slot {
    Up(Box<Raft<CT>>),
    Electing(JoinHandle<Box<Raft<CT>>>),
    Down,
    Taken,
}
struct NodeBox {
    slot: Slot,
    engine: Arc<MemEngine>,
    raft_log: Option<Arc<BufferedRaftLog<CT>>>,
    flush_rx: Option<mpsc::UnboundedReceiver<InternalEvent>>,
    _shutdown_tx: Option<watch::Sender<()>>,
}
pub struct Cluster {
    n: u32,
    cfg: Arc<RaftNodeConfig>,
    net: Arc<Mutex<Net>>,
    nodes: Vec<NodeBox>,
    msgs: BTreeMap<u64, Msg>,
    next_msg: u64,
    new_msgs: Vec<u64>,
    /// client writes still waiting for their answer: (tag, response receiver), in submission order
    writes: Vec<(u64, d_engine_core::MaybeCloneOneshotReceiver<std::result::Result<d_engine_core::ClientResponse, tonic::Status>>)>,
    new_acks: Vec<u64>,
    /// nodes to which a prev=(0,0) request was delivered inside the last heal event (printed as `^i+j`)
    heal_resets: std::collections::BTreeSet<u32>,
}

fn mock_sm() -> MockStateMachine {
    let mut m = MockStateMachine::new();
    m.expect_start().returning(|| Ok(()));
    m.expect_stop().returning(|| Ok(()));
    m.expect_is_running().returning(|| true);
    m.expect_get().returning(|_| Ok(None));
    m.expect_entry_term().returning(|_| None);
    m.expect_len().returning(|| 0);
    m.expect_last_applied().return_const(LogId::default());
    m.expect_snapshot_metadata().returning(|| None);
    m.expect_save_hard_state().returning(|| Ok(()));
    m.expect_flush().returning(|| Ok(()));
    m
}
fn mock_smh() -> MockStateMachineHandler<CT> {
    let mut h = MockStateMachineHandler::<CT>::new();
    h.expect_update_pending().returning(|_| {});
    h.expect_read_from_state_machine().returning(|_| None);
    h.expect_should_snapshot().returning(|_| false);
    h.expect_get_latest_snapshot_metadata().returning(|| None);
    h.expect_last_applied().returning(|| 0);
    h
}

fn base_config(cap: u64) -> RaftNodeConfig {
    let mut c = RaftNodeConfig::new().expect("config");
    c.cluster.db_root_dir = std::path::PathBuf::from("/verif/target/tmp/cluster-db");
    c.raft.snapshot.snapshots_dir = std::path::PathBuf::from("/verif/target/tmp/cluster-snapshots");
    c.raft.snapshot.enable = false;
    c.raft.replication.append_entries_max_entries_per_replication = cap;
    c.raft.replication.rpc_append_entries_clock_in_ms = 100;
    c.raft.election.election_timeout_min = 300;
    c.raft.election.election_timeout_max = 600;
    c.raft.general_raft_timeout_duration_in_ms = 1_000_000_000;
    c.raft.membership.verify_leadership_persistent_timeout = Duration::from_secs(1_000_000_000);
    c.raft.metrics.enable_backpressure = false;
    c.raft.metrics.enable_batch = false;
    c
}

pub fn payload_tag(e: &Entry) -> String {
    match e.payload.as_ref().and_then(|p| p.payload.as_ref()) {
        Some(Payload::Noop(_)) => "n".into(),
        Some(Payload::Command(b)) => match d_engine_proto::client::WriteCommand::decode(b.clone()) {
            Ok(w) => match w.operation {
                Some(d_engine_proto::client::write_command::Operation::Insert(i)) => {
                    String::from_utf8_lossy(&i.key).to_string()
                }
                _ => "q".into(),
            },
            Err(_) => "q".into(),
        },
        Some(Payload::Config(_)) => "g".into(),
        None => "z".into(),
    }
}
fn show_entries(es: &[Entry], sep: &str, fsep: &str) -> String {
    if es.is_empty() {
        return "-".into();
    }
    es.iter().map(|e| format!("{}{}{}{}{}", e.index, fsep, e.term, fsep, payload_tag(e))).collect::<Vec<_>>().join(sep)
}

impl Cluster {
    pub fn new(n: u32, cap: u64) -> Self {
        let cfg = Arc::new(base_config(cap));
        let mut c = Cluster {
            n,
            cfg,
            net: Arc::new(Mutex::new(Net::default())),
            nodes: Vec::new(),
            msgs: BTreeMap::new(),
            next_msg: 1,
            new_msgs: vec![],
            writes: vec![],
            new_acks: vec![],
            heal_resets: Default::default(),
        };
        for _ in 1..=n {
            c.nodes.push(NodeBox {
                slot: Slot::Down,
                engine: Arc::new(MemEngine::from_image(LogImage::default(), None)),
                raft_log: None,
                flush_rx: None,
                _shutdown_tx: None,
            });
        }
        for id in 1..=n {
            c.start_node(id);
        }
        c
    }

    fn start_node(&mut self, id: u32) {
        let cfg = self.cfg.clone();
        let nb = &mut self.nodes[(id - 1) as usize];
        let (itx, irx) = mpsc::unbounded_channel();
        let (etx, erx) = mpsc::channel(1024);
        let (ctx_, crx) = mpsc::channel(1024);
        let (sd_tx, sd_rx) = watch::channel(());
        let (log, rx) = BufferedRaftLog::<CT>::new(id, cfg.raft.persistence.clone(), nb.engine.clone());
        let (ftx, frx) = mpsc::unbounded_channel();
        let raft_log = log.start(rx, Some(ftx));
        let hs = raft_log.load_hard_state().expect("load hard state");
        let role = RaftRole::Follower(Box::new(FollowerState::new(id, cfg.clone(), hs, Some(0))));
        let raft = Raft::<CT>::new(
            id,
            role,
            RaftStorageHandles { raft_log: raft_log.clone(), state_machine: Arc::new(mock_sm()) },
            SimTransport { my_id: id, n: self.n, net: self.net.clone() },
            RaftCoreHandlers {
                election_handler: ElectionHandler::new(id),
                replication_handler: ReplicationHandler::new(id),
                state_machine_handler: Arc::new(mock_smh()),
                purge_executor: Arc::new(MockPurgeExecutor::new()),
            },
            Arc::new(SimMembership { my_id: id, n: self.n }),
            SignalParams::new(itx, irx, etx, erx, ctx_, crx, sd_rx),
            cfg,
        );
        nb.slot = Slot::Up(Box::new(raft));
        nb.raft_log = Some(raft_log);
        nb.flush_rx = Some(frx);
        nb._shutdown_tx = Some(sd_tx);
    }

    fn nb(&mut self, id: u32) -> &mut NodeBox {
        &mut self.nodes[(id - 1) as usize]
    }
    fn valid(&self, id: u32) -> bool {
        id >= 1 && id <= self.n
    }
    fn is_up(&self, id: u32) -> bool {
        self.valid(id) && matches!(self.nodes[(id - 1) as usize].slot, Slot::Up(_))
    }

    async fn settle() {
        for _ in 0..40 {
            tokio::task::yield_now().await;
        }
    }

    /// Let node `id` handle everything it has queued internally (P2 arm until empty), letting spawned
    /// worker tasks run in between; then move what the workers put on the wire into the message bag.
    async fn quiesce(&mut self, id: u32) {
        for _ in 0..50 {
            Self::settle().await;
            let mut progressed = false;
            if let Slot::Up(raft) = &mut self.nb(id).slot {
                for _ in 0..200 {
                    match raft.verif_cluster_pump().await {
                        Ok(true) => progressed = true,
                        Ok(false) => break,
                        Err(_) => progressed = true,
                    }
                }
            }
            if !progressed {
                break;
            }
        }
        self.collect_wire();
    }

    fn collect_wire(&mut self) {
        let mut found = vec![];
        {
            let mut net = self.net.lock().unwrap();
            let mut keys: Vec<(u32, u32)> = net.streams.keys().copied().collect();
            keys.sort();
            for k in keys {
                let s = net.streams.get_mut(&k).unwrap();
                let sid = s.sid;
                if let Some(rx) = s.req_rx.as_mut() {
                    while let Ok(req) = rx.try_recv() {
                        found.push((k.0, k.1, sid, req));
                    }
                }
            }
        }
        for (from, to, sid, req) in found {
            let id = self.next_msg;
            self.next_msg += 1;
            self.msgs.insert(id, Msg::Ae { from, to, sid, req, reply: true });
            self.new_msgs.push(id);
        }
    }

    fn stream_open(&self, l: u32, p: u32, sid: u64) -> bool {
        let net = self.net.lock().unwrap();
        match net.streams.get(&(l, p)) {
            Some(s) => s.sid == sid && !s.resp_tx.is_closed() && s.req_rx.is_some(),
            None => false,
        }
    }

    pub async fn step(&mut self, ev: &str) {
        self.heal_resets.clear();
        if let Some(k) = ev.strip_prefix("h:").and_then(|k| k.parse::<u64>().ok()) {
            return self.ev_heal(k).await;
        }
        self.step1(ev).await;
    }

    /// C32: `k` rounds of the fixed fair schedule (same rule as Model/ClusterHeal.lean `fairRound`).
    async fn ev_heal(&mut self, k: u64) {
        let first_msg = self.next_msg;
        let mut acks = vec![];
        let mut resets: Vec<u32> = vec![];
        for r in 0..k {
            // 1. finish pending elections
            for cand in 1..=self.n {
                if matches!(self.nb(cand).slot, Slot::Electing(_)) {
                    self.run_election_events(cand, &mut acks).await;
                }
            }
            // 2. heartbeat round of the best leader, or an election of the next node in rotation
            let mut best: Option<(u32, u64)> = None;
            for i in 1..=self.n {
                if let Slot::Up(raft) = &self.nb(i).slot {
                    if matches!(raft.role, RaftRole::Leader(_)) {
                        let t = raft.role.current_term();
                        if best.map_or(true, |(_, bt)| t > bt) {
                            best = Some((i, t));
                        }
                    }
                }
            }
            match best {
                Some((l, _)) => {
                    self.step1(&format!("t:{}", l)).await;
                    acks.append(&mut self.new_acks);
                    let mut fuel = 2 * self.msgs.len() + 2;
                    while fuel > 0 {
                        fuel -= 1;
                        let Some((&id, m)) = self.msgs.iter().next() else { break };
                        let ev = match m {
                            Msg::Ae { to, req, .. } => {
                                if self.is_up(*to) {
                                    if req.prev_log_index == 0 && req.prev_log_term == 0 {
                                        resets.push(*to);
                                    }
                                    format!("a:{}", id)
                                } else {
                                    format!("d:{}", id)
                                }
                            }
                            Msg::Resp { .. } => format!("r:{}", id),
                        };
                        self.step1(&ev).await;
                        acks.append(&mut self.new_acks);
                    }
                }
                None => {
                    // the ready node with the most up-to-date log (last term, then last index; smallest id first)
                    let mut bestc: Option<(u32, u64, u64)> = None;
                    for i in 1..=self.n {
                        if let Slot::Up(raft) = &self.nb(i).slot {
                            let l = raft.ctx.raft_log().last_log_id().unwrap_or(LogId { index: 0, term: 0 });
                            let better = match bestc {
                                None => true,
                                Some((_, bt, bi)) => l.term > bt || (l.term == bt && l.index > bi),
                            };
                            if better {
                                bestc = Some((i, l.term, l.index));
                            }
                        }
                    }
                    let _ = r;
                    if let Some((cand, _, _)) = bestc {
                        self.step1(&format!("t:{}", cand)).await;
                        self.step1(&format!("t:{}", cand)).await;
                        self.run_election_events(cand, &mut acks).await;
                    }
                }
            }
        }
        self.new_msgs = self.msgs.keys().copied().filter(|id| *id >= first_msg).collect();
        self.new_acks = acks;
        self.heal_resets = resets.into_iter().collect();
    }

    async fn run_election_events(&mut self, cand: u32, acks: &mut Vec<u64>) {
        for q in 1..=self.n {
            if q != cand {
                self.step1(&format!("vq:{}:{}", cand, q)).await;
                self.step1(&format!("vr:{}:{}", cand, q)).await;
            }
        }
        self.step1(&format!("ve:{}", cand)).await;
        acks.append(&mut self.new_acks);
    }

    async fn step1(&mut self, ev: &str) {
        self.new_msgs.clear();
        self.new_acks.clear();
        let p: Vec<&str> = ev.split(':').collect();
        let num = |i: usize| -> Option<u64> { p.get(i).and_then(|s| s.parse::<u64>().ok()) };
        match (p[0], num(1), num(2)) {
            ("t", Some(n), _) if self.is_up(n as u32) => self.ev_tick(n as u32).await,
            ("vq", Some(c), Some(q)) => self.ev_vote_req(c as u32, q as u32).await,
            ("vr", Some(c), Some(q)) => self.ev_vote_resp(c as u32, q as u32),
            ("ve", Some(c), _) => self.ev_vote_end(c as u32).await,
            ("w", Some(n), Some(x)) if self.is_up(n as u32) => self.ev_write(n as u32, x).await,
            ("a", Some(m), _) => self.ev_deliver_ae(m).await,
            ("r", Some(m), _) => self.ev_deliver_resp(m).await,
            ("d", Some(m), _) => {
                self.msgs.remove(&m);
            }
            ("u", Some(m), _) => self.ev_dup(m),
            ("se", Some(l), Some(q)) => self.ev_stream_error(l as u32, q as u32).await,
            ("sc", Some(l), Some(q)) => self.ev_stream_closed(l as u32, q as u32),
            ("lf", Some(n), _) if self.is_up(n as u32) => self.ev_log_flushed(n as u32).await,
            ("ac", Some(n), Some(i)) if self.is_up(n as u32) => self.ev_apply_completed(n as u32, i).await,
            ("x", Some(n), Some(k)) if self.valid(n as u32) => self.ev_stop(n as u32, Some(k)).await,
            ("g", Some(n), _) if self.is_up(n as u32) => self.ev_stop(n as u32, None).await,
            ("up", Some(n), _) if self.valid(n as u32) => {
                if matches!(self.nb(n as u32).slot, Slot::Down) {
                    self.start_node(n as u32);
                }
            }
            _ => {}
        }
        self.io_idle().await;
        // answers that reached the clients during this event (only successes are part of the trace)
        let mut still = vec![];
        for (tag, mut rx) in std::mem::take(&mut self.writes) {
            match rx.try_recv() {
                Ok(Ok(resp)) => {
                    if resp.error == d_engine_core::ErrorCode::Success {
                        self.new_acks.push(tag);
                    }
                }
                Ok(Err(_)) => {}
                Err(tokio::sync::broadcast::error::TryRecvError::Empty) => still.push((tag, rx)),
                Err(_) => {}
            }
        }
        self.writes = still;
    }

    /// Wait until every IO thread has finished the work queued so far, so that the next event never
    /// overlaps an IO batch of an earlier one (the real IO thread runs on its own OS thread; letting it lag
    /// across events would make traces depend on OS scheduling).
    async fn io_idle(&mut self) {
        for nb in self.nodes.iter() {
            if let Some(log) = nb.raft_log.as_ref() {
                let _ = log.flush().await;
            }
        }
    }

    async fn ev_tick(&mut self, n: u32) {
        tokio::time::advance(Duration::from_millis(1000)).await;
        let is_candidate = match &self.nb(n).slot {
            Slot::Up(r) => matches!(r.role, RaftRole::Candidate(_)),
            _ => false,
        };
        if !is_candidate {
            if let Slot::Up(raft) = &mut self.nb(n).slot {
                let _ = raft.verif_cluster_tick().await;
            }
            self.quiesce(n).await;
            return;
        }
        // A candidate's tick blocks inside `broadcast_vote_requests` until the transport returns: run it as
        // a task that owns the node; the node handles nothing else until `ve:N` ends the election.
        let slot = std::mem::replace(&mut self.nb(n).slot, Slot::Taken);
        let Slot::Up(mut raft) = slot else { unreachable!() };
        let h = tokio::spawn(async move {
            let _ = raft.verif_cluster_tick().await;
            raft
        });
        Self::settle().await;
        if h.is_finished() {
            self.nb(n).slot = Slot::Up(h.await.expect("tick task"));
            self.quiesce(n).await;
        } else {
            self.nb(n).slot = Slot::Electing(h);
        }
    }

    async fn ev_vote_req(&mut self, c: u32, q: u32) {
        if !self.is_up(q) || c == q {
            return;
        }
        let req = {
            let mut net = self.net.lock().unwrap();
            match net.elections.get_mut(&c) {
                Some(e) if !e.delivered.contains(&q) => {
                    e.delivered.insert(q);
                    e.req
                }
                _ => return,
            }
        };
        let (tx, mut rx) = MaybeCloneOneshot::new();
        if let Slot::Up(raft) = &mut self.nb(q).slot {
            let _ = raft.verif_cluster_inbound(InboundEvent::ReceiveVoteRequest(req, tx)).await;
        }
        self.quiesce(q).await;
        if let Ok(Ok(resp)) = rx.try_recv() {
            let mut net = self.net.lock().unwrap();
            if let Some(e) = net.elections.get_mut(&c) {
                e.replies.insert(q, resp);
            }
        }
    }

    fn ev_vote_resp(&mut self, c: u32, q: u32) {
        let mut net = self.net.lock().unwrap();
        if let Some(e) = net.elections.get_mut(&c) {
            if let Some(r) = e.replies.remove(&q) {
                e.collected.push(r);
            }
        }
    }

    async fn ev_vote_end(&mut self, c: u32) {
        if !self.valid(c) || !matches!(self.nb(c).slot, Slot::Electing(_)) {
            return;
        }
        let el = self.net.lock().unwrap().elections.remove(&c);
        let Some(mut el) = el else { return };
        let mut responses: Vec<Result<VoteResponse>> = el.collected.iter().map(|r| Ok(*r)).collect();
        while responses.len() < (self.n - 1) as usize {
            responses.push(Err(NetworkError::TaskBackoffFailed("sim: no response".into()).into()));
        }
        if let Some(tx) = el.finish.take() {
            let _ = tx.send(responses);
        }
        let slot = std::mem::replace(&mut self.nb(c).slot, Slot::Taken);
        let Slot::Electing(h) = slot else { unreachable!() };
        self.nb(c).slot = Slot::Up(h.await.expect("election task"));
        self.quiesce(c).await;
    }

    async fn ev_write(&mut self, n: u32, x: u64) {
        let (tx, rx) = MaybeCloneOneshot::new();
        self.writes.push((x, rx));
        let req = ClientWriteRequest {
            client_id: 1,
            command: Some(WriteOperation::Insert {
                key: bytes::Bytes::from(x.to_string()),
                value: bytes::Bytes::from_static(b"v"),
                ttl_secs: None,
            }),
        };
        if let Slot::Up(raft) = &mut self.nb(n).slot {
            let _ = raft.verif_cluster_cmd(ClientCmd::Propose(req, tx)).await;
        }
        self.quiesce(n).await;
    }

    async fn ev_deliver_ae(&mut self, m: u64) {
        let (from, to, sid, req, reply) = match self.msgs.get(&m) {
            Some(Msg::Ae { from, to, sid, req, reply }) => (*from, *to, *sid, req.clone(), *reply),
            _ => return,
        };
        if !self.is_up(to) {
            return;
        }
        self.msgs.remove(&m);
        let (tx, mut rx) = MaybeCloneOneshot::new();
        if let Slot::Up(raft) = &mut self.nb(to).slot {
            let _ = raft.verif_cluster_inbound(InboundEvent::AppendEntries(req, vec![tx])).await;
        }
        self.quiesce(to).await;
        if let Ok(Ok(resp)) = rx.try_recv() {
            if reply && self.stream_open(from, to, sid) {
                let id = self.next_msg;
                self.next_msg += 1;
                self.msgs.insert(id, Msg::Resp { from: to, to: from, sid, resp });
                self.new_msgs.push(id);
            }
        }
    }

    async fn ev_deliver_resp(&mut self, m: u64) {
        let (from, to, sid, resp) = match self.msgs.get(&m) {
            Some(Msg::Resp { from, to, sid, resp }) => (*from, *to, *sid, *resp),
            _ => return,
        };
        self.msgs.remove(&m);
        if !self.is_up(to) {
            return;
        }
        {
            let net = self.net.lock().unwrap();
            if let Some(s) = net.streams.get(&(to, from)) {
                if s.sid == sid && s.req_rx.is_some() {
                    let _ = s.resp_tx.send(Ok(resp));
                }
            }
        }
        self.quiesce(to).await;
    }

    fn ev_dup(&mut self, m: u64) {
        if let Some(Msg::Ae { from, to, sid, req, reply }) = self.msgs.get(&m) {
            let c = Msg::Ae { from: *from, to: *to, sid: *sid, req: req.clone(), reply: *reply };
            let id = self.next_msg;
            self.next_msg += 1;
            self.msgs.insert(id, c);
            self.new_msgs.push(id);
        }
    }

    async fn ev_stream_error(&mut self, l: u32, q: u32) {
        if !self.is_up(l) {
            return;
        }
        let sid = {
            let net = self.net.lock().unwrap();
            match net.streams.get(&(l, q)) {
                Some(s) if !s.resp_tx.is_closed() && s.req_rx.is_some() => {
                    let _ = s.resp_tx.send(Err(tonic::Status::unavailable("sim: stream broken")));
                    s.sid
                }
                _ => return,
            }
        };
        // responses in flight on that stream are lost; requests may still arrive but are never answered
        self.msgs.retain(|_, m| !matches!(m, Msg::Resp { sid: s, .. } if *s == sid));
        for m in self.msgs.values_mut() {
            if let Msg::Ae { sid: s, reply, .. } = m {
                if *s == sid {
                    *reply = false;
                }
            }
        }
        self.quiesce(l).await;
    }

    /// The transport end of the request channel of stream L->P goes away (connection torn down): nothing
    /// happens at the leader until its worker tries to send, fails, reports PeerStreamError and reconnects.
    fn ev_stream_closed(&mut self, l: u32, q: u32) {
        if !self.is_up(l) {
            return;
        }
        let sid = {
            let mut net = self.net.lock().unwrap();
            match net.streams.get_mut(&(l, q)) {
                Some(s) if !s.resp_tx.is_closed() && s.req_rx.is_some() => {
                    s.req_rx = None;
                    s.sid
                }
                _ => return,
            }
        };
        self.msgs.retain(|_, m| !matches!(m, Msg::Resp { sid: s, .. } if *s == sid));
        for m in self.msgs.values_mut() {
            if let Msg::Ae { sid: s, reply, .. } = m {
                if *s == sid {
                    *reply = false;
                }
            }
        }
    }

    async fn ev_log_flushed(&mut self, n: u32) {
        let log = self.nb(n).raft_log.clone().unwrap();
        let _ = log.flush().await;
        self.nb(n).engine.log.sync_all();
        let mut seen = false;
        if let Some(rx) = self.nb(n).flush_rx.as_mut() {
            while rx.try_recv().is_ok() {
                seen = true;
            }
        }
        if seen {
            if let Slot::Up(raft) = &mut self.nb(n).slot {
                let _ = raft
                    .internal_event_sender()
                    .send(InternalEvent::LogFlushed { durable_index: log.durable_index() });
            }
            self.quiesce(n).await;
        }
    }

    async fn ev_apply_completed(&mut self, n: u32, i: u64) {
        // the state machine worker only ever applies committed entries
        let commit = match &self.nb(n).slot {
            Slot::Up(raft) => raft.verif_cluster_observe(&[]).commit_index,
            _ => return,
        };
        if i > commit {
            return;
        }
        if let Slot::Up(raft) = &mut self.nb(n).slot {
            let results = (1..=i).map(ApplyResult::success).collect();
            let _ = raft.internal_event_sender().send(InternalEvent::ApplyCompleted { last_index: i, results });
        }
        self.quiesce(n).await;
    }

    /// `lose = Some(k)`: crash (no Drop, the last k plain appends never reached the store);
    /// `lose = None`: graceful stop (log closed = fully written, `Drop for Raft` saves the hard state).
    async fn ev_stop(&mut self, n: u32, lose: Option<u64>) {
        if matches!(self.nb(n).slot, Slot::Down | Slot::Taken) {
            return;
        }
        let log = self.nb(n).raft_log.take().unwrap();
        let _ = log.flush().await;
        log.close().await;
        let engine = self.nb(n).engine.clone();
        let crash_image = lose.map(|k| (engine.log.image_after_loss(k), engine.meta.load_hard_state().unwrap()));
        let slot = std::mem::replace(&mut self.nb(n).slot, Slot::Down);
        match slot {
            Slot::Up(raft) => drop(raft),
            Slot::Electing(h) => {
                h.abort();
                let _ = h.await;
            }
            _ => {}
        }
        drop(log);
        self.net.lock().unwrap().elections.remove(&n);
        Self::settle().await;
        match crash_image {
            Some((img, hs)) => self.nb(n).engine = Arc::new(MemEngine::from_image(img, hs)),
            None => {
                engine.log.sync_all();
                let img = engine.log.image_after_loss(0);
                let hs = engine.meta.load_hard_state().unwrap();
                self.nb(n).engine = Arc::new(MemEngine::from_image(img, hs));
            }
        }
        self.nb(n).flush_rx = None;
        self.nb(n)._shutdown_tx = None;
        self.collect_wire();
    }

    pub async fn shutdown(&mut self) {
        for id in 1..=self.n {
            if let Some(log) = self.nb(id).raft_log.take() {
                log.close().await;
            }
            let slot = std::mem::replace(&mut self.nb(id).slot, Slot::Down);
            if let Slot::Electing(h) = slot {
                h.abort();
                let _ = h.await;
            }
        }
    }

    /// Observable state:  node/node/...[~msg+msg]   node = R,term,vote,commit,log[,peer.next.match+..]
    pub fn observe(&self) -> String {
        let mut parts = vec![];
        for id in 1..=self.n {
            let nb = &self.nodes[(id - 1) as usize];
            let s = match &nb.slot {
                Slot::Up(raft) => {
                    let peers: Vec<u32> = (1..=self.n).filter(|p| *p != id).collect();
                    let v = raft.verif_cluster_observe(&peers);
                    let role = match v.role {
                        x if x == NodeRole::Follower as i32 => "F",
                        x if x == NodeRole::Candidate as i32 => "C",
                        x if x == NodeRole::Leader as i32 => "L",
                        _ => "N",
                    };
                    let vote = match v.voted_for {
                        None => "-".to_string(),
                        Some(vf) => {
                            format!("{}@{}{}", vf.voted_for_id, vf.voted_for_term, if vf.committed { "c" } else { "u" })
                        }
                    };
                    let log = raft.ctx.raft_log();
                    let (first, last) = (log.first_entry_id(), log.last_entry_id());
                    let es = if last == 0 { vec![] } else { log.get_entries_range(first..=last).unwrap_or_default() };
                    let mut s = format!("{},{},{},{},{}", role, v.term, vote, v.commit_index, show_entries(&es, "+", "."));
                    if !v.peers.is_empty() {
                        let pi: Vec<String> = v
                            .peers
                            .iter()
                            .map(|(p, nx, mx)| format!("{}.{}.{}", p, nx.unwrap_or(0), mx.unwrap_or(0)))
                            .collect();
                        s.push_str(&format!(",{}", pi.join("+")));
                    }
                    s
                }
                Slot::Electing(_) | Slot::Taken => {
                    let req = self.net.lock().unwrap().elections.get(&id).map(|e| e.req);
                    match req {
                        Some(r) => format!("E,{}", r.term),
                        None => "E,0".into(),
                    }
                }
                Slot::Down => "D".to_string(),
            };
            parts.push(s);
        }
        let mut out = parts.join("/");
        if !self.new_msgs.is_empty() {
            let ms: Vec<String> = self.new_msgs.iter().filter_map(|id| self.msgs.get(id).map(|m| show_msg(*id, m))).collect();
            if !ms.is_empty() {
                out.push('~');
                out.push_str(&ms.join("+"));
            }
        }
        if !self.new_acks.is_empty() {
            out.push('!');
            out.push_str(&self.new_acks.iter().map(|t| t.to_string()).collect::<Vec<_>>().join("+"));
        }
        if !self.heal_resets.is_empty() {
            out.push('^');
            out.push_str(&self.heal_resets.iter().map(|t| t.to_string()).collect::<Vec<_>>().join("+"));
        }
        out
    }

    // ---- helpers for the closed-loop generator
    pub fn role_of(&self, id: u32) -> char {
        match &self.nodes[(id - 1) as usize].slot {
            Slot::Up(r) => match &r.role {
                RaftRole::Follower(_) => 'F',
                RaftRole::Candidate(_) => 'C',
                RaftRole::Leader(_) => 'L',
                RaftRole::Learner(_) => 'N',
            },
            Slot::Electing(_) | Slot::Taken => 'E',
            Slot::Down => 'D',
        }
    }
    pub fn ae_ids(&self) -> Vec<u64> {
        self.msgs.iter().filter(|(_, m)| matches!(m, Msg::Ae { .. })).map(|(k, _)| *k).collect()
    }
    pub fn resp_ids(&self) -> Vec<u64> {
        self.msgs.iter().filter(|(_, m)| matches!(m, Msg::Resp { .. })).map(|(k, _)| *k).collect()
    }
    pub fn msg_target(&self, m: u64) -> Option<u32> {
        match self.msgs.get(&m) {
            Some(Msg::Ae { to, .. }) | Some(Msg::Resp { to, .. }) => Some(*to),
            None => None,
        }
    }
    pub fn msg_is_reset(&self, m: u64) -> bool {
        matches!(self.msgs.get(&m), Some(Msg::Ae { req, .. }) if req.prev_log_index == 0 && req.prev_log_term == 0)
    }
    /// (candidate, peers not yet delivered, peers with reply in flight, number collected)
    pub fn elections(&self) -> Vec<(u32, Vec<u32>, Vec<u32>, usize)> {
        let net = self.net.lock().unwrap();
        let mut v: Vec<_> = net
            .elections
            .iter()
            .map(|(c, e)| {
                let undel: Vec<u32> = (1..=self.n).filter(|p| p != c && !e.delivered.contains(p)).collect();
                (*c, undel, e.replies.keys().copied().collect(), e.collected.len())
            })
            .collect();
        v.sort();
        v
    }
    pub fn open_streams(&self) -> Vec<(u32, u32)> {
        let net = self.net.lock().unwrap();
        let mut v: Vec<_> =
            net.streams.iter().filter(|(_, s)| !s.resp_tx.is_closed() && s.req_rx.is_some()).map(|(k, _)| *k).collect();
        v.sort();
        v
    }
    pub fn n(&self) -> u32 {
        self.n
    }
    pub fn log_len(&self, id: u32) -> u64 {
        self.nodes[(id - 1) as usize].engine.log.last_index()
    }
    pub fn commit_of(&self, id: u32) -> u64 {
        match &self.nodes[(id - 1) as usize].slot {
            Slot::Up(r) => r.verif_cluster_observe(&[]).commit_index,
            _ => 0,
        }
    }
}

fn show_msg(id: u64, m: &Msg) -> String {
    match m {
        Msg::Ae { from, to, req, .. } => format!(
            "A{}.{}.{}.{}.{}.{}.{}.{}",
            id,
            from,
            to,
            req.term,
            req.prev_log_index,
            req.prev_log_term,
            req.leader_commit_index,
            show_entries(&req.entries, ":", "_")
        ),
        Msg::Resp { from, to, resp, .. } => {
            let k = match &resp.result {
                Some(append_entries_response::Result::Success(s)) => match s.last_match {
                    Some(l) => format!("s{}_{}", l.index, l.term),
                    None => "s-".into(),
                },
                Some(append_entries_response::Result::Conflict(c)) => format!(
                    "c{}_{}",
                    c.conflict_term.map(|t| t.to_string()).unwrap_or("-".into()),
                    c.conflict_index.map(|t| t.to_string()).unwrap_or("-".into())
                ),
                Some(append_entries_response::Result::HigherTerm(t)) => format!("h{}", t),
                None => "x".into(),
            };
            format!("R{}.{}.{}.{}.{}", id, from, to, resp.term, k)
        }
    }
}

pub fn parse_header(case: &str) -> Option<(u32, u64, Vec<String>)> {
    let (head, evs) = case.rsplit_once('|')?;
    let f = dv::fields(head);
    let n: u32 = f.get("n")?.parse().ok()?;
    let cap: u64 = f.get("cap")?.parse().ok()?;
    if !(n == 3 || n == 5) || cap == 0 {
        return None;
    }
    let evs: Vec<String> = evs.split(';').filter(|s| !s.is_empty()).map(|s| s.to_string()).collect();
    Some((n, cap, evs))
}

pub fn new_runtime() -> tokio::runtime::Runtime {
    tokio::runtime::Builder::new_current_thread().enable_all().start_paused(true).build().unwrap()
}

pub fn exec(case: &str) -> String {
    let Some((n, cap, evs)) = parse_header(case) else { return "bad-case".into() };
    let rt = new_runtime();
    let out = rt.block_on(async move {
        let mut c = Cluster::new(n, cap);
        let mut states = vec![];
        for ev in &evs {
            c.step(ev).await;
            states.push(c.observe());
        }
        c.shutdown().await;
        if states.is_empty() { "-".to_string() } else { states.join("|") }
    });
    drop(rt);
    out
}
