//! Family `ttl` (C23): real `FileStateMachine` / `RocksDBStateMachine` + real `TtlLease`, driven over a
//! logical clock (`d_engine_server::storage::verif_clock`, whole seconds).
//!
//! case   : `eng=<file|rocks> t0=<secs>|op;op;…`
//!          put,k,v,ttl|-  del,k  cas,k,exp|-,new  adv,n  cleanup  get,k  ckpt  restart  srestart  crash
//!          snap  install
//! output : `tok;…|k=v,…|k@d,…` — one token per op (`.` g<k>=<v|-> c+ c- x<k.k|-> nosnap), final data,
//!          final lease table (expiry in seconds since the epoch).
//!
//! Real calls: `apply_chunk` (one entry per op), `lease_background_cleanup`, `get`, `flush_async`,
//! `close_storage` + Drop, `stop`, `FileStateMachine::new`/`RocksDBStateMachine::new` + `set_lease` +
//! `start` (the order NodeBuilder / EmbeddedEngine use), `generate_snapshot_data`,
//! `apply_snapshot_from_file`, `TtlLease::get_expiration`.  crash = copy of the data directory taken
//! while the engine is open (process-crash image: everything written is visible, nothing from Drop).
use bytes::Bytes;
use d_engine_core::{ApplyEntry, Command, Lease, StateMachine};
use d_engine_proto::common::LogId;
use d_engine_proto::server::storage::SnapshotMetadata;
use d_engine_server::storage::{verif_clock, TtlLease};
use d_engine_server::{FileStateMachine, RocksDBStateMachine};
use dv::{family_main, fields, rng::Rng};
use std::path::{Path, PathBuf};
use std::sync::Arc;

const TMP: &str = "/verif/target/tmp";

fn key(n: u64) -> Bytes { Bytes::from(format!("k{}", n)) }
fn val(n: u64) -> Bytes { Bytes::from(format!("v{}", n)) }
fn unkey(b: &[u8]) -> u64 { std::str::from_utf8(&b[1..]).unwrap().parse().unwrap() }
fn opt(s: &str) -> Option<u64> { if s == "-" { None } else { Some(s.parse().unwrap()) } }

async fn open(eng: &str, dir: &Path) -> (Arc<dyn StateMachine>, Arc<TtlLease>) {
    let lease = Arc::new(TtlLease::new(d_engine_core::config::LeaseConfig::default()));
    let sm: Arc<dyn StateMachine> = if eng == "file" {
        let mut sm = FileStateMachine::new(dir.to_path_buf()).await.expect("open file sm");
        sm.set_lease(lease.clone());
        Arc::new(sm)
    } else {
        let mut sm = RocksDBStateMachine::new(dir).expect("open rocksdb sm");
        sm.set_lease(lease.clone());
        Arc::new(sm)
    };
    sm.start().await.expect("start");
    (sm, lease)
}

fn copy_dir(from: &Path, to: &Path) {
    std::fs::create_dir_all(to).unwrap();
    for e in std::fs::read_dir(from).unwrap() {
        let e = e.unwrap();
        let p = e.path();
        let t = to.join(e.file_name());
        if p.is_dir() { copy_dir(&p, &t) } else if e.file_name() != "LOCK" { std::fs::copy(&p, &t).unwrap(); }
    }
}

/// `eng=sample long=<n> trials=<t>|`: one key with ttl=1 and `n` keys with ttl=100 on a fresh File engine,
/// clock + 2 s, `lease_background_cleanup`, read the short key — repeated on `t` fresh engines (the
/// DashMap iteration order, hence the 10-entry sample of `may_have_expired_keys`, is random per instance).
/// Output `miss` if in some trial the due key survived the cleanup, else `nomiss`.
async fn exec_sample(f: &std::collections::HashMap<String, String>) -> String {
    let long: u64 = f.get("long").expect("long").parse().unwrap();
    let trials: u64 = f.get("trials").expect("trials").parse().unwrap();
    std::fs::create_dir_all(TMP).unwrap();
    let mut missed = false;
    for _ in 0..trials {
        verif_clock::set_ms(1000 * 1000);
        let root = tempfile::tempdir_in(TMP).unwrap();
        let (sm, _lease) = open("file", &root.path().join("sm")).await;
        let mut chunk = vec![ApplyEntry { index: 1, term: 1, command: Command::Insert { key: key(0), value: val(1), ttl_secs: Some(1) } }];
        for i in 1..=long {
            chunk.push(ApplyEntry { index: i + 1, term: 1, command: Command::Insert { key: key(i), value: val(1), ttl_secs: Some(100) } });
        }
        sm.apply_chunk(&chunk).await.expect("apply");
        verif_clock::set_ms(1002 * 1000);
        sm.lease_background_cleanup().await.expect("cleanup");
        if sm.get(&key(0)).expect("get").is_some() { missed = true; }
        sm.close_storage();
        if missed { break; }
    }
    verif_clock::clear();
    if missed { "miss".into() } else { "nomiss".into() }
}

async fn exec_async(case: &str) -> String {
    let (hd, body) = case.split_once('|').expect("case");
    let f = fields(hd);
    let eng = f.get("eng").expect("eng").as_str();
    if eng == "sample" { return exec_sample(&f).await; }
    let mut now: u64 = f.get("t0").expect("t0").parse().unwrap();
    verif_clock::set_ms(now * 1000);
    std::fs::create_dir_all(TMP).unwrap();
    let root = tempfile::tempdir_in(TMP).unwrap();
    let mut gen_no = 0u32;
    let mut dir: PathBuf = root.path().join("sm0");
    let (mut sm, mut lease) = open(eng, &dir).await;
    let mut index = 0u64;
    let mut snap: Option<(PathBuf, LogId)> = None;
    let mut toks: Vec<String> = vec![];
    let mut keys: Vec<u64> = vec![];
    let ops: Vec<&str> = if body.is_empty() { vec![] } else { body.split(';').collect() };
    for op in ops {
        let a: Vec<&str> = op.split(',').collect();
        let mut tok = ".".to_string();
        let mut write = |cmd: Command| {
            index += 1;
            vec![ApplyEntry { index, term: 1, command: cmd }]
        };
        match a[0] {
            "put" => {
                let k: u64 = a[1].parse().unwrap();
                keys.push(k);
                let chunk = write(Command::Insert { key: key(k), value: val(a[2].parse().unwrap()), ttl_secs: opt(a[3]) });
                sm.apply_chunk(&chunk).await.expect("apply");
            }
            "del" => {
                let k: u64 = a[1].parse().unwrap();
                keys.push(k);
                let chunk = write(Command::Delete { key: key(k) });
                sm.apply_chunk(&chunk).await.expect("apply");
            }
            "cas" => {
                let k: u64 = a[1].parse().unwrap();
                keys.push(k);
                let chunk = write(Command::CompareAndSwap { key: key(k), expected: opt(a[2]).map(val), value: val(a[3].parse().unwrap()) });
                let r = sm.apply_chunk(&chunk).await.expect("apply");
                tok = if r[0].succeeded { "c+".into() } else { "c-".into() };
            }
            "adv" => {
                now += a[1].parse::<u64>().unwrap();
                verif_clock::set_ms(now * 1000);
            }
            "cleanup" => {
                let mut ks: Vec<u64> = sm.lease_background_cleanup().await.expect("cleanup").iter().map(|b| unkey(b)).collect();
                ks.sort();
                tok = if ks.is_empty() { "x-".into() } else { format!("x{}", ks.iter().map(|k| k.to_string()).collect::<Vec<_>>().join(".")) };
            }
            "get" => {
                let k: u64 = a[1].parse().unwrap();
                keys.push(k);
                let r = sm.get(&key(k)).expect("get");
                tok = format!("g{}={}", k, r.map(|b| unkey(&b).to_string()).unwrap_or("-".into()));
            }
            "ckpt" => sm.flush_async().await.expect("flush_async"),
            "restart" | "srestart" | "crash" => {
                if a[0] == "srestart" { sm.stop().expect("stop"); }
                if a[0] == "crash" {
                    gen_no += 1;
                    let nd = root.path().join(format!("sm{}", gen_no));
                    copy_dir(&dir, &nd);
                    dir = nd;
                } else {
                    sm.close_storage();
                }
                drop(lease);
                drop(sm); // graceful: Drop persists; crash: Drop only touches the abandoned directory
                let (s2, l2) = open(eng, &dir).await;
                sm = s2;
                lease = l2;
            }
            "snap" => {
                gen_no += 1;
                let sd = root.path().join(format!("snap{}", gen_no));
                let id = LogId { index, term: 1 };
                sm.generate_snapshot_data(sd.clone(), id).await.expect("generate_snapshot_data");
                snap = Some((sd, id));
            }
            "install" => match &snap {
                None => tok = "nosnap".into(),
                Some((sd, id)) => {
                    let md = SnapshotMetadata { last_included: Some(*id), checksum: Bytes::from(vec![0u8; 32]) };
                    sm.apply_snapshot_from_file(&md, sd.clone()).await.expect("apply_snapshot_from_file");
                }
            },
            _ => panic!("bad op {}", op),
        }
        toks.push(tok);
    }
    keys.sort();
    keys.dedup();
    let mut data = vec![];
    let mut ls = vec![];
    for k in &keys {
        if let Some(v) = sm.get(&key(*k)).expect("get") { data.push(format!("{}={}", k, unkey(&v))); }
        if let Some(t) = lease.get_expiration(&key(*k)) {
            ls.push(format!("{}@{}", k, t.duration_since(std::time::UNIX_EPOCH).unwrap().as_secs()));
        }
    }
    if lease.len() != ls.len() { ls.push(format!("extra{}", lease.len() - ls.len())); }
    sm.close_storage();
    drop(sm);
    verif_clock::clear();
    let j = |v: Vec<String>, sep: &str| if v.is_empty() { "-".to_string() } else { v.join(sep) };
    format!("{}|{}|{}", j(toks, ";"), j(data, ","), j(ls, ","))
}

fn exec(case: &str) -> String {
    if std::env::var("DV_DEBUG").is_ok() {
        std::panic::set_hook(Box::new(|i| eprintln!("PANIC: {}", i)));
    }
    let rt = tokio::runtime::Builder::new_current_thread().enable_all().build().unwrap();
    rt.block_on(exec_async(case))
}

// ------------------------------------------------------------------------------------------ generator
fn ttl_choice(r: &mut Rng) -> String {
    match r.below(10) {
        0..=3 => "-".into(),
        4 => "0".into(),
        _ => r.pick(&[1u64, 1, 2, 3, 5, 10]).to_string(),
    }
}

fn gen_write(r: &mut Rng, nk: u64, cur: &mut [Option<u64>; 8]) -> String {
    let k = 1 + r.below(nk);
    match r.below(10) {
        0..=4 => {
            let v = 1 + r.below(6);
            cur[k as usize] = Some(v);
            format!("put,{},{},{}", k, v, ttl_choice(r))
        }
        5 => { cur[k as usize] = None; format!("del,{}", k) }
        _ => {
            // mostly-matching expectation (so that CAS succeeds about half of the time)
            let exp = if r.chance(2, 3) { cur[k as usize] } else if r.chance(1, 2) { None } else { Some(1 + r.below(6)) };
            let v = 1 + r.below(6);
            format!("cas,{},{},{}", k, exp.map(|x| x.to_string()).unwrap_or("-".into()), v)
        }
    }
}

fn gen_case(r: &mut Rng, eng: &str, disrupt: bool, len: usize) -> String {
    let nk = 1 + r.below(4);
    let mut cur: [Option<u64>; 8] = [None; 8];
    let mut ops: Vec<String> = vec![];
    for _ in 0..len {
        let o = match r.below(100) {
            0..=39 => gen_write(r, nk, &mut cur),
            40..=54 => format!("adv,{}", r.pick(&[1u64, 1, 2, 3, 5])),
            55..=69 => "cleanup".into(),
            70..=84 => format!("get,{}", 1 + r.below(nk)),
            85..=88 => "ckpt".into(),
            _ if disrupt => r.pick(&["restart", "srestart", "crash", "snap", "install", "snap"]).to_string(),
            _ => gen_write(r, nk, &mut cur),
        };
        ops.push(o);
    }
    format!("eng={} t0={}|{}", eng, 1000 + r.below(3), ops.join(";"))
}

/// TTL life-cycle scenario: TTL put, optional overwrite / failing CAS / other-key noise, optional
/// disruption, then reads before and after the deadline with cleanups in between.
fn gen_scenario(r: &mut Rng, eng: &str, disrupt: bool) -> String {
    let k = 1 + r.below(3);
    let t = *r.pick(&[1u64, 2, 3, 5]);
    let mut ops: Vec<String> = vec![];
    if r.chance(1, 3) { ops.push(format!("put,{},9,{}", k, ttl_choice(r))); }
    ops.push(format!("put,{},1,{}", k, t));
    let mut mid: Vec<String> = vec![];
    match r.below(8) {
        0 => mid.push(format!("put,{},2,-", k)),
        1 => mid.push(format!("cas,{},1,2", k)),
        2 => mid.push(format!("cas,{},7,2", k)), // fails: keeps the TTL
        3 => mid.push(format!("del,{}", k)),
        4 => mid.push(format!("put,{},2,{}", k, r.pick(&[1u64, 2, 4, 8]))), // re-put with a new TTL
        5 => { mid.push(format!("del,{}", k)); mid.push(format!("put,{},3,-", k)); }
        _ => {}
    }
    if r.chance(1, 2) { mid.push(format!("put,{},5,{}", k + 1, ttl_choice(r))); }
    if r.chance(1, 3) { mid.push("cleanup".into()); }
    if r.chance(1, 4) { mid.push("ckpt".into()); }
    if r.chance(1, 2) { mid.push(format!("adv,{}", r.below(t + 1))); }
    if disrupt {
        let d = *r.pick(&["restart", "srestart", "crash", "snap;adv,1;install", "snap;install", "ckpt;crash"]);
        let pos = r.below(mid.len() as u64 + 1) as usize;
        mid.insert(pos, d.to_string());
    }
    ops.extend(mid);
    ops.push(format!("get,{}", k));
    ops.push(format!("adv,{}", r.pick(&[1u64, 2, 3, 6])));
    if r.chance(1, 3) && disrupt { ops.push(r.pick(&["restart", "crash"]).to_string()); }
    ops.push("cleanup".into());
    ops.push(format!("get,{}", k));
    if r.chance(1, 2) { ops.push(format!("adv,{}", r.pick(&[1u64, 5, 10]))); ops.push("cleanup".into()); ops.push(format!("get,{}", k)); }
    format!("eng={} t0={}|{}", eng, 1000 + r.below(3), ops.join(";"))
}

/// Graceful stop/restart cycles (persist -> reopen -> reload, twice or more) around an overwrite that
/// empties or changes the lease table: a stale persisted TTL table must never come back.
fn gen_restart_cycles(r: &mut Rng, eng: &str) -> String {
    let k = 1 + r.below(2);
    let t = *r.pick(&[2u64, 3, 5]);
    let mut ops: Vec<String> = vec![format!("put,{},1,{}", k, t)];
    if r.chance(1, 3) { ops.push(format!("put,{},4,{}", 3 - k, r.pick(&[1u64, 4, 9]))); }
    ops.push(r.pick(&["restart", "srestart"]).to_string());
    match r.below(5) {
        0 => ops.push(format!("put,{},2,-", k)),
        1 => ops.push(format!("cas,{},1,2", k)),
        2 => { ops.push(format!("del,{}", k)); ops.push(format!("put,{},3,-", k)); }
        3 => ops.push(format!("put,{},2,{}", k, t + 20)),
        _ => ops.push(format!("del,{}", k)),
    }
    if r.chance(1, 3) { ops.push(format!("del,{}", 3 - k)); }
    for _ in 0..1 + r.below(2) { ops.push(r.pick(&["restart", "srestart", "restart"]).to_string()); }
    ops.push(format!("get,{}", k));
    ops.push(format!("adv,{}", t + r.below(3)));
    ops.push("cleanup".into());
    ops.push(format!("get,{}", k));
    if r.chance(1, 2) { ops.push("restart".into()); ops.push("cleanup".into()); ops.push(format!("get,{}", k)); }
    format!("eng={} t0={}|{}", eng, 1000 + r.below(3), ops.join(";"))
}

/// all op lists over one key built from a small alphabet (thorough tier: small-scope enumeration)
fn enumerate(eng: &str, out: &mut Vec<String>) {
    let alpha = ["put,1,1,1", "put,1,2,-", "put,1,3,2", "del,1", "cas,1,1,4", "cas,1,-,5", "adv,1", "adv,2", "cleanup"];
    let n = alpha.len();
    for len in 1..=4usize {
        let total = n.pow(len as u32);
        for code in 0..total {
            let mut c = code;
            let mut ops = vec![];
            for _ in 0..len { ops.push(alpha[c % n]); c /= n; }
            out.push(format!("eng={} t0=1000|{};get,1", eng, ops.join(";")));
        }
    }
}

fn generate(r: &mut Rng, n: usize, tier: &str) -> Vec<String> {
    let mut out = vec![];
    // RocksDB cases are ~20x more expensive (DB open): 1 in 5
    for i in 0..n {
        let eng = if i % 8 == 7 { "rocks" } else { "file" };
        let disrupt = i % 3 == 2;
        if i % 8 == 3 || i % 16 == 6 {
            // half of these on RocksDB (its TTL table is persisted on every graceful close)
            out.push(gen_restart_cycles(r, if i % 16 == 3 || i % 16 == 6 { "rocks" } else { "file" }));
        } else if i % 2 == 0 {
            out.push(gen_scenario(r, eng, disrupt));
        } else {
            let len = 3 + r.below(if disrupt { 14 } else { 18 }) as usize;
            out.push(gen_case(r, eng, disrupt, len));
        }
    }
    // malformed / boundary stream
    out.push("eng=file t0=1000|install;get,1".into());
    out.push("eng=rocks t0=1000|install;cleanup;get,1".into());
    out.push("eng=file t0=1000|".into());
    out.push("eng=file t0=1000|put,1,1,0;get,1;cleanup;get,1".into());
    out.push("eng=rocks t0=1000|put,1,1,0;get,1;cleanup;get,1".into());
    // exactly 10 leased keys: the 10-entry sample of may_have_expired_keys still sees every entry
    out.push(format!("eng=file t0=1000|{};put,11,1,1;adv,2;cleanup;get,11", (1..=9).map(|i| format!("put,{},1,100", i)).collect::<Vec<_>>().join(";")));
    out.push("eng=file t0=1000|put,1,1,4611686018427387903;adv,5;cleanup;get,1".into());
    out.push("eng=sample long=9 trials=3|".into());
    out.push("eng=sample long=25 trials=4|".into());
    if tier == "thorough" {
        enumerate("file", &mut out);
    }
    out
}

fn main() { family_main(generate, exec); }
