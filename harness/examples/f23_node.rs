//! One-off end-to-end replay of F23 on a REAL single-node EmbeddedEngine (real NodeBuilder wiring):
//! watch a key, put it, wait for heartbeat Progress events, print (type, revision) of what arrives.
//! Run: cd /verif/harness && flock -s /verif/target/repo.lock cargo run --offline --example f23_node
use d_engine_core::watch::WatchEventType;
use d_engine_server::RocksDBUnifiedEngine;
use d_engine_server::api::DefaultEmbeddedEngine;
use std::sync::Arc;
use std::time::Duration;

#[tokio::main(flavor = "multi_thread", worker_threads = 2)]
async fn main() {
    std::fs::create_dir_all("/verif/target/tmp").ok();
    let dir = tempfile::tempdir_in("/verif/target/tmp").unwrap();
    let cfg = dir.path().join("d-engine.toml");
    std::fs::write(
        &cfg,
        format!(
            "[cluster]\nlisten_address = \"127.0.0.1:39217\"\ndb_root_dir = \"{}\"\n\n[raft.watch]\nevent_queue_size = 1000\nwatcher_buffer_size = 64\nheartbeat_interval_ms = 100\n",
            dir.path().join("root").display()
        ),
    )
    .unwrap();
    let (storage, sm) = RocksDBUnifiedEngine::open(dir.path().join("db")).unwrap();
    let engine = DefaultEmbeddedEngine::start_custom(Arc::new(storage), Arc::new(sm), Some(cfg.to_str().unwrap()))
        .await
        .unwrap();
    engine.wait_ready(Duration::from_secs(10)).await.unwrap();
    let mut w = engine.client().watch(b"k").unwrap();
    for i in 0..5 {
        engine.client().put(b"k", format!("v{}", i).as_bytes()).await.unwrap();
    }
    tokio::time::sleep(Duration::from_millis(450)).await;
    let mut out = vec![];
    while let Ok(e) = w.receiver_mut().try_recv() {
        let t = match e.event_type {
            WatchEventType::Put => "Put",
            WatchEventType::Delete => "Delete",
            WatchEventType::Canceled => "Canceled",
            WatchEventType::Progress => "Progress",
        };
        out.push(format!("{}@{}", t, e.revision));
    }
    println!("F23-NODE-REPLAY: {}", out.join(" "));
    let _ = engine.stop().await;
}
