#!/bin/bash
# tools/confirm_seed.sh <ID> [srcdir]   — confirm an independently produced seeded change in a scratch worktree:
#   demo passes on the unchanged tree, fails with the change, touched crates' existing tests still pass with it.
# Writes seeded/<ID>/confirm.log and updates seeded/<ID>/meta.json ("confirmed": {...}). Removes the worktree.
set -u
id="$1"; src="${2:-/verif/seeded/$id}"
wt=/tmp/cs-$id; export CARGO_TARGET_DIR=/tmp/cs-target CARGO_NET_OFFLINE=true
log=/verif/seeded/$id/confirm.log; mkdir -p /verif/seeded/$id; : > $log
[ -d /tmp/cs-target ] || cp -r /repo/target /tmp/cs-target
git -C /repo worktree remove --force $wt >/dev/null 2>&1
git -C /repo worktree add --detach $wt HEAD >>$log 2>&1 || exit 3
cd $wt
demo_cmd=$(python3 -c "import json;print(json.load(open('$src/meta.json'))['demo_cmd'])")
demo_cmd=${demo_cmd//\/tmp\/seed-m[0-9]*/$wt}
echo "== demo_cmd: $demo_cmd" >>$log
git apply $src/demo.diff >>$log 2>&1 || { echo "demo.diff does not apply" | tee -a $log; }
( eval "$demo_cmd" ) >>$log 2>&1; rc_without=$?
git apply $src/patch.diff >>$log 2>&1; ap=$?
( eval "$demo_cmd" ) >>$log 2>&1; rc_with=$?
crates=$(git diff --name-only | grep -v seed_ | sed -n 's#^\(d-engine[a-z-]*\)/src/.*#\1#p' | sort -u | tr '\n' ' ')
trc=0; tsum=""
for c in $crates; do
  feat=""; [ "$c" = d-engine-server ] && feat="--features rocksdb,watch"
  out=$(cargo nextest run -p $c $feat --offline --no-fail-fast --test-threads 6 2>&1 | grep -E "Summary|^\s+FAIL" | sort -u)
  echo "== tests $c: $out" >>$log; tsum="$tsum $c: $(echo "$out" | grep Summary)"
done
cd /; git -C /repo worktree remove --force $wt
python3 - <<PY
import json
p='/verif/seeded/$id/meta.json'
m=json.load(open(p))
m['confirmed']={'patch_applies': $ap==0, 'demo_exit_without_change': $rc_without, 'demo_exit_with_change': $rc_with, 'existing_tests_with_change': """$tsum""".strip(), 'log': 'confirm.log'}
json.dump(m,open(p,'w'),indent=1)
print('$id', m['confirmed'])
PY
