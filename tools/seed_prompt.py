import json,sys
ids=sys.argv[2:]
tag=sys.argv[1]
props={json.loads(l)['id']:json.loads(l) for l in open('/verif/properties.jsonl')}
out=f"""You are helping to test a verification tool by producing realistic *seeded defects* in the Rust repository deventlab/d-engine (an embeddable Raft consensus engine). You work ONLY in your own scratch git worktree of the repository; never touch /repo itself and never read anything under /verif (it must stay independent of what you write).

Setup (do this first):
  git -C /repo worktree add --detach /tmp/seed-{tag} HEAD
  export CARGO_TARGET_DIR=/tmp/seed-{tag}-target CARGO_NET_OFFLINE=true      # (every cargo command: add --offline; there is no network)
  cp -r /repo/target /tmp/seed-{tag}-target 2>/dev/null || true              # warm dependency cache (optional, saves build time)
Work only inside /tmp/seed-{tag}.

For EACH of the following semantic properties of d-engine, produce ONE change to the d-engine source (not to tests) that BREAKS the property while the code still compiles and the existing test suite still passes:
"""
for i in ids:
    p=props[i]
    out+=f"\n--- Property {i}: {p['title']}\n{p['statement']}\nQuantifier: {p.get('quantifier','')}\nCode anchors: {json.dumps(p['anchors'].get('mechanism',[]))}\n"
out+=f"""
Requirements for each change:
- Realistic: it should look like a plausible refactor, optimisation or well-meant bug fix (a few lines), not sabotage; it must need something specific to manifest — a particular interleaving, a crash or fault at a particular point, a multi-step sequence of operations, an unusual/boundary input, or two cooperating sites that each look fine alone — NOT something ordinary use or the existing tests would expose at once.
- It must compile and the existing tests must still pass. Check at least the tests of the crates you touched:  cd /tmp/seed-{tag} && cargo nextest run -p <crate> --no-fail-fast --offline --test-threads 8   (crates: d-engine-core, d-engine-server, d-engine-client, d-engine-proto, d-engine; use `--features rocksdb,watch` style flags only if the workspace default needs them — check how the workspace runs tests: `cargo nextest run --workspace --no-fail-fast --offline`). Two tests about file permissions (`utils::file_io_test::test_create_parent_dir_fails_when_permission_denied`, `test_delete_permission_denied`) fail on the unchanged tree because we run as root — ignore those. If an existing test fails with your change, choose a different change.
- A demonstration: a new test (a `#[test]`/`#[tokio::test]` function in a NEW file you add under the crate's tests or a `#[cfg(test)]` module file, or a small example program) that FAILS with your change and PASSES on the unchanged code, and that shows the property being violated (not merely that behaviour differs). Run it both ways and keep the outputs.
- Work on one property at a time: make the change, verify, then save, then `git -C /tmp/seed-{tag} checkout -- . && git -C /tmp/seed-{tag} clean -fd` before the next one.

Save for each property <ID> under /tmp/seed-out/<ID>/ (create the directory):
  patch.diff   — `git diff` of the source change ONLY (without the demonstration)
  demo.diff    — `git diff`/new files of the demonstration only (so it can be applied on top of either tree), plus the exact command to run it
  meta.json    — {{"property":"<ID>","summary":"what the change does","why_it_breaks":"…","needs":"what specific input/interleaving/crash/sequence makes it manifest","demo_cmd":"…","demo_fails_with_change":true,"demo_passes_without":true,"tests_run":"which existing tests you ran and their result"}}

When all are done: remove your worktree and build output (git -C /repo worktree remove --force /tmp/seed-{tag}; rm -rf /tmp/seed-{tag}-target). Final answer: a short list of what you produced per property (or why you could not).
"""
print(out)
