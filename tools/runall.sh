#!/bin/bash
# tools/runall.sh [tier] [seed]  — run every claimed check, print one summary line each
tier=${1:-quick}; seed=${2:-1}
cd /verif
for f in props/C*.json; do id=$(basename $f .json)
  s=$(date +%s)
  VERIF_SEED=$seed ./check $id --tier $tier > target/work/runall_$id.log 2>&1; rc=$?
  e=$(date +%s)
  echo "$id rc=$rc $((e-s))s $(grep -c '^KNOWN-FINDING' target/work/runall_$id.log) known | $(tail -1 target/work/runall_$id.log | cut -c1-150) $(grep -m1 '^VIOLATION' target/work/runall_$id.log)"
done
