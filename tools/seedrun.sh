#!/bin/bash
# tools/seedrun.sh <lane> <ID> [<check id>...]  — evaluate seeded/<ID>/patch.diff in a private lane; writes seeded/<ID>/result.json
lane="$1"; id="$2"; shift 2; checks="${*:-$id}"
/verif/tools/lane.sh "$lane" /verif/seeded/$id/patch.diff > /verif/target/work/seedrun_$id.log 2>&1 || { echo "$id: lane/patch failed"; tail -3 /verif/target/work/seedrun_$id.log; exit 3; }
cd /verif/target/lanes/$lane/verif
res="{"
for c in $checks; do
  VERIF_NOLOCK=1 ./check $c > /verif/target/work/seedrun_${id}_$c.log 2>&1; rc=$?
  v=$(grep -m1 '^VIOLATION' /verif/target/work/seedrun_${id}_$c.log)
  rp=$(echo "$v" | sed -n 's/.*replay=\([^ ]*\).*/\1/p')
  [ -n "$rp" ] && [ -f "$rp" ] && cp "$rp" /verif/seeded/$id/replay_$c.json
  echo "$id: check $c exit=$rc $v"
  res="$res\"$c\": {\"exit\": $rc, \"line\": \"$(echo $v | sed 's#/verif/target/lanes/[^/]*/verif/##')\"},"
done
echo "${res%,}}" > /verif/seeded/$id/result.json
git -C /verif/target/lanes/$lane/repo checkout -q -- .
