#!/bin/bash
# tools/mutest.sh <patch.diff> <Cnn> [<Cnn>...]
# Apply a patch to /repo under an exclusive lock (so no other check sees the mutated tree), run the
# given checks, always restore /repo, print each check's exit code. The patch is a `git diff` of /repo.
# (Replace this file only by `mv` of a new file: running instances keep reading the old inode.)
set -u
patch="$(realpath "$1")"; shift
mkdir -p /verif/target/work
exec 9>/verif/target/repo.lock
flock -x 9
cd /repo
if [ -n "$(git status --porcelain --untracked-files=no)" ]; then echo "mutest: /repo is dirty, refusing"; exit 3; fi
trap 'git -C /repo checkout -- .' EXIT
if ! git apply "$patch"; then echo "mutest: patch does not apply"; exit 3; fi
cd /verif
for id in "$@"; do
  VERIF_NOLOCK=1 ./check "$id" > "/verif/target/work/mutest_$id.log" 2>&1
  rc=$?
  echo "mutest: $id exit=$rc $(grep -m1 '^VIOLATION' /verif/target/work/mutest_$id.log)"
done
