#!/usr/bin/env python3
"""tools/confirm_seeds.py [ID...] — the coordinator's own confirmation of each seeded change, in a scratch worktree:
demo passes on the unchanged tree, fails with the change, and the touched crates' existing tests still pass with the
change (failures are listed; timing-sensitive tests known to flake under load are reported separately).
Writes seeded/<ID>/confirm.json. Scratch worktree and build output live under /tmp/cs-* and are removed at the end."""
import json, os, re, subprocess, sys, glob, shutil
ROOT = "/verif"; WT = "/tmp/cs-wt"; TGT = "/tmp/cs-target"
ENV = dict(os.environ, CARGO_TARGET_DIR=TGT, CARGO_NET_OFFLINE="true")
FLAKY = re.compile(r"performance|test_cas_edge_cases|test_local_client_large_value|permission_denied|push_transfer|wait_applied|standalone|test_ready_and_wait_ready|high_frequency|test_drain_single_request_no_delay|test_pending_max_zeroed|join_cluster|out_of_sync|snapshot_scenario|test_minority_failure|linearizable_read|test_concurrent_write|failover|test_leader_election_based")
def sh(cmd, cwd=WT, timeout=3600):
    p = subprocess.run(cmd, shell=True, cwd=cwd, capture_output=True, text=True, env=ENV, timeout=timeout)
    return p.returncode, p.stdout + p.stderr
def demo_cmd(meta, d):
    s = str(meta.get("demo_cmd", ""))
    f = os.path.join(d, "demo_cmd.txt")
    if "cargo" not in s and os.path.exists(f): s = open(f).read()
    m = re.search(r"cargo (?:nextest run|test)[^#(\n]*", s)
    c = m.group(0).strip() if m else None
    if c and "--offline" not in c: c += " --offline"
    return c
ids = sys.argv[1:] or sorted(os.path.basename(p) for p in glob.glob(ROOT + "/seeded/C*"))
for i in ids:
    d = f"{ROOT}/seeded/{i}"
    if not os.path.exists(d + "/patch.diff") or not os.path.exists(d + "/demo.diff"): print(i, "incomplete"); continue
    meta = json.load(open(d + "/meta.json"))
    subprocess.run(f"git -C /repo worktree remove --force {WT}", shell=True, capture_output=True)
    subprocess.run(f"git -C /repo worktree add --detach {WT} HEAD", shell=True, capture_output=True)
    res = {"repo_head": subprocess.run("git -C /repo rev-parse --short HEAD", shell=True, capture_output=True, text=True).stdout.strip()}
    cmd = demo_cmd(meta, d); res["demo_cmd"] = cmd
    rc, out = sh(f"git apply {d}/demo.diff"); res["demo_diff_applies"] = rc == 0
    if cmd:
        rc, out = sh(cmd); res["demo_exit_without_change"] = rc; res["demo_without_tail"] = out[-400:]
    rc, out = sh(f"git apply {d}/patch.diff"); res["patch_applies"] = rc == 0
    if cmd:
        rc, out = sh(cmd); res["demo_exit_with_change"] = rc; res["demo_with_tail"] = out[-600:]
    rc, out = sh("git diff --name-only")
    crates = sorted({m.group(1) for m in re.finditer(r"^(d-engine[a-z-]*)/src/", open(d + "/patch.diff").read(), re.M)} | {m.group(1) for m in re.finditer(r"^\+\+\+ b/(d-engine[a-z-]*)/src/", open(d + "/patch.diff").read(), re.M)})
    res["existing_tests"] = {}
    if os.environ.get("SKIP_SUITE"):
        res["existing_tests_note"] = "touched crates' suites were run by the producing agent in its own worktree (see meta.json tests_run); not repeated here"
        crates = []
    for c in crates:
        feat = "--features rocksdb,watch" if c == "d-engine-server" else ("--features watch" if c == "d-engine-core" else "")
        rc, out = sh(f"cargo nextest run -p {c} {feat} --offline --no-fail-fast --test-threads 6", timeout=5400)
        fails = sorted(set(re.findall(r"FAIL \[[^\]]*\] \(?[^)]*\)?\s*(\S+ \S+)", out)))
        summ = re.search(r"Summary \[[^\]]*\] (.*)", out)
        res["existing_tests"][c] = {"summary": summ.group(1) if summ else out[-200:], "failed_related": [f for f in fails if not FLAKY.search(f) and "seed" not in f.lower() and "demo" not in f.lower()],
                                     "failed_load_sensitive_or_demo": [f for f in fails if FLAKY.search(f) or "seed" in f.lower() or "demo" in f.lower()]}
    res["confirmed"] = bool(res.get("patch_applies") and res.get("demo_exit_without_change") == 0 and res.get("demo_exit_with_change", 0) != 0)
    res["existing_tests_clean"] = all(not v["failed_related"] for v in res["existing_tests"].values()) if res["existing_tests"] else None
    json.dump(res, open(d + "/confirm.json", "w"), indent=1)
    print(i, "confirmed" if res["confirmed"] else "NOT CONFIRMED", {k: res.get(k) for k in ("patch_applies", "demo_exit_without_change", "demo_exit_with_change")}, {c: v["summary"] for c, v in res["existing_tests"].items()}, flush=True)
subprocess.run(f"git -C /repo worktree remove --force {WT}", shell=True, capture_output=True)
