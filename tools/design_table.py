#!/usr/bin/env python3
"""Regenerates the machine-written part of DESIGN.md (section 12.5) from props/*.json, known_findings.json, seeded/*/."""
import json, glob, os, re
ROOT = os.path.dirname(os.path.dirname(os.path.abspath(__file__)))
kf = json.load(open(os.path.join(ROOT, "known_findings.json")))["findings"]
rows = []
for f in sorted(glob.glob(os.path.join(ROOT, "props", "C*.json"))):
    c = json.load(open(f)); pid = c["id"]
    op = sorted({k["id"] for k in kf if k["property"] == pid and k.get("status") == "open"})
    fx = sorted({f"{k['id']} ({k.get('commit','?')})" for k in kf if k["property"] == pid and k.get("status") == "fixed"})
    seed = ""
    rp = os.path.join(ROOT, "seeded", pid, "result.json")
    if os.path.exists(rp):
        r = json.load(open(rp))
        seed = "; ".join(f"{k}: exit {v.get('exit')}" + (" (no-failing-input-found)" if "no-failing-input-found" in v.get("line", "") else "") for k, v in r.items())
    elif os.path.isdir(os.path.join(ROOT, "seeded", pid)): seed = "seed present, not evaluated"
    part = c.get("partial", [])
    ptxt = "; ".join((p if isinstance(p, str) else json.dumps(p)) for p in part)
    rows.append((pid, len(c["theorems"]), ", ".join(x["name"] for x in c["families"]), ptxt[:400], ", ".join(op) or "—", ", ".join(fx) or "—", seed or "—"))
out = ["| id | theorems (obligations) | families | partial / named gaps | open findings | fixed findings | seeded change → check result |", "|---|---|---|---|---|---|---|"]
for r in rows: out.append("| " + " | ".join(str(x).replace("|", "\\|").replace("\n", " ") for x in r) + " |")
txt = "\n".join(out) + "\n"
p = os.path.join(ROOT, "DESIGN.md"); s = open(p).read()
begin, end = "<!-- BEGIN GENERATED TABLE -->", "<!-- END GENERATED TABLE -->"
if begin in s:
    s = s[:s.index(begin) + len(begin)] + "\n" + txt + s[s.index(end):]
    open(p, "w").write(s); print("DESIGN.md table updated:", len(rows), "rows")
else:
    print(txt)
