#!/usr/bin/env python3
"""Regenerates the machine-written part of DESIGN.md (section 12.5) from props/*.json, known_findings.json, seeded/*/."""
import json, glob, os, re
ROOT = os.path.dirname(os.path.dirname(os.path.abspath(__file__)))
kf = json.load(open(os.path.join(ROOT, "known_findings.json")))["findings"]
rows = []
for f in sorted(glob.glob(os.path.join(ROOT, "props", "C*.json"))):
    c = json.load(open(f)); pid = c["id"]
    op = sorted({k["id"] for k in kf if k["property"] == pid and k.get("status") == "open"})
    fx = sorted({f"{k['id']} ({k.get('commit','?')})" for k in kf if k["property"] == pid and k.get("status") == "fixed"})
    seed = ""
    rp = os.path.join(ROOT, "seeded", pid, "result.json")
    if os.path.exists(rp):
        r = json.load(open(rp))
        seed = "; ".join(f"{k}: exit {v.get('exit')}" + (" (no-failing-input-found)" if "no-failing-input-found" in v.get("line", "") else "") for k, v in r.items())
    elif os.path.isdir(os.path.join(ROOT, "seeded", pid)): seed = "seed present, not evaluated"
    part = c.get("partial", [])
    ptxt = "; ".join((p if isinstance(p, str) else json.dumps(p)) for p in part)
    rows.append((pid, len(c["theorems"]), ", ".join(x["name"] for x in c["families"]), ptxt[:400], ", ".join(op) or "—", ", ".join(fx) or "—", seed or "—"))
out = ["| id | theorems (obligations) | families | partial / named gaps | open findings | fixed findings | seeded change → check result |", "|---|---|---|---|---|---|---|"]
for r in rows: out.append("| " + " | ".join(str(x).replace("|", "\\|").replace("\n", " ") for x in r) + " |")
txt = "\n".join(out) + "\n"
# ---- fix commits
import subprocess
log = subprocess.run(["git", "-C", "/repo", "log", "--reverse", "--format=%h\t%s", "--grep=^fix:", "--grep=^Revert"], capture_output=True, text=True).stdout.strip().splitlines()
byc = {}
for k in kf:
    if k.get("status") == "fixed" and k.get("commit"): byc.setdefault(k["commit"][:7], set()).add(f"{k['id']}/{k['property']}")
fx = ["| commit | finding / property | subject |", "|---|---|---|"]
for l in log:
    h, subj = l.split("\t", 1)
    fx.append(f"| {h} | {', '.join(sorted(byc.get(h[:7], []))) or '—'} | {subj} |")
fixtxt = "\n".join(fx) + "\n"
# ---- seeds
sd = ["| property | what the independently produced change does | needs | demo confirmed by coordinator | result of the property's check with the change applied |", "|---|---|---|---|---|"]
for d in sorted(glob.glob(os.path.join(ROOT, "seeded", "C*"))):
    pid = os.path.basename(d)
    try: m = json.load(open(os.path.join(d, "meta.json")))
    except Exception: continue
    conf = "not run"
    cp = os.path.join(d, "confirm.json")
    if os.path.exists(cp):
        c = json.load(open(cp)); conf = ("yes" if c.get("confirmed") else "NO") + f" (demo exit {c.get('demo_exit_without_change')} → {c.get('demo_exit_with_change')})"
    res = "not evaluated"
    rp = os.path.join(d, "result.json")
    if os.path.exists(rp):
        r = json.load(open(rp)); res = "; ".join(f"{k}: exit {v.get('exit')}" + (" no-failing-input-found" if "no-failing-input-found" in v.get("line", "") else (" with failing input" if v.get("exit") == 1 else " **MISSED**")) for k, v in r.items())
    clip = lambda x, n: (str(x)[:n] + "…") if len(str(x)) > n else str(x)
    sd.append("| " + " | ".join(z.replace("|", "\\|").replace("\n", " ") for z in [pid, clip(m.get("summary", ""), 260), clip(m.get("needs", ""), 200), conf, res]) + " |")
seedtxt = "\n".join(sd) + "\n"
p = os.path.join(ROOT, "DESIGN.md"); s = open(p).read()
begin, end = "<!-- BEGIN GENERATED TABLE -->", "<!-- END GENERATED TABLE -->"
def put(s, tag, body):
    b, e = f"<!-- BEGIN GENERATED {tag} -->", f"<!-- END GENERATED {tag} -->"
    if b in s: return s[:s.index(b) + len(b)] + "\n" + body + s[s.index(e):]
    return s
s = put(s, "TABLE", txt); s = put(s, "FIXES", fixtxt); s = put(s, "SEEDS", seedtxt)
open(p, "w").write(s); print("DESIGN.md generated parts updated:", len(rows), "props,", len(fx) - 2, "fix commits,", len(sd) - 2, "seeds")
