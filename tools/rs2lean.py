#!/usr/bin/env python3
"""
rs2lean.py — translation mechanism (DESIGN.md section 0, mechanism 2).

Regenerates lean/DEngine/Gen/*.lean from the *current source text* of a whitelisted set of small pure
Rust functions, so that theorems stated about (or bridged to) the generated definitions are re-checked
against what the code says now. Supported subset (anything else => error, the function then falls back to
the correspondence mechanism and the caller is told):

  statements : `let x = e;`  `let P::V { f } = e;` (binds f := e.f)  `return e;`  `e?;` (sub-validator call)
               `if c { .. } [else { .. }]`  logging macros (`debug!`, `warn!`, `tracing::warn!`, ...) are skipped;
               an `if` whose block contains only logging is skipped.
  expressions: integer literals, identifiers, `self.a.b`, `a.b`, unary `!`, binary `* / % + - < <= > >= == != && ||`,
               parentheses, `Some(e)`, `None`, `Ok(())`, `Err(..)` (payload ignored, numbered), `cmp::min/max(a,b)`,
               `.saturating_add/.saturating_sub/.min/.max(e)`, `(a..=b).contains(&x)`, `.is_empty()`,
               `.map(|v| e).unwrap_or(d)` on an `Option<LogId>`-like parameter (field access inside the closure),
               `if c { e } else { e }` as an expression.
  types      : u64/usize/u32 -> UInt64 (u32 fields are only ever compared; usize = u64 on the 64-bit target),
               bool -> Bool, Option<T> -> Option T, Result<()> -> Option Nat (none = Ok(()), some k = k-th Err site).
  arithmetic : `+ - *` are the wrapping UInt64 operations (Rust release semantics; debug builds panic on overflow —
               stated in the trusted base), `/ %` as in Rust for non-zero divisors.

Usage: rs2lean.py <spec.json> <out.lean>      exit 0 = generated; exit 1 = a function left the subset (message says which)
"""
import sys, re, json, os

LOG_MACROS = {"debug", "warn", "info", "trace", "error", "println"}


class Unsupported(Exception):
    pass


# ------------------------------------------------------------------------------------------- lexer
TOKEN_RE = re.compile(r"""
   (?P<ws>\s+|//[^\n]*|/\*.*?\*/)
 | (?P<num>\d[\d_]*(?:u64|usize|u32|i32)?)
 | (?P<str>"(?:\\.|[^"\\])*")
 | (?P<id>[A-Za-z_][A-Za-z0-9_]*)
 | (?P<op>\.\.=|::|->|=>|==|!=|<=|>=|&&|\|\||[-+*/%<>=!&|.,;:(){}\[\]?#])
""", re.X | re.S)


def lex(src):
    out, i = [], 0
    while i < len(src):
        m = TOKEN_RE.match(src, i)
        if not m:
            raise Unsupported(f"cannot tokenize at: {src[i:i+30]!r}")
        i = m.end()
        if m.lastgroup == "ws": continue
        out.append((m.lastgroup, m.group(m.lastgroup)))
    return out


# ------------------------------------------------------------------------------- source extraction
def extract_fn(path, fn, impl=None):
    src = open(path).read()
    fn_re = re.compile(r"fn\s+" + re.escape(fn) + r"\s*(?:<[^>]*>)?\s*\(")
    scope, m = src, None
    if impl:
        for im in re.finditer(r"impl(?:<[^>]*>)?\s+(?:[\w:]+(?:<[^>]*>)?\s+for\s+)?" + re.escape(impl) + r"\b[^{;]*\{", src):
            depth, j = 1, im.end()
            while depth and j < len(src):
                depth += {"{": 1, "}": -1}.get(src[j], 0); j += 1
            cand = src[im.end():j]
            mm = fn_re.search(cand)
            if mm:
                scope, m = cand, mm
                break
        if m is None: raise Unsupported(f"fn {fn} not found in any `impl {impl}` of {path}")
    else:
        m = fn_re.search(scope)
        if not m: raise Unsupported(f"fn {fn} not found in {path}")
    i = m.end()
    depth = 1
    while depth:
        depth += {"(": 1, ")": -1}.get(scope[i], 0); i += 1
    params = scope[m.end():i - 1]
    j = scope.index("{", i)
    ret = scope[i:j].strip()
    depth, k = 1, j + 1
    while depth:
        depth += {"{": 1, "}": -1}.get(scope[k], 0); k += 1
    body = scope[j + 1:k - 1]
    return params, ret, body


# ------------------------------------------------------------------------------------------ parser
class P:
    def __init__(self, toks, ctx):
        self.t, self.i, self.ctx = toks, 0, ctx

    def peek(self, k=0):
        return self.t[self.i + k] if self.i + k < len(self.t) else ("eof", "")

    def eat(self, val=None):
        tok = self.peek()
        if val is not None and tok[1] != val:
            raise Unsupported(f"expected {val!r}, got {tok[1]!r} near token {self.i}")
        self.i += 1
        return tok

    def at(self, val): return self.peek()[1] == val

    # ---- statements -> a Lean expression for the block's value
    def block_value(self, end="}"):
        """parse statements until `end`; return Lean expr of the block's value (early returns handled by nesting)."""
        if self.at(end) or self.peek()[0] == "eof":
            return "()"
        # logging macro statement
        if self.is_log_macro():
            self.skip_macro(); self.opt(";")
            return self.block_value(end)
        if self.at("let"):
            self.eat()
            if self.peek(1)[1] == "::":      # let Path::Variant { f } = e;
                self.eat(); self.eat("::"); self.eat(); self.eat("{")
                f = self.eat()[1]
                self.opt(",")
                self.eat("}"); self.eat("=")
                e = self.expr(); self.eat(";")
                rest = self.block_value(end)
                return f"(let {f} := {e}.{f}\n  {rest})"
            name = self.eat()[1]
            if self.at(":"):
                while not self.at("="): self.eat()
            self.eat("=")
            e = self.expr(); self.eat(";")
            rest = self.block_value(end)
            return f"(let {name} := {e}\n  {rest})"
        if self.at("return"):
            self.eat()
            e = self.expr(); self.opt(";")
            self.skip_to(end)
            return e
        if self.at("if"):
            save = self.i
            self.eat()
            c = self.expr(no_struct=True)
            self.eat("{")
            if self.block_is_only_logging():
                self.skip_block()
                if self.at("else"): raise Unsupported("else after logging-only if")
                return self.block_value(end)
            thenv = self.block_value("}"); self.eat("}")
            if self.at("else"):
                self.eat(); self.eat("{")
                elsev = self.block_value("}"); self.eat("}")
                if self.at(end) or self.peek()[0] == "eof":
                    return f"(if {c} then {thenv} else {elsev})"
                raise Unsupported("statements after if/else expression")
            # `if c { ...return... }` followed by the rest: then-branch must end in return
            rest = self.block_value(end)
            if thenv == "()":
                return rest
            mk = re.match(r"^\(some (\d+)\)$", thenv)
            if mk:
                return f"(guardErr {c} {mk.group(1)}\n  {rest})"
            return f"(if {c} then {thenv} else\n  {rest})"
        # expression statement or final expression
        e = self.expr()
        if self.at("?"):
            self.eat(); self.eat(";")
            rest = self.block_value(end)
            return f"(andThen {e}\n  {rest})"
        if self.at(";"):
            self.eat()
            return self.block_value(end)
        return e

    def opt(self, v):
        if self.at(v): self.eat()

    def skip_to(self, end):
        depth = 0
        while not (depth == 0 and self.at(end)) and self.peek()[0] != "eof":
            v = self.eat()[1]
            depth += {"{": 1, "}": -1, "(": 1, ")": -1}.get(v, 0)

    def is_log_macro(self):
        k = 0
        if self.peek()[1] == "tracing" and self.peek(1)[1] == "::": k = 2
        return self.peek(k)[0] == "id" and self.peek(k)[1] in LOG_MACROS and self.peek(k + 1)[1] == "!"

    def skip_macro(self):
        while not self.at("!"): self.eat()
        self.eat("!")
        opener = self.eat()[1]
        closer = {"(": ")", "[": "]", "{": "}"}[opener]
        depth = 1
        while depth:
            v = self.eat()[1]
            if v == opener: depth += 1
            elif v == closer: depth -= 1

    def block_is_only_logging(self):
        save = self.i
        ok = True
        while not self.at("}"):
            if self.is_log_macro():
                self.skip_macro(); self.opt(";")
            else:
                ok = False; break
        self.i = save
        return ok

    def skip_block(self):
        depth = 1
        while depth:
            v = self.eat()[1]
            depth += {"{": 1, "}": -1}.get(v, 0)

    # ---- expressions (precedence climbing)
    PREC = [("||",), ("&&",), ("==", "!=", "<", "<=", ">", ">="), ("+", "-"), ("*", "/", "%")]

    def expr(self, lvl=0, no_struct=False):
        if lvl == len(self.PREC): return self.unary()
        lhs = self.expr(lvl + 1)
        while self.peek()[1] in self.PREC[lvl]:
            op = self.eat()[1]
            rhs = self.expr(lvl + 1)
            lean = {"||": "||", "&&": "&&", "==": "==", "!=": "!="}.get(op, op)
            if op in ("<", "<=", ">", ">="):
                fn, a, b = {"<": ("ltb", lhs, rhs), "<=": ("leb", lhs, rhs), ">": ("ltb", rhs, lhs), ">=": ("leb", rhs, lhs)}[op]
                lhs = f"({fn} {a} {b})"
            else:
                lhs = f"({lhs} {lean} {rhs})"
        return lhs

    def unary(self):
        if self.at("!"):
            self.eat(); return f"(!{self.unary()})"
        if self.at("&") or self.at("*"):
            self.eat(); return self.unary()
        return self.postfix(self.primary())

    def primary(self):
        kind, v = self.peek()
        if kind == "num":
            self.eat()
            return "(" + re.sub(r"(u64|usize|u32|i32)$", "", v.replace("_", "")) + " : UInt64)"
        if kind == "str":
            self.eat(); return '""'
        if v == "(":
            self.eat()
            if self.at(")"):
                self.eat(); return "()"
            e = self.expr()
            if self.at("..="):               # (a..=b).contains(&x)
                self.eat(); hi = self.expr(); self.eat(")")
                self.eat("."); self.eat("contains"); self.eat("(")
                x = self.unary(); self.eat(")")
                return f"((leb {e} {x}) && (leb {x} {hi}))"
            self.eat(")")
            return e
        if v == "if":
            self.eat()
            c = self.expr(); self.eat("{"); a = self.block_value("}"); self.eat("}")
            self.eat("else"); self.eat("{"); b = self.block_value("}"); self.eat("}")
            return f"(if {c} then {a} else {b})"
        if kind == "id":
            self.eat()
            if v == "Some":
                self.eat("("); e = self.expr(); self.eat(")"); return f"(some {e})"
            if v == "None": return "none"
            if v == "Ok":
                self.eat("("); self.skip_to(")"); self.eat(")"); return "none"
            if v == "Err":
                self.eat("("); self.skip_to(")"); self.eat(")")
                self.ctx["err"] += 1
                return f"(some {self.ctx['err']})"
            if v == "true" or v == "false": return v
            if v == "self": return "self"
            if self.at("::"):                # cmp::min / std::cmp::max / u64::MAX
                path = [v]
                while self.at("::"):
                    self.eat(); path.append(self.eat()[1])
                last = path[-1]
                if last in ("min", "max") and self.at("("):
                    self.eat(); a = self.expr(); self.eat(","); b = self.expr(); self.opt(","); self.eat(")")
                    return f"(if {a} <= {b} then {a if last == 'min' else b} else {b if last == 'min' else a})"
                if last == "MAX": return "(0xFFFFFFFFFFFFFFFF : UInt64)"
                raise Unsupported("path " + "::".join(path))
            if self.at("("):                 # free function call: sub-validator with known mapping
                self.eat(); args = []
                while not self.at(")"):
                    args.append(self.expr()); self.opt(",")
                self.eat(")")
                if v in self.ctx.get("calls", {}): return self.ctx["calls"][v]
                raise Unsupported("call to " + v)
            return v
        raise Unsupported(f"unexpected token {v!r}")

    def postfix(self, e):
        while True:
            if self.at("."):
                self.eat()
                name = self.eat()[1]
                if self.at("("):
                    self.eat()
                    if name == "map":       # .map(|x| body)
                        self.eat("|"); x = self.eat()[1]; self.eat("|")
                        body = self.expr(); self.eat(")")
                        e = f"(({e}).map (fun {x} => {body}))"
                        continue
                    args = []
                    while not self.at(")"):
                        args.append(self.expr()); self.opt(",")
                    self.eat(")")
                    if e == "self" and not args and name in self.ctx.get("self_methods", []):
                        e = f"self_{name}"
                    elif name == "saturating_add": e = f"(satAdd {e} {args[0]})"
                    elif name == "saturating_sub": e = f"(satSub {e} {args[0]})"
                    elif name in ("min", "max"):
                        a, b = e, args[0]
                        e = f"(if {a} <= {b} then {a if name == 'min' else b} else {b if name == 'min' else a})"
                    elif name == "unwrap_or": e = f"(({e}).getD {args[0]})"
                    elif name == "is_empty": e = f"{e}_is_empty"
                    elif name == "validate":
                        sub = e.split(".")[-1]
                        call = self.ctx.get("validators", {}).get(sub)
                        if not call: raise Unsupported(f"sub-validator {e}.validate")
                        e = f"({call} {e}" + "".join(" " + a for a in args) + ")"
                    else:
                        raise Unsupported("method ." + name)
                else:
                    e = f"{e}.{name}"
            else:
                return e


# ------------------------------------------------------------------------------------------ driver
TY = {"u64": "UInt64", "usize": "UInt64", "u32": "UInt64", "bool": "Bool"}


def lean_type(t):
    t = t.strip()
    if t in TY: return TY[t]
    m = re.match(r"Option<(.+)>$", t)
    if m: return f"(Option {lean_type(m.group(1))})"
    if t in ("Result<()>", "Result<(), Error>"): return "(Option Nat)"
    if re.match(r"&?[A-Z]\w*$", t): return t.lstrip("&")
    raise Unsupported("type " + t)


def translate(entry, repo):
    params, ret, body = extract_fn(os.path.join(repo, entry["file"]), entry["fn"], entry.get("impl"))
    ctx = {"err": 0, "validators": entry.get("validators", {}), "calls": entry.get("calls", {}),
           "self_methods": entry.get("self_methods", [])}
    plist = []
    for p in [x.strip() for x in params.split(",") if x.strip()]:
        if p in ("&self", "self", "&mut self"):
            if entry.get("self_type"): plist.append(("self", entry["self_type"]))
            for mname in entry.get("self_methods", []): plist.append((f"self_{mname}", "UInt64"))
            continue
        n, t = p.split(":", 1)
        plist.append((n.strip(), entry.get("param_types", {}).get(n.strip()) or lean_type(t)))
    rty = entry.get("ret") or lean_type(ret.replace("->", "").strip())
    val = P(lex(body), ctx).block_value(end="\0")
    sig = " ".join(f"({n} : {t})" for n, t in plist)
    return f"/-- generated from `{entry['file']}` fn `{(entry.get('impl') + '::') if entry.get('impl') else ''}{entry['fn']}` -/\ndef {entry['lean']} {sig} : {rty} :=\n  {val}\n"


def main():
    spec = json.load(open(sys.argv[1]))
    repo = spec.get("repo", "/repo")
    out = ["import DEngine.Gen.Prelude",
           f"/- GENERATED by tools/rs2lean.py from {repo} — do not edit; regenerated on every check run. -/",
           "namespace DEngine.Gen", ""]
    for st in spec.get("structures", []):
        out.append(f"structure {st['name']} where")
        for f, t in st["fields"].items(): out.append(f"  {f} : {t}")
        out.append("")
    failed = []
    for e in spec["functions"]:
        try:
            out.append(translate(e, repo))
        except (Unsupported, ValueError, KeyError, IndexError) as ex:
            failed.append((e["fn"], str(ex)))
            print(f"rs2lean: UNSUPPORTED {e['file']} fn {e['fn']}: {ex}")
    out.append("end DEngine.Gen")
    os.makedirs(os.path.dirname(sys.argv[2]), exist_ok=True)
    new = "\n".join(out) + "\n"
    old = open(sys.argv[2]).read() if os.path.exists(sys.argv[2]) else None
    if new != old: open(sys.argv[2], "w").write(new)
    print(f"rs2lean: {len(spec['functions']) - len(failed)}/{len(spec['functions'])} functions translated -> {sys.argv[2]}")
    sys.exit(1 if failed else 0)


if __name__ == "__main__":
    main()
