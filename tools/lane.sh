#!/bin/bash
# tools/lane.sh <name> [patch.diff]  then run checks inside:  cd /verif/target/lanes/<name>/verif && VERIF_NOLOCK=1 ./check Cnn
# A lane = private clone of /repo HEAD + private copy of /verif (check, lean incl. build output, harness, props, corpus)
# + private cargo target. Used to evaluate seeded changes without blocking /repo's lock. The lane's checks behave
# exactly like /verif's, only against the lane's repo clone.
set -eu
name="$1"; patch="${2:-}"
L=/verif/target/lanes/$name
mkdir -p /verif/target/lanes
if [ ! -d "$L" ]; then
  mkdir -p "$L"
  git clone -q --shared /repo "$L/repo"
  mkdir -p "$L/verif"
  rsync -a --exclude target --exclude .git --exclude seeded --exclude replay --exclude evidence /verif/ "$L/verif/"
  mkdir -p "$L/verif/target"
  # warm start: registry deps (rocksdb!) are path-independent
  cp -r /verif/target/debug "$L/verif/target/debug" 2>/dev/null || true
else
  git -C "$L/repo" checkout -q -- . ; git -C "$L/repo" fetch -q origin; git -C "$L/repo" reset -q --hard origin/main 2>/dev/null || git -C "$L/repo" reset -q --hard "$(git -C /repo rev-parse HEAD)"
  rsync -a --exclude target --exclude .git --exclude seeded --exclude replay --exclude evidence --exclude 'lean/.lake' /verif/ "$L/verif/"
fi
sed -i "s#/repo/#$L/repo/#g" "$L/verif/harness/Cargo.toml"
sed -i "s#target-dir = \"/verif/target\"#target-dir = \"$L/verif/target\"#" "$L/verif/harness/.cargo/config.toml"
sed -i "s#\"repo\": \"/repo\"#\"repo\": \"$L/repo\"#" "$L"/verif/tools/*.spec.json
if [ -n "$patch" ]; then git -C "$L/repo" apply "$(realpath "$patch")"; fi
echo "lane ready: $L (repo at $(git -C "$L/repo" rev-parse --short HEAD)$( [ -n "$patch" ] && echo " + $patch"))"
