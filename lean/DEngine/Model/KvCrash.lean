import DEngine.Model.MiniKv
/-
  M-KVCRASH — engine-level crash consistency (C15), family `kvcrash`.

  FS-level model of the File state machine and key-level model of the RocksDB one, at the granularity
  of their file operations / DB writes; a *crash image* is what is on disk at a crash point (process
  exit without Drop: everything written so far is visible, nothing else).

  What is modelled (Rust file + fn):
  * File engine, d-engine-server/src/storage/adaptors/file/file_state_machine.rs
      - `apply_chunk` (one entry per call): outcome evaluated, WAL record appended (`encode_wal_entry`:
        Insert / Delete / successful CAS as Insert / failed CAS as CasFailed / Noop) and flushed
        [crash point `apply:wal-appended`], memory updated, `update_last_applied` (memory only),
        then `if should_checkpoint() { checkpoint() }` (10 s of tokio time since the last checkpoint —
        `tick` makes it due; the 1000-entry threshold is out of reach of the cases).
      - `checkpoint` = `persist_data_async` (open with truncate [`persist_data:truncated`], write all
        [`persist_data:written`]), `persist_metadata_async` (truncate [`persist_metadata:truncated`],
        write index+term [`persist_metadata:written`]), `clear_wal_async` [`clear_wal:done`].
      - `flush` (sync) = `persist_data` [`persist_data_sync:written`] + `persist_metadata`
        [`persist_metadata_sync:written`]; WAL kept.
      - `Drop` = `save_hard_state` = `persist_last_applied` (metadata FIRST [`persist_metadata_sync:written`])
        + `flush`; WAL kept.
      - `new` → `load_from_disk`: `load_metadata` (missing / shorter than 16 bytes ⇒ (0,0)), `load_data`,
        `replay_wal`: every record applied in order; since fix F15 `last_applied` is advanced to the index
        of the last replayed record (records are appended at apply start with consecutive indexes, so
        that index is the number of entries started, `Img.n`) and, if the WAL was non-empty, the
        recovered state is written as a `checkpoint()` (five crash points) instead of just clearing the WAL.
  * RocksDB engine, …/rocksdb/rocksdb_state_machine.rs
      - `apply_chunk`: `write_wbwi` — data AND applied index in the same atomic batch (fix F15r).
      - `flush` / `flush_async` / `close_db` / `Drop`: `persist_state_machine_metadata` (applied index).
      - `new`: `load_state_machine_metadata`.
  * Restart: node/builder.rs `build` takes `state_machine.last_applied().index` as the node's applied index;
    Raft then re-applies the committed entries above it (`reapply`).
-/
namespace DEngine.KvCrash
open DEngine.MiniKv

inductive Eng where
  | file | rocks
deriving DecidableEq, Repr, Inhabited

inductive Op where
  | apply (c : Cmd)
  | ckpt      -- flush_async()
  | flush     -- flush()
  | reopen    -- close_storage() + Drop + new() (graceful restart)
  | tick      -- 11 s of tokio time pass (File: next apply_chunk checkpoints)
deriving DecidableEq, Repr, Inhabited

/-- the record the File engine writes to its WAL for a command evaluated on `m` (an unconditional write). -/
def outcome (m : AMap) : Cmd → Cmd
  | .put k v _ => .put k v none
  | .del k => .del k
  | .cas k e v => if casMatch (get m k) e then .put k v none else .noop
  | .noop => .noop

/-- What is on disk. -/
structure Img where
  name : String
  /-- entries whose apply had started (they are committed): the node will be asked to have applied them. -/
  n : Nat
  /-- File: `state.data`; RocksDB: the column family. -/
  dData : AMap
  /-- persisted applied index (0 = missing / unreadable). -/
  dMeta : Nat
  /-- File: `wal.log`. -/
  wal : List Cmd
deriving Repr, Inhabited

structure St where
  eng : Eng
  /-- history: commands of the entries started so far (entry i = cmds[i-1]). -/
  cmds : List Cmd := []
  data : AMap := []
  la : Nat := 0
  due : Bool := false
  dData : AMap := []
  dMeta : Nat := 0
  wal : List Cmd := []
deriving Repr, Inhabited

def img (s : St) (name : String) : Img :=
  match s.eng with
  | .file => { name, n := s.cmds.length, dData := s.dData, dMeta := s.dMeta, wal := s.wal }
  | .rocks => { name, n := s.cmds.length, dData := s.data, dMeta := s.dMeta, wal := [] }

/-- File `checkpoint()`: five file operations, a crash point after each. -/
def ckptSteps (s : St) : St × List Img :=
  let s1 := { s with dData := [] }
  let s2 := { s1 with dData := s.data }
  let s3 := { s2 with dMeta := 0 }
  let s4 := { s3 with dMeta := s.la }
  let s5 := { s4 with wal := [], due := false }
  (s5, [img s1 "persist_data:truncated", img s2 "persist_data:written",
        img s3 "persist_metadata:truncated", img s4 "persist_metadata:written", img s5 "clear_wal:done"])

/-- File `flush()` (sync): data file, then metadata file; a crash point after each. -/
def flushSteps (s : St) : St × List Img :=
  let s1 := { s with dData := s.data }
  let s2 := { s1 with dMeta := s.la }
  (s2, [img s1 "persist_data_sync:written", img s2 "persist_metadata_sync:written"])

/-- `new()` on an image: (contents, applied index). -/
def recover (eng : Eng) (i : Img) : AMap × Nat :=
  match eng with
  | .file => (applyAll i.dData i.wal, if i.wal.isEmpty then i.dMeta else max i.dMeta i.n)
  | .rocks => (i.dData, i.dMeta)

def step (s : St) : Op → St × List Img
  | .apply c =>
    match s.eng with
    | .file =>
      let s1 := { s with wal := s.wal ++ [outcome s.data c], cmds := s.cmds ++ [c] }
      let s2 := { s1 with data := (applyCmd s.data c).1, la := s1.cmds.length }
      if s.due then
        let (s3, is) := ckptSteps s2
        (s3, img s1 "apply:wal-appended" :: is)
      else (s2, [img s1 "apply:wal-appended"])
    | .rocks =>
      ({ s with data := (applyCmd s.data c).1, cmds := s.cmds ++ [c], la := s.cmds.length + 1,
                dMeta := s.cmds.length + 1 }, [])
  | .ckpt =>
    match s.eng with
    | .file => ckptSteps s
    | .rocks => ({ s with dMeta := s.la }, [])
  | .flush =>
    match s.eng with
    | .file => flushSteps s
    | .rocks => ({ s with dMeta := s.la }, [])
  | .reopen =>
    match s.eng with
    | .file =>
      -- Drop: save_hard_state = persist_last_applied (metadata first), then flush
      let s0 := { s with dMeta := s.la }
      let (s1, is) := flushSteps s0
      let r := recover .file (img s1 "")
      if s1.wal.isEmpty then
        ({ s1 with data := r.1, la := r.2, due := false }, img s0 "persist_metadata_sync:written" :: is)
      else
        -- replay, then the recovered state becomes the new checkpoint
        let (s2, ks) := ckptSteps { s1 with data := r.1, la := r.2, due := false }
        (s2, img s0 "persist_metadata_sync:written" :: (is ++ ks))
    | .rocks => ({ s with dMeta := s.la }, [])
  | .tick => ({ s with due := true }, [])

/-- all crash images of a run, in order: those inside each op, then `op-done` after it. -/
def images (s : St) : List Op → List Img
  | [] => []
  | op :: ops =>
    let (s', is) := step s op
    is ++ [img s' "op-done"] ++ images s' ops

def exec (s : St) (ops : List Op) : St := ops.foldl (fun s op => (step s op).1) s

/-- Raft after restart: re-apply the committed entries above the recovered applied index. -/
def reapply (cmds : List Cmd) (kv : AMap) (la n : Nat) : AMap := applyAll kv ((cmds.take n).drop la)

/-- the reference: contents after applying the first `i` commands exactly once. -/
def ref (cmds : List Cmd) (i : Nat) : AMap := applyAll [] (cmds.take i)

structure Verdict where
  cp : String
  n : Nat
  la : Nat
  recKv : AMap
  fin : AMap
deriving Repr, Inhabited

/-- crash at the `j`-th crash point (the last one if `j` is beyond), recover, re-apply. -/
def crashAt (eng : Eng) (ops : List Op) (j : Nat) : Option Verdict :=
  let s0 : St := { eng }
  let is := images s0 ops
  match is[min j (is.length - 1)]? with
  | none => none
  | some i =>
    let cmds := (exec s0 ops).cmds
    let (kv, la) := recover eng i
    some { cp := i.name, n := i.n, la, recKv := kv, fin := reapply cmds kv la i.n }

def sameKvB (a b : AMap) : Bool := sortMap a == sortMap b

end DEngine.KvCrash
