import DEngine.Model.ClientQ
/-
  Observations of a `clientq` trace and the decidable predicates (monitors) of C29 / C14 / C30 / C11 over
  them. The same predicates are (a) evaluated by the driver on the IMPLEMENTATION's observation and (b) the
  subject of the theorems in Props/C29, C14, C30, C11 when applied to the model's own observation.
-/
namespace DEngine.ClientQ

/-- What is observable after one event. -/
structure EvObs where
  out : Out
  commit : Nat
  applied : Nat
  leaseValid : Bool
  deriving DecidableEq, Repr, Inhabited

/-- Final image of the queues (what the `verif_queues` / `verif_deadlines` hooks show), the log and the phase. -/
structure Image where
  last : Nat
  commit : Nat
  noopIdx : Option Nat
  nP : Nat
  nL : Nat
  nS : Nat
  nE : Nat
  pcw : List (Nat × Nat × Nat × Bool × Nat)   -- end, start, #senders, wait, remaining ms
  pwa : List Nat
  preads : List (Nat × Nat × Nat)             -- read index, #requests, remaining ms
  pleases : List Nat                          -- remaining ms
  pca : List (Nat × Bool × Nat)               -- index, is-noop, remaining ms
  log : List EntKind
  phase : Phase
  wantStepDown : Bool
  deriving DecidableEq, Repr, Inhabited

structure Obs where
  evs : List EvObs
  img : Image
  deriving Repr, Inhabited

def St.image (s : St) : Image :=
  { last := s.lastEntry, commit := s.commit, noopIdx := s.noopIdx,
    nP := s.propose.length, nL := s.linBuf.length, nS := s.leaseQ.length, nE := s.evQ.length,
    pcw := s.pcw.map fun e => (e.1, e.2.start, e.2.senders.length, e.2.wait, e.2.deadline - s.now),
    pwa := (s.pwa.map (·.1)),
    preads := s.preads.map fun e => (e.1, e.2.2.length, e.2.1 - s.now),
    pleases := s.pleases.map fun e => e.2 - s.now,
    pca := s.pca.map fun e => (e.1, e.2.2 == .noop, e.2.1 - s.now),
    log := s.log.map (·.kind), phase := s.phase, wantStepDown := s.wantStepDown }

def obsOf (s : St) (o : Out) : EvObs :=
  { out := o, commit := s.commit, applied := s.applied, leaseValid := s.leaseValid }

/-- run with observations -/
def runObs (c : Cfg) : St → List Ev → St × List EvObs
  | s, [] => (s, [])
  | s, e :: es =>
    let r1 := step c s e
    let r2 := runObs c r1.1 es
    (r2.1, obsOf r1.1 r1.2 :: r2.2)

def modelObs (c : Cfg) (pre : Nat) (evs : List Ev) : Obs :=
  let r := runObs c (init c pre) evs
  { evs := r.2, img := r.1.image }

/-! ### helpers over a case and an observation -/

/-- request id issued by each event (`none` if the event issues none), following the arrival counter. Events
    after a step-down / fatal issue nothing (they are ignored). -/
def issuedIds (leader : Bool) : List Ev → Nat → Bool → List (Option Nat)
  | [], _, _ => []
  | e :: es, n, dead =>
    if dead then none :: issuedIds leader es n dead
    else
      match e with
      | .write _ | .read _ | .scan => some n :: issuedIds leader es (n + 1) dead
      | .join _ => if leader then some n :: issuedIds leader es (n + 1) dead else none :: issuedIds leader es n dead
      | .stepDown | .fatalInbound | .fatalInternal => none :: issuedIds leader es n leader
      | _ => none :: issuedIds leader es n dead

/-- all (event number, id, response) triples of an observation -/
def allResps (o : Obs) : List (Nat × Nat × Resp) :=
  (o.evs.zipIdx.flatMap fun (e, i) => e.out.map fun r => (i, r.1, r.2))

def respsOf (o : Obs) (id : Nat) : List (Nat × Resp) :=
  (allResps o).filterMap fun t => if t.2.1 == id then some (t.1, t.2.2) else none

def ownIdx (log : List EntKind) (id : Nat) : Option Nat :=
  (log.zipIdx.find? fun (k, _) => match k with | .write i _ => i == id | _ => false).map (·.2 + 1)

/-- the state machine's outcome at 1-based index `i` when the log prefix is applied from the empty state -/
def resultAt (log : List EntKind) (i : Nat) : Bool :=
  let l : List LogEnt := log.map fun k => { term := 0, kind := k }
  match (applyRange l 0 0 i).2.getLast? with
  | some r => r.2
  | none => true

def Resp.isRejection : Resp → Bool
  | .exhausted | .emptyCmd | .notLeader => true
  | _ => false

def writeIds (evs : List Ev) (ids : List (Option Nat)) : List Nat :=
  (evs.zip ids).filterMap fun (e, i) => match e, i with | .write _, some n => some n | _, _ => none

def linReadIds (evs : List Ev) (ids : List (Option Nat)) : List Nat :=
  (evs.zip ids).filterMap fun (e, i) => match e, i with | .read 0, some n => some n | _, _ => none

def evAt (o : Obs) (i : Nat) : EvObs := o.evs.getD i default

/-! ### C29 -/

/-- C29 monitor: (1) no request answered twice; (2) writes issued = writes answered + writes pending in the
    final image; (3) `ok`/`casFail` only for an entry that is the request's own, committed, applied, and with
    exactly the state machine's outcome at that index. -/
def monC29 (c : Cfg) (evs : List Ev) (o : Obs) : Option String :=
  let ids := issuedIds c.leader evs 0 false
  let ws := writeIds evs ids
  let rs := allResps o
  if ws.any (fun w => (respsOf o w).length > 1) then some "write-answered-twice"
  else
    let answered := (ws.filter fun w => (respsOf o w).length == 1).length
    let pending := o.img.nP + (o.img.pcw.map (·.2.2.1)).sum + o.img.pwa.length
    if o.img.phase != .stepped && answered + pending != ws.length then some "write-lost-or-duplicated"
    else if o.img.phase == .stepped && answered != ws.length then some "write-unanswered-after-stepdown"
    else
      let bad := rs.find? fun (e, id, r) =>
        (r == .ok || r == .casFail) && ws.contains id &&
        match ownIdx o.img.log id with
        | none => true
        | some i => !(i ≤ (evAt o e).commit && i ≤ (evAt o e).applied && (r == .ok) == resultAt o.img.log i)
      match bad with
      | some (_, id, _) =>
        (match ownIdx o.img.log id with
         | none => some "success-without-own-entry"
         | some i =>
           let eo := evAt o ((rs.find? fun t => t.2.1 == id).map (·.1) |>.getD 0)
           if !(i ≤ eo.commit) then some "success-before-commit"
           else if !(i ≤ eo.applied) then some "success-before-apply"
           else some "wrong-apply-outcome")
      | none => none

/-! ### C14 -/

/-- C14 monitor: a write answered with a rejection is not in the log. -/
def monC14 (c : Cfg) (evs : List Ev) (o : Obs) : Option String :=
  let ids := issuedIds c.leader evs 0 false
  let ws := writeIds evs ids
  if ws.any fun w => (respsOf o w).any (fun r => r.2.isRejection) && (ownIdx o.img.log w).isSome
  then some "rejected-write-in-log" else none

/-! ### C30 -/

def Image.pendingCount (i : Image) : Nat :=
  i.nP + i.nL + i.nS + i.nE + (i.pcw.map (·.2.2.1)).sum + i.pwa.length + (i.preads.map (·.2.1)).sum +
  i.pleases.length + (i.pca.filter (fun e => !e.2.1)).length

/-- C30 monitor, judged at the end of the trace:
    * after a step-down nothing is pending and every issued request has an answer;
    * after a fatal error (the loop has exited, no tick will ever run) nothing may be pending;
    * while running: no deadline-carrying entry is at or past its deadline right after a tick. -/
def monC30 (c : Cfg) (evs : List Ev) (o : Obs) : Option String :=
  let ids := issuedIds c.leader evs 0 false
  let issued := ids.filterMap id
  match o.img.phase with
  | .stepped =>
    if o.img.pendingCount != 0 then some "stepdown-leaves-pending"
    else if issued.any fun i => (respsOf o i).isEmpty then some "stepdown-request-unanswered"
    else none
  | .halted =>
    if o.img.pendingCount != 0 then some "fatal-leaves-pending" else none
  | .running =>
    match evs.getLast? with
    | some (.tick _) =>
      if o.img.pcw.any (·.2.2.2.2 == 0) || o.img.preads.any (·.2.2 == 0) || o.img.pleases.any (· == 0) ||
         o.img.pca.any (·.2.2 == 0)
      then some "tick-leaves-expired" else none
    | _ => none

/-! ### C11 -/

/-- ghost: number of AppendEntries rounds started before event `i` (from the model run on the case) -/
def roundsBefore (c : Cfg) (pre : Nat) (evs : List Ev) (i : Nat) : Nat :=
  (runObs c (init c pre) (evs.take i)).1.rounds

/-- event number of the flush that takes request `id` out of the linearizable read buffer: the first `flush`
    after its push -/
def flushEventOf (evs : List Ev) (ids : List (Option Nat)) (id : Nat) : Option Nat :=
  match (ids.zipIdx.find? fun (x, _) => x == some id) with
  | none => none
  | some (_, p) => ((evs.zipIdx.drop (p + 1)).find? fun (e, _) => e == .flush).map (·.2)

/-- voters (peer ids) with a success ack processed in events (f, e] answering a round started at or after f -/
def freshVoters (c : Cfg) (evs : List Ev) (f e rb : Nat) : List Nat :=
  ((evs.zipIdx.filter fun (_, j) => f < j && j ≤ e).filterMap fun (ev, _) =>
    match ev with
    | .ack p _ r => if r > rb && p ≥ 2 && p ≤ c.voters then some p else none
    | _ => none).eraseDups

/-- the leadership clause for a read answered at event `e` that was accepted by the flush at event `f` -/
def leadershipOk (c : Cfg) (pre : Nat) (evs : List Ev) (o : Obs) (e f : Nat) : Bool :=
  c.single || (evAt o e).leaseValid ||
  decide ((freshVoters c evs f e (roundsBefore c pre evs f)).length + 1 ≥ c.voters / 2 + 1)

/-- judgement of one response (only values returned to linearizable reads on a leader are judged) -/
def judgeRead (c : Cfg) (pre : Nat) (evs : List Ev) (o : Obs) (t : Nat × Nat × Resp) : Option String :=
  let ids := issuedIds c.leader evs 0 false
  match t.2.2 with
  | .val _ a =>
    if !(linReadIds evs ids).contains t.2.1 || !c.leader then none
    else
      match flushEventOf evs ids t.2.1 with
      | none => some "read-answered-before-flush"
      | some f =>
        let pushEv := ((ids.zipIdx.find? fun (x, _) => x == some t.2.1).map (·.2)).getD 0
        let commitAtAccept := if f == 0 then pre else (evAt o (f - 1)).commit
        let ackedBefore := (allResps o).filter fun (e', id', r') =>
          e' < pushEv && (writeIds evs ids).contains id' && (r' == .ok || r' == .casFail)
        if a < commitAtAccept then some "read-misses-committed"
        else if ackedBefore.any fun (_, id', _) => match ownIdx o.img.log id' with | some i => a < i | none => false
        then some "read-misses-acknowledged-write"
        else if leadershipOk c pre evs o t.1 f then none
        else some "f11-read-served-without-fresh-quorum"
  | _ => none

/-- C11 monitor. For every linearizable read answered with a value at event `e` (accepted at flush `f`):
    (state) the applied index it was read at covers the commit index at accept time and the own index of every
    write answered `ok`/`casFail` before the read was pushed;
    (leadership) single voter, or lease valid when answered (C12's domain), or a majority of voters (self
    included) acknowledged a round that started after the read was accepted. -/
def monC11 (c : Cfg) (pre : Nat) (evs : List Ev) (o : Obs) : Option String :=
  ((allResps o).filterMap (judgeRead c pre evs o)).head?

end DEngine.ClientQ
