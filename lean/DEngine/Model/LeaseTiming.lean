import DEngine.Model.Lease
/-
  M-LEASE (cluster timing model, L3): what has to hold *between* nodes for a valid lease to exclude another
  leader. Real time is one natural-number clock (ms); all node clocks advance at the same rate, so offsets cancel:
  the lease deadline and the validity test both use the leader's clock, followers use their clocks only for
  durations (election timer).

  Voters are `0 .. n-1`; node 0 is the leader `L` under study, elected for term `T` (that election is not modelled).

  Events (any interleaving; messages can be lost — never delivered —, duplicated and reordered — delivery does not
  consume):
    tick d            time passes
    hb                L (still leader of T) starts a heartbeat round:  `last_heartbeat_send_ts = now`
                      (leader_state.rs execute_and_process_raft_rpc Phase 0)
    recvAE p s        follower p receives the round sent at s: if its term ≤ T it accepts, RESETS ITS ELECTION TIMER
                      (`handle_append_entries_request_workflow: self.reset_timer()`) and sends a success ack
    recvAck p s q     L processes p's ack of round s (`handle_append_result`); q = value of `quorum_confirmed`
                      (abstracted: any Boolean — F12 is exactly that the code's q says nothing about
                      freshness); on q the lease is renewed to `send_ts + lease`, send_ts = the single shared
                      `last_heartbeat_send_ts` (or `now` when that is 0)
    grant v c t       voter v grants its vote to candidate c for term t. v = c is the self vote at election start,
                      enabled only when c's election timer has expired (timeout ∈ [emin, emax), restarted at every
                      AE receipt — follower_state.rs tick / ElectionTimer). For v ≠ c the code has NO time condition
                      (election_handler.rs handle_vote_request: F29). v = 0 is L itself: it adopts the term, revokes
                      and steps down (leader_state.rs ReceiveVoteRequest branch).
    win c t           c has votes of a majority of the n voters for term t and becomes leader
    revoke            L revokes its lease (any immediate-revoke branch / become_follower)
  The hypotheses of the safety theorem are per-step guards (`Hyp`): H_sticky and H_freshRound.
-/
namespace DEngine.LeaseTiming
open DEngine.Lease

structure Params where
  n : Nat          -- number of voters
  T : Nat          -- L's term
  lease : Nat      -- lease_duration_ms
  emin : Nat       -- election_timeout_min
deriving Repr

structure Grant where
  voter : Nat
  cand : Nat
  term : Nat
  time : Nat
deriving Repr, DecidableEq

structure Win where
  node : Nat
  term : Nat
  time : Nat
deriving Repr, DecidableEq

structure TState where
  now : Nat
  term : Nat → Nat                 -- current term of every node (node 0 = L)
  lastAE : Nat → Option Nat        -- real time of the node's last accepted AppendEntries (election timer restart)
  lActive : Bool                   -- L still acts as leader
  lastSend : Nat                   -- `last_heartbeat_send_ts`
  deadline : Nat                   -- lease deadline on L (0 = revoked / never armed)
  sends : List Nat                 -- send times of L's heartbeat rounds
  acks : List (Nat × Nat)          -- success acks in flight: (follower, send time of the acknowledged round)
  fresh : List (Nat × Nat)         -- ghost: per follower, newest send time among its acks processed by L
  grants : List Grant              -- ghost history
  wins : List Win                  -- ghost history

inductive Ev where
  | tick (d : Nat)
  | hb
  | recvAE (p s : Nat)
  | recvAck (p s : Nat) (quorum : Bool)
  | grant (v c t : Nat)
  | win (c t : Nat)
  | revoke
deriving Repr, DecidableEq

def peers (n : Nat) : List Nat := (List.range n).filter (· != 0)

def hasGrant (grants : List Grant) (c t : Nat) (v : Nat) : Bool :=
  grants.any (fun g => g.voter == v && g.cand == c && g.term == t)

/-- election timer of node v has expired (or was never restarted by a leader contact) -/
def timerExpired (P : Params) (s : TState) (v : Nat) : Bool :=
  match s.lastAE v with
  | some r => decide (r + P.emin ≤ s.now)
  | none => true

def setAt {α : Type} (f : Nat → α) (i : Nat) (x : α) : Nat → α := fun j => if j = i then x else f j

/-- The step function of the model **as coded**; `none` = the event is not enabled in this state. -/
def step (P : Params) (s : TState) : Ev → Option TState
  | .tick d => some { s with now := s.now + d }
  | .hb =>
      if s.lActive && s.term 0 == P.T then
        some { s with lastSend := s.now, sends := s.now :: s.sends }
      else none
  | .recvAE p s' =>
      if p != 0 && decide (p < P.n) && s.sends.contains s' then
        if s.term p ≤ P.T then
          some { s with term := setAt s.term p P.T, lastAE := setAt s.lastAE p (some s.now),
                        acks := (p, s') :: s.acks }
        else some s
      else none
  | .recvAck p s' q =>
      if s.acks.contains (p, s') then
        if s.lActive && s.term 0 == P.T then
          let fresh := raiseFresh s.fresh p s'
          if q then
            let sendTs := if s.lastSend > 0 then s.lastSend else s.now
            some { s with fresh, deadline := sendTs + P.lease }
          else some { s with fresh }
        else some s
      else none
  | .grant v c t =>
      if decide (v < P.n) && decide (c < P.n) && c != 0 then
        if v == 0 then
          -- L receives a higher-term vote request: adopts the term, revokes, steps down, then votes
          if t > s.term 0 then
            some { s with term := setAt s.term 0 t, deadline := 0, lActive := false,
                          grants := ⟨0, c, t, s.now⟩ :: s.grants }
          else none
        else if t ≥ s.term v && (v != c || timerExpired P s v) then
          some { s with term := setAt s.term v t, grants := ⟨v, c, t, s.now⟩ :: s.grants }
        else none
      else none
  | .win c t =>
      if decide ((List.range P.n).countP (hasGrant s.grants c t) ≥ P.n / 2 + 1) then
        some { s with wins := ⟨c, t, s.now⟩ :: s.wins }
      else none
  | .revoke => some { s with deadline := 0 }

/-- **H_sticky** at one step: a voter grants its vote to *another* node only when its own election timer has
    expired, i.e. not within `emin` of its last accepted AppendEntries (Raft thesis §6.4.1 / §4.2.3). -/
def stickyOk (P : Params) (s : TState) : Ev → Bool
  | .grant v c _ => v == 0 || v == c || timerExpired P s v
  | _ => true

/-- **H_freshRound** at one step: a renewal's deadline is covered by a heartbeat round that a majority has
    acknowledged (`renewalFresh`, the same predicate the `lease` monitor evaluates on the real code). -/
def freshOk (P : Params) (s : TState) : Ev → Bool
  | .recvAck p s' q =>
      if q && s.lActive && s.term 0 == P.T && s.acks.contains (p, s') then
        let sendTs := if s.lastSend > 0 then s.lastSend else s.now
        renewalFresh (peers P.n) (P.n / 2) P.lease (raiseFresh s.fresh p s') (sendTs + P.lease)
      else true
  | _ => true

/-- run a schedule; `hyp` is the per-step hypothesis (use `fun _ _ => true` for the model as coded) -/
def runT (P : Params) (hyp : TState → Ev → Bool) : TState → List Ev → Option TState
  | s, [] => some s
  | s, e :: es =>
      if hyp s e then
        match step P s e with
        | some s' => runT P hyp s' es
        | none => none
      else none

def init (P : Params) : TState :=
  { now := 1, term := fun _ => P.T, lastAE := fun _ => none, lActive := true, lastSend := 0, deadline := 0,
    sends := [], acks := [], fresh := [], grants := [], wins := [] }

/-- the fast paths' test: the lease is valid at the current instant -/
def leaseValid (s : TState) : Bool := decide (s.now < s.deadline)

/-- another node has won an election of a higher term (by now) -/
def otherLeader (P : Params) (s : TState) : Bool := s.wins.any (fun w => decide (w.term > P.T))

end DEngine.LeaseTiming
