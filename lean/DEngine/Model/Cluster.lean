/-
  L3 cluster model (family `cluster`; properties C04, C05, C10, C32).  Core Lean only.

  A cluster is `NodeId → Node` + a bag of in-flight messages + ghost history.  Every definition mirrors the
  Rust code named beside it (d-engine-core/src unless another crate is named):

  * `moreRecent`                 lib.rs `is_target_log_more_recent`
  * `handleVoteRequest`          election/election_handler.rs `handle_vote_request` + the follower arm
                                 `ReceiveVoteRequest` of raft_role/follower_state.rs `handle_inbound_event`
                                 (response carries the term the follower had BEFORE the update)
  * `voteRequestLegal`           election_handler.rs `check_vote_request_is_legal` /
                                 `if_node_could_grant_the_vote_request` (candidate arm)
  * `onVoteRequest`              the three `ReceiveVoteRequest` arms (follower / candidate / leader) +
                                 raft.rs `handle_internal_event` `BecomeFollower` (+ `ReprocessEvent`)
  * `becomeFollower`             raft.rs `BecomeFollower`: `become_follower()?` then reset of a vote of an older term
                                 only (fix F1; a follower returns `InvalidTransition` before that)
  * `startElection` / `tally`    candidate_state.rs `tick`, election_handler.rs `broadcast_vote_requests`
  * `stepVoteEnd` (won)          raft.rs `BecomeLeader` (`update_voted_for` committed, `init_peers_next_index_and_
                                 match_index`: next = last+1, match 0) + leader_state.rs `initiate_noop_commit`
  * `buildAppendRequest`         replication/replication_handler.rs `retrieve_to_be_synced_logs_for_peers` (cap) +
                                 `build_append_request` (prev = next-1, contiguous run only — fix F6)
  * `replicate`                  `prepare_batch_requests` (+ `generate_new_entries`: leader appends at last+1) and
                                 leader_state.rs `execute_and_process_raft_rpc` phase 5 (speculative next_index,
                                 per-follower worker `run_replication_worker`: a task received while the stream is
                                 broken is dropped; a send into a torn-down stream fails, is lost, and raises
                                 PeerStreamError = next := match+1; either way the worker reconnects)
  * `checkAppendLegal`           replication_handler.rs `check_append_entries_request_is_legal` (virtual log rule)
  * `acceptEntries`              storage/buffered_raft_log.rs `filter_out_conflicts_and_append` (reset / prev
                                 mismatch / fast path `overlap_safe` / slow path)
  * `followerAppend`             raft_role/role_state.rs `handle_append_entries_request_workflow` +
                                 replication_handler.rs `handle_append_entries`, `if_update_commit_index_as_follower`
                                 (the state snapshot — term, commit — is taken BEFORE the term update)
  * `onAppendEntries`            the `AppendEntries` arms of follower / candidate / leader `handle_inbound_event`
  * `leaderCommit`               leader_state.rs `calculate_new_commit_index` (every voter counts, match 0 if it never
                                 acked — fix F30) + buffered_raft_log.rs `calculate_majority_matched_index`
                                 (element len/2 of the descending list own last ∪ voters' match; current-term check)
  * `onAppendResponse`           leader_state.rs `handle_append_result`, `update_peer_index`, `update_next_index`
                                 (floor match+1), `update_match_index` (monotone); replication_handler.rs
                                 `handle_success_response`, `handle_conflict_response`
  * `onStreamError`              raft_role/mod.rs `handle_peer_stream_error` (next := match+1)
  * `onLogFlushed`               leader_state.rs `handle_log_flushed` (multi-voter branch)
  * `crash` / `stop` / `start`   raft_role/mod.rs `SharedState::persist_hard_state_if_changed` (term and vote reach the
                                 meta store at every change — fix F2 — so a crash keeps them), raft.rs `Drop for Raft`,
                                 d-engine-server node/builder.rs (`FollowerState::new` from `load_hard_state`),
                                 buffered_raft_log.rs `new` (reload 1..=last_index), `SharedState::new` (term 1)
-/
namespace DEngine.Cluster

abbrev NodeId := Nat

structure Entry where
  index : Nat
  term : Nat
  payload : Nat          -- 0 = noop, k+1 = client command with tag k
deriving DecidableEq, Repr, Inhabited

abbrev Log := List Entry

-- ---------------------------------------------------------------------------------------- log queries
def lastIndex (l : Log) : Nat := match l.getLast? with | some e => e.index | none => 0
def lastTermOf (l : Log) : Nat := match l.getLast? with | some e => e.term | none => 0
def lastLogId (l : Log) : Option (Nat × Nat) := l.getLast?.map fun e => (e.index, e.term)
def entryAt (l : Log) (i : Nat) : Option Entry := l.find? (fun e => e.index == i)
def entryTerm (l : Log) (i : Nat) : Option Nat := (entryAt l i).map (·.term)
def firstIndexForTerm (l : Log) (t : Nat) : Option Nat := (l.find? (fun e => e.term == t)).map (·.index)
def lastIndexForTerm (l : Log) (t : Nat) : Option Nat := (l.reverse.find? (fun e => e.term == t)).map (·.index)
/-- `TermSegments.last_term_start`: first index of the trailing run of entries that carry the last term. -/
def lastTermStart (l : Log) : Nat :=
  match (l.reverse.takeWhile (fun e => e.term == lastTermOf l)).getLast? with
  | some e => e.index
  | none => 0

def moreRecent (myI myT tI tT : Nat) : Bool := tT > myT || (tT == myT && tI ≥ myI)

-- ---------------------------------------------------------------------------------------- follower accept
inductive AcceptPath | reset | prevMismatch | fastNoTail | fastAppend | slowNone | slowConflict | slowAppend
deriving DecidableEq, Repr

def AcceptPath.tag : AcceptPath → String
  | .reset => "acc:reset" | .prevMismatch => "acc:prev-mismatch" | .fastNoTail => "acc:fast-notail"
  | .fastAppend => "acc:fast-append" | .slowNone => "acc:slow-none" | .slowConflict => "acc:slow-conflict"
  | .slowAppend => "acc:slow-append"

def overlapSafe (l : Log) (overlap : Log) : Bool :=
  match overlap.head?, overlap.getLast? with
  | some f, some la => f.index ≥ lastTermStart l && f.term == lastTermOf l && la.term == lastTermOf l
  | _, _ => true

/-- `filter_out_conflicts_and_append`: new log, returned last-match id, path taken. -/
def acceptEntries (l : Log) (prevI prevT : Nat) (es : Log) : Log × Option (Nat × Nat) × AcceptPath :=
  if prevI == 0 && prevT == 0 then (es, lastLogId es, .reset)
  else if entryTerm l prevI != some prevT then (l, lastLogId l, .prevMismatch)
  else
    let last := lastIndex l
    let overlap := es.takeWhile (fun e => e.index ≤ last)
    let tail := es.dropWhile (fun e => e.index ≤ last)
    if overlapSafe l overlap then
      if tail.isEmpty then (l, lastLogId es, .fastNoTail) else (l ++ tail, lastLogId tail, .fastAppend)
    else
      match es.findIdx? (fun e => e.index > last || entryTerm l e.index != some e.term) with
      | none => (l, lastLogId es, .slowNone)
      | some pos =>
        let tl := es.drop pos
        let d := match tl.head? with | some e => e.index | none => 0
        if d ≤ last then (l.filter (fun e => e.index < d) ++ tl, lastLogId tl, .slowConflict)
        else (l ++ tl, lastLogId tl, .slowAppend)

-- ---------------------------------------------------------------------------------------- node state
structure Vote where
  id : Nat
  term : Nat
  committed : Bool
deriving DecidableEq, Repr

inductive Role | follower | candidate | leader
deriving DecidableEq, Repr

inductive StreamSt | closed | opened | broken | dead
deriving DecidableEq, Repr

/-- The leader's view of one peer: `next_index`, `match_index` (0 = absent from the map), replication stream. -/
structure Peer where
  id : NodeId
  next : Nat
  mtch : Nat
  st : StreamSt
  sid : Nat
deriving Repr

structure VoteReq where
  term : Nat
  cand : NodeId
  lastIdx : Nat
  lastTerm : Nat
deriving Repr

structure VoteResp where
  term : Nat
  granted : Bool
  lastIdx : Nat
  lastTerm : Nat
deriving Repr

/-- A candidate blocked inside `broadcast_vote_requests`. -/
structure Election where
  req : VoteReq
  delivered : List NodeId
  replies : List (NodeId × VoteResp)
  collected : List (NodeId × VoteResp)       -- responses that came back, in arrival order (voter id kept as ghost)
deriving Repr

structure Node where
  up : Bool := true
  term : Nat := 1
  vote : Option Vote := none
  role : Role := .follower
  log : Log := []
  commit : Nat := 0
  peers : List Peer := []
  election : Option Election := none
  durable : Nat := 0                              -- mirror of `durable_index` (only for `lf`)
  floor : Nat := 0                                -- store: highest index certainly written
  hard : Option (Nat × Option Vote) := none       -- meta store content: (term, vote), saved at every change (fix F2)
  pendingWrites : List (Nat × Nat) := []          -- leader: (log index, client tag) waiting for commit (`pending_client_writes`)
  pendingApply : List (Nat × Nat) := []           -- leader: committed, waiting for ApplyCompleted (`pending_write_apply`)
deriving Repr

def Node.blocked (n : Node) : Bool := n.election.isSome
def Node.ready (n : Node) : Bool := n.up && !n.blocked

inductive AeResult
  | success (last : Option (Nat × Nat))
  | conflict (t : Option Nat) (i : Option Nat)
  | higher (t : Nat)
deriving Repr

structure AeReq where
  term : Nat
  leader : NodeId
  prevI : Nat
  prevT : Nat
  entries : Log
  commit : Nat
deriving Repr

inductive Msg
  | ae (src dst sid : Nat) (req : AeReq) (reply : Bool)
  | resp (src dst sid term : Nat) (res : AeResult)
deriving Repr

-- ---------------------------------------------------------------------------------------- role changes
/-- raft.rs `BecomeFollower`: a follower fails `become_follower()?`; otherwise the role changes and a vote of an OLDER
    term is reset (fix F1: a vote cast in the current term survives the step-down). -/
def becomeFollower (n : Node) : Node :=
  if n.role == .follower then n
  else { n with role := .follower,
                vote := (match n.vote with | some v => if v.term < n.term then none else some v | none => none),
                peers := [], pendingWrites := [], pendingApply := [] }

-- ---------------------------------------------------------------------------------------- election
def lastPair (l : Log) : Nat × Nat := (lastLogId l).getD (0, 0)

/-- the grant decision of `handle_vote_request` -/
def voteDecision (n : Node) (r : VoteReq) : Bool × String :=
  let lp := lastPair n.log
  let voted := if r.term > n.term then none else n.vote
  if r.term < n.term then (false, "vote:stale-term")
  else if !(moreRecent lp.1 lp.2 r.lastIdx r.lastTerm) then (false, "vote:log-behind")
  else match voted with
    | some v => if v.term == r.term && v.id == r.cand then (true, "vote:regrant") else (false, "vote:already-voted")
    | none => (true, "vote:grant")

def handleVoteRequest (n : Node) (r : VoteReq) : Node × VoteResp × String :=
  let d := voteDecision n r
  let lp := lastPair n.log
  ({ n with term := if r.term > n.term then r.term else n.term,
            vote := if d.1 then some ⟨r.cand, r.term, false⟩ else n.vote },
   ⟨n.term, d.1, lp.1, lp.2⟩, d.2)

def couldGrant (r : VoteReq) (v : Vote) : Bool := v.id == 0 || v.term < r.term

def voteRequestLegal (n : Node) (r : VoteReq) : Bool :=
  let (li, lt) := lastPair n.log
  if n.term > r.term then false
  else if !(moreRecent li lt r.lastIdx r.lastTerm) then false
  else match n.vote with
    | some v => couldGrant r v
    | none => true

def denied (n : Node) : VoteResp :=
  let (li, lt) := lastPair n.log
  ⟨n.term, false, li, lt⟩

def onVoteRequest (n : Node) (r : VoteReq) : Node × VoteResp × String :=
  match n.role with
  | .follower => handleVoteRequest n r
  | .candidate =>
    if voteRequestLegal n r then handleVoteRequest (becomeFollower { n with term := r.term }) r
    else (n, denied n, "vote:cand-deny")
  | .leader =>
    if n.term < r.term then handleVoteRequest (becomeFollower { n with term := r.term }) r
    else (n, denied n, "vote:leader-deny")

/-- candidate_state.rs `tick`: term+1, reset vote, vote for itself, build the request. -/
def startElection (me : NodeId) (n : Node) : Node :=
  let t := n.term + 1
  let (li, lt) := lastPair n.log
  { n with term := t, vote := some ⟨me, t, false⟩,
           election := some { req := ⟨t, me, li, lt⟩, delivered := [], replies := [], collected := [] } }

inductive Tally | won | higherTerm (t : Nat) | logConflict | noQuorum
deriving Repr

/-- `broadcast_vote_requests` over the responses in arrival order (missing ones are RPC errors). -/
def tally (n : Nat) (req : VoteReq) : List VoteResp → Nat → Tally
  | [], succeed => if n - 1 != 0 && succeed > n / 2 then .won else .noQuorum
  | r :: rs, succeed =>
    if r.granted then tally n req rs (succeed + 1)
    else if req.term < r.term then .higherTerm r.term
    else if moreRecent req.lastIdx req.lastTerm r.lastIdx r.lastTerm then .logConflict
    else tally n req rs succeed

-- ---------------------------------------------------------------------------------------- replication (leader)
def contiguousFrom : Nat → Log → Log
  | _, [] => []
  | start, e :: es => if e.index == start then e :: contiguousFrom (start + 1) es else []

/-- `retrieve_to_be_synced_logs_for_peers` + `build_append_request` for one peer; `log` already holds `newEs`. -/
def buildAppendRequest (me : NodeId) (log : Log) (term commit lastBefore cap : Nat) (newEs : Log) (p : Peer) : AeReq :=
  let legacy :=
    if lastBefore ≥ p.next then
      let upTo := if lastBefore - p.next ≥ cap then p.next + cap - 1 else lastBefore
      log.filter (fun e => p.next ≤ e.index && e.index ≤ upTo)
    else []
  let prevI := p.next - 1
  let prevT := (entryTerm log prevI).getD 0
  { term := term, leader := me, prevI := prevI, prevT := prevT,
    entries := contiguousFrom (prevI + 1) (legacy ++ newEs), commit := commit }

/-- the entry a leader creates in this round (`generate_new_entries`: index = last+1, current term) -/
def newEntries (n : Node) (payload : Option Nat) : Log :=
  match payload with
  | some p => [⟨lastIndex n.log + 1, n.term, p⟩]
  | none => []

/-- One replication round of a leader: append the new entry (if any) at last+1, build one request per peer, advance
    `next_index` speculatively, hand the request to the peer's worker.  Returns the messages put on the wire. -/
def replicatePeers (me : NodeId) (log : Log) (term commit lastBefore cap : Nat) (newEs : Log) :
    List Peer → Nat → List Peer × List Msg × Nat
  | [], sid => ([], [], sid)
  | p :: ps, sid =>
    let req := buildAppendRequest me log term commit lastBefore cap newEs p
    let nx := max (req.prevI + req.entries.length + 1) (p.mtch + 1)
    let (p', out, sid') :=
      match p.st with
      | .opened => ({ p with next := nx }, [Msg.ae me p.id p.sid req true], sid)
      | .closed => ({ p with next := nx, st := .opened, sid := sid }, [Msg.ae me p.id sid req true], sid + 1)
      | .broken => ({ p with next := nx, st := .opened, sid := sid }, [], sid + 1)
      | .dead => ({ p with next := p.mtch + 1, st := .opened, sid := sid }, [], sid + 1)
    let (ps', outs, sid'') := replicatePeers me log term commit lastBefore cap newEs ps sid'
    (p' :: ps', out ++ outs, sid'')

def replicate (me : NodeId) (n : Node) (payload : Option Nat) (cap sid : Nat) : Node × List Msg × Nat :=
  let lastBefore := lastIndex n.log
  let newEs := newEntries n payload
  let log := n.log ++ newEs
  let (ps, out, sid') := replicatePeers me log n.term n.commit lastBefore cap newEs n.peers sid
  ({ n with log := log, peers := ps }, out, sid')

def initPeers (me n last : Nat) : List Peer :=
  ((List.range (n + 1)).filter (fun i => i != 0 && i != me)).map fun i => ⟨i, last + 1, 0, .closed, 0⟩

/-- insertion into a descending list (structural, so that kernel evaluation of witnesses reduces) -/
def insertDesc (x : Nat) : List Nat → List Nat
  | [] => [x]
  | y :: ys => if x ≥ y then x :: y :: ys else y :: insertDesc x ys

/-- `sort_unstable_by(|a, b| b.cmp(a))` -/
def sortDesc : List Nat → List Nat
  | [] => []
  | x :: xs => insertDesc x (sortDesc xs)

/-- `calculate_new_commit_index`: element len/2 of the descending list (own last ∪ every voter's match index). -/
def leaderCommit (n : Node) : Option Nat :=
  let ids := (n.peers.map (·.mtch)) ++ [lastIndex n.log]
  let sorted := sortDesc ids
  let maj := sorted.getD (sorted.length / 2) 0
  if maj < n.commit then none
  else if entryTerm n.log maj == some n.term then (if maj > n.commit then some maj else none)
  else none

/-- commit advance + `drain_pending_client_writes` (client writes wait for the apply: `wait_for_apply_event`) -/
def applyLeaderCommit (n : Node) : Node × String :=
  match leaderCommit n with
  | some c => ({ n with commit := c, pendingWrites := n.pendingWrites.filter (fun w => w.1 > c),
                        pendingApply := n.pendingApply ++ n.pendingWrites.filter (fun w => w.1 ≤ c) }, "commit:advance")
  | none => (n, "commit:none")

-- ---------------------------------------------------------------------------------------- follower side
def checkAppendLegal (myTerm : Nat) (l : Log) (r : AeReq) : AeResult :=
  if myTerm > r.term then .higher myTerm
  else if r.prevI == 0 && r.prevT == 0 then .success (lastLogId l)
  else match entryTerm l r.prevI with
    | some t =>
      if t == r.prevT then .success (some (r.prevI, r.prevT))
      else .conflict (some t) (some ((firstIndexForTerm l t).getD (r.prevI - 1)))
    | none => .conflict none (some (lastIndex l + 1))

/-- heartbeat (no entries): nothing changes, the ack carries what the request verified = (prev_index, prev_term)
    (fix c57f05e; before it: the follower's whole last log id); otherwise `filter_out_conflicts_and_append`. -/
def acceptOrKeep (log : Log) (r : AeReq) : Log × Option (Nat × Nat) × Option AcceptPath :=
  if r.entries.isEmpty then (log, if r.prevI > 0 then some (r.prevI, r.prevT) else none, none)
  else
    let a := acceptEntries log r.prevI r.prevT r.entries
    (a.1, a.2.1, some a.2.2)

/-- index of the first diverging entry in the slow path (`diverge_index`) -/
def divergeIndex (log es : Log) : Nat :=
  match (es.drop ((es.findIdx? (fun e => e.index > lastIndex log || entryTerm log e.index != some e.term)).getD 0)).head? with
  | some e => e.index
  | none => 0

/-- mirror of `durable_index` (reset: 0; conflict truncation: `fetch_min(diverge-1)`) -/
def durableAfter (n : Node) (path : Option AcceptPath) (r : AeReq) : Nat :=
  match path with
  | some .reset => 0
  | some .slowConflict => min n.durable (divergeIndex n.log r.entries - 1)
  | _ => n.durable

/-- store: highest index certainly written (reset and replace are awaited by the follower before it answers) -/
def floorAfter (n : Node) (path : Option AcceptPath) (log' : Log) : Nat :=
  match path with
  | some .reset => 0
  | some .slowConflict => lastIndex log'
  | _ => n.floor

/-- `if_update_commit_index_as_follower` after fix c57f05e: min(leader_commit, index of the last entry covered by this
    request), never lowered. -/
def followerCommit (commit : Nat) (r : AeReq) : Nat :=
  let c := min r.commit (r.prevI + r.entries.length)
  if r.commit > commit && c > commit then c else commit

/-- Follower workflow.  The response term and the commit comparison use the state snapshot taken on entry
    (`n.term`, `n.commit` — before the term update). -/
def followerAppend (n : Node) (r : AeReq) : Node × Nat × AeResult × String :=
  if n.term > r.term then (n, n.term, .higher n.term, "ae:stale-term")
  else
    let vote' := some (Vote.mk r.leader r.term true)
    let term' := if n.term < r.term then r.term else n.term
    match checkAppendLegal n.term n.log r with
    | .conflict t i => ({ n with vote := vote', term := term' }, n.term, .conflict t i, "ae:conflict")
    | .higher t => ({ n with vote := vote', term := term' }, n.term, .higher t, "ae:higher")
    | .success _ =>
      let a := acceptOrKeep n.log r
      ({ n with vote := vote', term := term', log := a.1,
                commit := followerCommit n.commit r,
                durable := durableAfter n a.2.2 r, floor := floorAfter n a.2.2 a.1 },
       n.term, .success a.2.1, match a.2.2 with | some p => p.tag | none => "ae:heartbeat")

def onAppendEntries (n : Node) (r : AeReq) : Node × Nat × AeResult × String :=
  match n.role with
  | .follower => followerAppend n r
  | .candidate =>
    if r.term ≥ n.term then followerAppend (becomeFollower { n with term := if r.term > n.term then r.term else n.term }) r
    else (n, n.term, .higher n.term, "ae:cand-reject")
  | .leader =>
    if n.term ≥ r.term then (n, n.term, .higher n.term, "ae:leader-reject")
    else followerAppend (becomeFollower { n with term := r.term }) r

-- ---------------------------------------------------------------------------------------- leader: responses
def updatePeer (ps : List Peer) (id : NodeId) (f : Peer → Peer) : List Peer :=
  ps.map fun p => if p.id == id then f p else p

def findPeer (ps : List Peer) (id : NodeId) : Option Peer := ps.find? (fun p => p.id == id)

def stepDown (n : Node) (t : Nat) : Node := becomeFollower { n with term := t }

def onAppendResponse (n : Node) (src respTerm : Nat) (res : AeResult) : Node × String :=
  if n.role != .leader then (n, "resp:not-leader")
  else if respTerm < n.term then (n, "resp:stale-term")
  else if respTerm > n.term then (stepDown n respTerm, "resp:higher-term")
  else match res with
    | .success last =>
      let m := (last.getD (0, 0)).1
      let ps := updatePeer n.peers src fun p =>
        { p with next := max (max (m + 1) p.next) (p.mtch + 1), mtch := if m > p.mtch then m else p.mtch }
      let (n', tag) := applyLeaderCommit { n with peers := ps }
      (n', "resp:success," ++ tag)
    | .conflict ct ci =>
      let ps := updatePeer n.peers src fun p =>
        let nx := match ct, ci with
          | some t, some i => (match lastIndexForTerm n.log t with | some li => li + 1 | none => i)
          | none, some i => i
          | _, _ => p.next - 1
        { p with next := max (max nx 1) (p.mtch + 1) }
      ({ n with peers := ps }, "resp:conflict")
    | .higher t => if t > n.term then (stepDown n t, "resp:higher-embedded") else (n, "resp:higher-ignored")

def onStreamError (n : Node) (p : NodeId) : Node :=
  { n with peers := updatePeer n.peers p fun q => { q with next := q.mtch + 1, st := .broken } }

def onLogFlushed (n : Node) : Node × String :=
  if n.role == .leader then applyLeaderCommit n else (n, "lf:non-leader")

-- ---------------------------------------------------------------------------------------- cluster
/-- Ghost record: entry (index, term) was created by the leader of `term` with this payload; `pred` is the term of
    the entry before it in the creator's log (0 for index 1). -/
structure GRec where
  index : Nat
  term : Nat
  payload : Nat
  pred : Nat
deriving DecidableEq, Repr

structure Cluster where
  n : Nat
  cap : Nat
  nodes : NodeId → Node
  msgs : List (Nat × Msg)
  nextMsg : Nat := 1
  nextSid : Nat := 1
  ghost : List GRec := []               -- entries ever created by a leader
  leaderTerms : List (Nat × NodeId) := []  -- (term, node) of every `BecomeLeader`, newest first
  commits : List (Nat × Log) := []         -- (leader term, committed prefix) whenever a leader's commit index advanced
  acked : List (Entry × Nat) := []         -- client writes answered with success: (entry, leader term), oldest first
  grants : List (NodeId × Nat × NodeId) := []  -- (voter, term, candidate) of every vote ever granted (incl. self votes)

def Cluster.init (n cap : Nat) : Cluster :=
  { n := n, cap := cap, nodes := fun _ => {}, msgs := [] }

def setNode (f : NodeId → Node) (i : NodeId) (x : Node) : NodeId → Node := fun j => if j = i then x else f j

def Cluster.valid (c : Cluster) (i : NodeId) : Bool := 1 ≤ i && i ≤ c.n

def number (start : Nat) : List Msg → List (Nat × Msg)
  | [] => []
  | m :: ms => (start, m) :: number (start + 1) ms

def addMsgs (c : Cluster) (ms : List Msg) : Cluster :=
  { c with msgs := c.msgs ++ number c.nextMsg ms, nextMsg := c.nextMsg + ms.length }

def findMsg (c : Cluster) (id : Nat) : Option Msg := (c.msgs.find? (fun x => x.1 == id)).map (·.2)
def removeMsg (c : Cluster) (id : Nat) : Cluster := { c with msgs := c.msgs.filter (fun x => x.1 != id) }

/-- ghost record for the entry a leader creates in this round -/
def ghostNew (n : Node) (payload : Option Nat) : List GRec :=
  match payload with
  | some p => [⟨lastIndex n.log + 1, n.term, p, lastTermOf n.log⟩]
  | none => []

inductive Event
  | tick (n : NodeId)
  | voteReq (c p : NodeId)
  | voteResp (c p : NodeId)
  | voteEnd (c : NodeId)
  | write (n : NodeId) (x : Nat)
  | deliverAe (m : Nat)
  | deliverResp (m : Nat)
  | drop (m : Nat)
  | dup (m : Nat)
  | streamErr (l p : NodeId)
  | streamClosed (l p : NodeId)
  | logFlushed (n : NodeId)
  | applyCompleted (n : NodeId) (i : Nat)
  | crash (n : NodeId) (k : Nat)
  | stop (n : NodeId)
  | start (n : NodeId)
  | nop
deriving Repr

/-- Leader round (noop at BecomeLeader, client write, heartbeat) with ghost bookkeeping. -/
def leaderRound (c : Cluster) (i : NodeId) (nd : Node) (payload : Option Nat) : Cluster :=
  let r := replicate i nd payload c.cap c.nextSid
  addMsgs { c with nodes := setNode c.nodes i r.1, nextSid := r.2.2, ghost := c.ghost ++ ghostNew nd payload } r.2.1

def stepTick (c : Cluster) (i : NodeId) : Cluster × List String :=
  let nd := c.nodes i
  if !(c.valid i && nd.ready) then (c, ["tick:disabled"])
  else match nd.role with
    | .follower => ({ c with nodes := setNode c.nodes i { nd with role := .candidate } }, ["tick:follower"])
    | .candidate =>
      if c.n == 1 then (c, ["tick:single"])
      else ({ c with nodes := setNode c.nodes i (startElection i nd), grants := (i, nd.term + 1, i) :: c.grants },
            ["tick:candidate"])
    | .leader => (leaderRound c i nd none, ["tick:leader"])

def stepVoteReq (c : Cluster) (cand p : NodeId) : Cluster × List String :=
  let cn := c.nodes cand
  let pn := c.nodes p
  match cn.election with
  | some el =>
    if !(c.valid cand && cn.up && c.valid p && pn.ready && cand != p && !el.delivered.contains p) then (c, ["vq:disabled"])
    else
      let (pn', resp, tag) := onVoteRequest pn el.req
      let el' := { el with delivered := p :: el.delivered, replies := el.replies ++ [(p, resp)] }
      let nodes := setNode (setNode c.nodes p pn') cand { cn with election := some el' }
      ({ c with nodes := nodes, grants := if resp.granted then (p, el.req.term, cand) :: c.grants else c.grants }, [tag])
  | none => (c, ["vq:disabled"])

def stepVoteResp (c : Cluster) (cand p : NodeId) : Cluster × List String :=
  let cn := c.nodes cand
  match cn.election with
  | some el =>
    match el.replies.find? (fun x => x.1 == p) with
    | some (_, r) =>
      if !(c.valid cand && cn.up) then (c, ["vr:disabled"])
      else
        let el' := { el with replies := el.replies.filter (fun x => x.1 != p), collected := el.collected ++ [(p, r)] }
        ({ c with nodes := setNode c.nodes cand { cn with election := some el' } }, ["vr:ok"])
    | none => (c, ["vr:disabled"])
  | none => (c, ["vr:disabled"])

/-- raft.rs `BecomeLeader`: role, committed self-vote, `init_peers_next_index_and_match_index` -/
def asLeader (me nNodes : Nat) (nd : Node) : Node :=
  { nd with election := none, role := .leader, vote := some ⟨me, nd.term, true⟩,
            peers := initPeers me nNodes (lastIndex nd.log) }

def stepVoteEnd (c : Cluster) (i : NodeId) : Cluster × List String :=
  let nd := c.nodes i
  match nd.election with
  | some el =>
    if !(c.valid i && nd.up) then (c, ["ve:disabled"])
    else
      let nd0 := { nd with election := none }
      match tally c.n el.req (el.collected.map (·.2)) 1 with
      | .won =>
        (leaderRound { c with leaderTerms := (nd.term, i) :: c.leaderTerms } i (asLeader i c.n nd) (some 0), ["ve:won"])
      | .higherTerm t => ({ c with nodes := setNode c.nodes i (becomeFollower { nd0 with term := t }) }, ["ve:higher-term"])
      | .logConflict => ({ c with nodes := setNode c.nodes i nd0 }, ["ve:log-conflict"])
      | .noQuorum => ({ c with nodes := setNode c.nodes i nd0 }, ["ve:no-quorum"])
  | none => (c, ["ve:disabled"])

def stepWrite (c : Cluster) (i : NodeId) (x : Nat) : Cluster × List String :=
  let nd := c.nodes i
  if !(c.valid i && nd.ready) then (c, ["w:disabled"])
  else if nd.role == .leader then
    let c1 := leaderRound c i nd (some (x + 1))
    let nd1 := c1.nodes i
    ({ c1 with nodes := setNode c1.nodes i { nd1 with pendingWrites := nd1.pendingWrites ++ [(lastIndex nd.log + 1, x)] } },
     ["w:leader"])
  else (c, ["w:not-leader"])

/-- is the replication stream `sid` from leader `l` to peer `p` still open at the leader? -/
def streamOpen (c : Cluster) (l p sid : Nat) : Bool :=
  let ln := c.nodes l
  ln.up && ln.role == .leader &&
    match findPeer ln.peers p with
    | some q => q.st == .opened && q.sid == sid
    | none => false

/-- ghost: remember what a leader's commit index covers whenever it advanced past `before` -/
def recordCommit (c : Cluster) (i : NodeId) (before : Nat) : Cluster :=
  if (c.nodes i).role == .leader && (c.nodes i).commit > before then
    { c with commits := ((c.nodes i).term, (c.nodes i).log.filter (fun e => e.index ≤ (c.nodes i).commit)) :: c.commits }
  else c

def stepDeliverAe (c : Cluster) (m : Nat) : Cluster × List String :=
  match findMsg c m with
  | some (.ae src dst sid req reply) =>
    let nd := c.nodes dst
    if !(c.valid dst && nd.ready) then (c, ["a:target-down"])
    else
      let c1 := removeMsg c m
      let (nd', rterm, res, tag) := onAppendEntries nd req
      let c2 := { c1 with nodes := setNode c1.nodes dst nd' }
      let c3 := if reply && streamOpen c2 src dst sid then addMsgs c2 [Msg.resp dst src sid rterm res] else c2
      (c3, [tag])
  | _ => (c, ["a:disabled"])

def stepDeliverResp (c : Cluster) (m : Nat) : Cluster × List String :=
  match findMsg c m with
  | some (.resp src dst sid rterm res) =>
    let c1 := removeMsg c m
    let nd := c1.nodes dst
    if !(c.valid dst && nd.ready) then (c1, ["r:target-down"])
    else if !(streamOpen c1 dst src sid) then (c1, ["r:stream-closed"])
    else
      let (nd', tag) := onAppendResponse nd src rterm res
      (recordCommit { c1 with nodes := setNode c1.nodes dst nd' } dst nd.commit, [tag])
  | _ => (c, ["r:disabled"])

def stepDup (c : Cluster) (m : Nat) : Cluster × List String :=
  match findMsg c m with
  | some (.ae src dst sid req reply) => (addMsgs c [Msg.ae src dst sid req reply], ["u:ok"])
  | _ => (c, ["u:disabled"])

def stepStreamErr (c : Cluster) (l p : NodeId) : Cluster × List String :=
  let ln := c.nodes l
  if !(c.valid l && ln.ready && ln.role == .leader) then (c, ["se:disabled"])
  else match findPeer ln.peers p with
    | some q =>
      if q.st != .opened then (c, ["se:disabled"])
      else
        let msgs := (c.msgs.filter fun x => match x.2 with
          | .resp _ _ sid _ _ => sid != q.sid
          | _ => true).map fun x => match x.2 with
          | .ae s d sid r _ => if sid == q.sid then (x.1, Msg.ae s d sid r false) else x
          | _ => x
        ({ c with msgs := msgs, nodes := setNode c.nodes l (onStreamError ln p) }, ["se:ok"])
    | none => (c, ["se:disabled"])

/-- the transport end of the request channel goes away; the leader notices at its next send -/
def stepStreamClosed (c : Cluster) (l p : NodeId) : Cluster × List String :=
  let ln := c.nodes l
  if !(c.valid l && ln.ready && ln.role == .leader) then (c, ["sc:disabled"])
  else match findPeer ln.peers p with
    | some q =>
      if q.st != .opened then (c, ["sc:disabled"])
      else
        let msgs := (c.msgs.filter fun x => match x.2 with
          | .resp _ _ sid _ _ => sid != q.sid
          | _ => true).map fun x => match x.2 with
          | .ae s d sid r _ => if sid == q.sid then (x.1, Msg.ae s d sid r false) else x
          | _ => x
        ({ c with msgs := msgs,
                  nodes := setNode c.nodes l { ln with peers := updatePeer ln.peers p fun q => { q with st := .dead } } },
         ["sc:ok"])
    | none => (c, ["sc:disabled"])

/-- `InternalEvent::ApplyCompleted { last_index = k, results = success for 1..=k }` (the harness plays the state machine
    worker; it only reports indexes that are committed at the node): the leader answers the waiting clients. -/
def stepApplyCompleted (c : Cluster) (i : NodeId) (k : Nat) : Cluster × List String :=
  let nd := c.nodes i
  if !(c.valid i && nd.ready && k ≤ nd.commit) then (c, ["ac:disabled"])
  else if nd.role == .leader then
    let done := nd.pendingApply.filter (fun w => w.1 ≤ k)
    ({ c with nodes := setNode c.nodes i { nd with pendingApply := nd.pendingApply.filter (fun w => w.1 > k) },
              acked := c.acked ++ done.map (fun w => (⟨w.1, nd.term, w.2 + 1⟩, nd.term)) },
     [if done.isEmpty then "ac:nothing" else "ac:acked"])
  else (c, ["ac:non-leader"])

def stepLogFlushed (c : Cluster) (i : NodeId) : Cluster × List String :=
  let nd := c.nodes i
  if !(c.valid i && nd.ready) then (c, ["lf:disabled"])
  else
    let last := lastIndex nd.log
    let nd1 := { nd with floor := last }
    if last > nd.durable then
      let (nd2, tag) := onLogFlushed { nd1 with durable := last }
      (recordCommit { c with nodes := setNode c.nodes i nd2 } i nd.commit, [tag])
    else ({ c with nodes := setNode c.nodes i nd1 }, ["lf:nothing-new"])

/-- crash: the store keeps what was written; the last `k` plain appends (above `floor`) may be missing; term and
    vote were saved when they last changed.  stop: everything written. -/
def downNode (nd : Node) (lose : Option Nat) : Node :=
  let last := lastIndex nd.log
  match lose with
  | some k =>
    let keep := last - min k (last - nd.floor)
    { nd with up := false, role := .follower, peers := [], election := none, commit := 0,
              log := nd.log.filter (fun e => e.index ≤ keep), floor := keep, durable := keep,
              hard := some (nd.term, nd.vote), pendingWrites := [], pendingApply := [] }
  | none =>
    { nd with up := false, role := .follower, peers := [], election := none, commit := 0,
              floor := last, durable := last, hard := some (nd.term, nd.vote), pendingWrites := [], pendingApply := [] }

def stepDown' (c : Cluster) (i : NodeId) (lose : Option Nat) : Cluster × List String :=
  let nd := c.nodes i
  if !(c.valid i && nd.up) then (c, ["down:disabled"])
  else if lose.isNone && nd.blocked then (c, ["down:disabled"])
  else ({ c with nodes := setNode c.nodes i (downNode nd lose) }, [if lose.isSome then "down:crash" else "down:stop"])

def stepStart (c : Cluster) (i : NodeId) : Cluster × List String :=
  let nd := c.nodes i
  if !(c.valid i && !nd.up) then (c, ["up:disabled"])
  else
    -- term and vote are in the meta store since their last change (`hard` = (term, vote) of the stopped node)
    ({ c with nodes := setNode c.nodes i { nd with up := true, role := .follower, pendingWrites := [], pendingApply := [] } },
     ["up:ok"])

def step (c : Cluster) : Event → Cluster × List String
  | .tick i => stepTick c i
  | .voteReq a b => stepVoteReq c a b
  | .voteResp a b => stepVoteResp c a b
  | .voteEnd a => stepVoteEnd c a
  | .write i x => stepWrite c i x
  | .deliverAe m => stepDeliverAe c m
  | .deliverResp m => stepDeliverResp c m
  | .drop m => (removeMsg c m, ["d"])
  | .dup m => stepDup c m
  | .streamErr l p => stepStreamErr c l p
  | .streamClosed l p => stepStreamClosed c l p
  | .logFlushed i => stepLogFlushed c i
  | .applyCompleted i k => stepApplyCompleted c i k
  | .crash i k => stepDown' c i (some k)
  | .stop i => stepDown' c i none
  | .start i => stepStart c i
  | .nop => (c, ["nop"])

def run (c : Cluster) (es : List Event) : Cluster := es.foldl (fun c e => (step c e).1) c

end DEngine.Cluster
