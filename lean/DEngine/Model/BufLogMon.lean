import DEngine.Model.Proto
import DEngine.Model.BufLog
/-!
  `buflog` family: case language, canonical printing of observations (same format as the harness), and the
  decidable monitors of C19 / C18 evaluated on the IMPLEMENTATION's output.
-/
namespace DEngine.BufLog
open DEngine.Proto

/-! ## case language -/

structure Case where
  sim : Bool
  ops : List Op
  /-- the real RocksDB store: reference semantics, no durable copy to look at, no power loss -/
  rocks : Bool := false
deriving Repr

def parseEntry (s : String) : Option Entry :=
  match s.splitOn "." with
  | [i, t, p] => do pure { index := ← i.toNat?, term := ← t.toNat?, payload := ← p.toNat? }
  | _ => none

def parseEntries (s : String) : Option (List Entry) :=
  if s == "-" || s.isEmpty then some [] else (s.splitOn ",").mapM parseEntry

def parsePair (s : String) : Option (Nat × Nat) :=
  match s.splitOn "." with
  | [a, b] => do pure (← a.toNat?, ← b.toNat?)
  | _ => none

def splitName (s : String) : String × String :=
  match s.splitOn ":" with
  | [] => ("", "")
  | n :: rest => (n, ":".intercalate rest)

def parseArm : Char → Option Arm
  | 'c' => some .cmd
  | 'n' => some .notify
  | 't' => some .timer
  | _ => none

/-- `[+]name[@xyz]`: `+` = clock advanced first, `@xyz` = a permutation of `c`,`n`,`t` -/
def parseHead (h : String) : Option (String × Sched) := do
  let (clock, h) := if h.startsWith "+" then (true, (h.drop 1).toString) else (false, h)
  match h.splitOn "@" with
  | [name] => pure (name, { clock := clock })
  | [name, perm] =>
    let arms ← perm.toList.mapM parseArm
    if arms.length == 3 && arms.eraseDups.length == 3 then pure (name, { clock := clock, prio := arms }) else none
  | _ => none

def parseOp (s : String) : Option Op := do
  let (head, rest) := splitName s
  let (name, sch) ← parseHead head
  let plain := sch == ({} : Sched)
  match name with
  | "a" => if plain then (parseEntries rest).map Op.append else none
  | "f" =>
    let (pv, es) := splitName rest
    let (pi, pt) ← parsePair pv
    let es ← parseEntries es
    pure (Op.fca pi pt es sch)
  | "p" => (parsePair rest).map fun (i, t) => Op.purge i t sch
  | "r" => if rest.isEmpty then some (Op.reset sch) else none
  | "fl" => if rest.isEmpty then some (Op.flush sch) else none
  | "al" => if plain then rest.toNat?.map Op.alloc else none
  | "g" => if plain then (parsePair rest).bind fun (a, b) => if b - a > 100000 then none else some (Op.get a b) else none
  | "io" => if rest.isEmpty then some (Op.io sch) else none
  | "close" => if rest.isEmpty then some (Op.close sch) else none
  | "c" => if plain && rest == "p" then some (Op.crash false) else if plain && rest == "w" then some (Op.crash true) else none
  | _ => none

def parseCase (line : String) : Option Case :=
  match line.splitOn "|" with
  | [head, body] =>
    let eng? := if head == "e=sim" then some (true, false) else if head == "e=file" then some (false, false)
      else if head == "e=rocks" then some (false, true) else none
    do let (sim, rocks) ← eng?
       let ops ← if body.isEmpty then some [] else (body.splitOn ";").mapM parseOp
       if !sim && ops.any (fun o => o == Op.crash true) then none
       pure { sim := sim, ops := ops, rocks := rocks }
  | _ => none

/-! ## printing -/

def showEntry (e : Entry) : String := s!"{e.index}.{e.term}.{e.payload}"
def showEntries (es : List Entry) : String := if es.isEmpty then "-" else ",".intercalate (es.map showEntry)
def showOptNat : Option Nat → String | some n => toString n | none => "-"
def showOptPair : Option (Nat × Nat) → String | some (a, b) => s!"{a}.{b}" | none => "-"

def gridIdx : Nat := 10
def gridTerm : Nat := 5
def dumpMax : Nat := 200

/-- what a snapshot of the log observes (the harness prints exactly these, from the real log) -/
structure Snap where
  lastLogId : Option (Nat × Nat)
  first : Nat
  last : Nat
  durable : Nat
  isEmpty : Bool
  lastEntry : Option Entry
  terms : List (Option Nat)        -- entry_term 0..=10
  firstOf : List (Option Nat)      -- first_index_for_term 0..=5
  lastOf : List (Option Nat)       -- last_index_for_term 0..=5
  ents : List Entry                -- get_entries_range(0..=200)
  vol : List Entry                 -- store, volatile copy
  dur : Option (List Entry)        -- store, durable copy (unknown for the file engine)
  boundary : Option (Nat × Nat)
deriving Repr, DecidableEq

def Buf.snap (b : Buf) (st : Store) (sim : Bool) : Snap :=
  { lastLogId := b.lastLogId, first := b.minIdx, last := b.maxIdx, durable := b.durable, isEmpty := b.isEmpty,
    lastEntry := b.lastEntry,
    terms := (List.range (gridIdx + 1)).map b.entryTerm,
    firstOf := (List.range (gridTerm + 1)).map b.firstIdxForTerm,
    lastOf := (List.range (gridTerm + 1)).map b.lastIdxForTerm,
    ents := b.getRange 0 dumpMax, vol := st.v.ents, dur := if sim then some st.d.ents else none,
    boundary := st.v.boundary }

def Snap.show (o : Snap) : String :=
  let grid (l : List (Option Nat)) := ",".intercalate (l.map showOptNat)
  s!"L={showOptPair o.lastLogId} F={o.first} M={o.last} D={o.durable} X={if o.isEmpty then 1 else 0} " ++
  s!"K={match o.lastEntry with | some e => showEntry e | none => "-"} T={grid o.terms} A={grid o.firstOf} " ++
  s!"Z={grid o.lastOf} E={showEntries o.ents} S={showEntries o.vol} " ++
  s!"U={match o.dur with | some d => showEntries d | none => "?"} B={showOptPair o.boundary}"

def showSnap (sim : Bool) (s : Sys) : String := (s.buf.snap s.store sim).show

def showRes : Res → String
  | .ok => "ok"
  | .err => "err"
  | .fcaRes r => "r=" ++ showOptPair r
  | .range none => "-"
  | .range (some (a, b)) => s!"{a}-{b}"
  | .ents es => "g=" ++ showEntries es

/-! ## parsing the implementation's output back -/

def parseOptNat (s : String) : Option (Option Nat) := if s == "-" then some none else s.toNat?.map some
def parseOptPair (s : String) : Option (Option (Nat × Nat)) := if s == "-" then some none else (parsePair s).map some
def parseGrid (s : String) : Option (List (Option Nat)) := (s.splitOn ",").mapM parseOptNat

def parseSnap (fs : List (String × String)) : Option Snap := do
  let g (k : String) := DEngine.Proto.lookup fs k
  pure {
    lastLogId := ← parseOptPair (← g "L"), first := ← (← g "F").toNat?, last := ← (← g "M").toNat?,
    durable := ← (← g "D").toNat?, isEmpty := (← g "X") == "1",
    lastEntry := ← (let k := (← g "K"); if k == "-" then some none else (parseEntry k).map some),
    terms := ← parseGrid (← g "T"), firstOf := ← parseGrid (← g "A"), lastOf := ← parseGrid (← g "Z"),
    ents := ← parseEntries (← g "E"), vol := ← parseEntries (← g "S"),
    dur := ← (let u := (← g "U"); if u == "?" then some none else (parseEntries u).map some),
    boundary := ← parseOptPair (← g "B") }

/-- one record of the output: the result token and the snapshot -/
def parseRecord (r : String) : Option (String × Snap) :=
  match r.splitOn " " with
  | res :: rest => (parseSnap (fields (" ".intercalate rest))).map (res, ·)
  | [] => none

def parseOutput (out : String) : Option (List (String × Snap)) :=
  if out.isEmpty then some [] else (out.splitOn ";").mapM parseRecord

/-! ## C19 monitor: the observations of the log equal those of the plain log -/

/-- the observations a plain log gives for the same queries -/
def Plain.snapLike (p : Plain) (o : Snap) : Snap :=
  { o with
    lastLogId := p.lastLogId, first := p.first, last := p.last, isEmpty := p.ents.isEmpty,
    lastEntry := p.ents.getLast?,
    terms := (List.range (gridIdx + 1)).map p.termAt,
    firstOf := (List.range (gridTerm + 1)).map p.firstIdxForTerm,
    lastOf := (List.range (gridTerm + 1)).map p.lastIdxForTerm,
    ents := p.getRange 0 dumpMax }

/-- name of the first observation in which the snapshot differs from the plain log (`none` = agree) -/
def obsDiff (p : Plain) (o : Snap) : Option String :=
  if o.lastLogId != p.lastLogId then some "c19-last-log-id"
  else if o.first != p.first || o.last != p.last then some "c19-first-last-id"
  else if o.terms != (List.range (gridIdx + 1)).map p.termAt then some "c19-entry-term"
  else if o.firstOf != (List.range (gridTerm + 1)).map p.firstIdxForTerm then some "c19-first-index-for-term"
  else if o.lastOf != (List.range (gridTerm + 1)).map p.lastIdxForTerm then some "c19-last-index-for-term"
  else if o.ents != p.getRange 0 dumpMax then some "c19-entries-range"
  else if o.isEmpty != p.ents.isEmpty || o.lastEntry != p.ents.getLast? then some "c19-last-entry"
  else none

/-- walk the well-formed prefix of the case; compare every record of the implementation with the plain log -/
def c19Walk : Plain → List Op → List (String × Snap) → Nat → Option String × Nat
  | _, [], _, n => (none, n)
  | _, _, [], n => (none, n)
  | p, op :: ops, (res, o) :: recs, n =>
    if !wfOp p op then (none, n)
    else
      let (p', r) := p.exec op
      let resOk := match op with
        | .fca .. => res == showRes r
        | .get .. => res == showRes r
        | _ => true
      if !resOk then (some "c19-op-result", n + 1)
      else match obsDiff p' o with
        | some sig => (some sig, n + 1)
        | none => c19Walk p' ops recs (n + 1)

def monitorC19 (c : Case) (out : String) : String :=
  if out == "panic" || out == "sched-fail" || out == "bad-case" then
    -- a panic of the real log on a well-formed stream is a failure of the property
    (if out == "panic" && wfRun {} c.ops then "bad c19-panic" else "skip")
  else match parseOutput out with
    | none => "bad c19-unparsable-output"
    | some recs =>
      match c19Walk {} c.ops recs 0 with
      | (some sig, _) => "bad " ++ sig
      | (none, 0) => "skip"
      | (none, _) => "ok"

/-! ## C18 monitor: what `new` reloads after a crash -/

/-- consecutive indexes -/
def gapFree : List Entry → Bool
  | [] => true
  | e :: es => contigFrom (e.index + 1) es

/-- every entry of `live` at or below `d` is in `rec` with identical content -/
def durableKept (live : List Entry) (d : Nat) (rec : List Entry) : Bool :=
  live.all fun e => d < e.index || rec.contains e

/-- `rec` is a run of consecutive entries of `h` (or empty) -/
def isSegmentOf (rec h : List Entry) : Bool :=
  match rec with
  | [] => true
  | e :: _ => (h.dropWhile (fun x => x != e)).take rec.length == rec

/-- the reloaded log is a segment of the log as it was at some earlier moment: it never mixes entries that never
    coexisted, so an entry that a truncation replaced cannot reappear next to its replacement -/
def noResurrection (hist : List (List Entry)) (rec : List Entry) : Bool := hist.any (isSegmentOf rec)

/-- The three clauses of C18 for one crash. `vol`/`dur` (the store's two copies just before the crash) only refine
    the name of a `durableKept` failure: was the lost entry ever written, or written but not fsynced. -/
def recoveredOk (hist : List (List Entry)) (live : List Entry) (d : Nat) (rec : List Entry)
    (vol : List Entry) (dur : Option (List Entry)) : Option String :=
  if !gapFree rec then some "c18-gap"
  else if !durableKept live d rec then
    (if !durableKept live d vol then some "c18-durable-never-written"
     else match dur with
       | some du => if !durableKept live d du then some "c18-durable-not-synced" else some "c18-durable-entry-lost"
       | none => some "c18-durable-entry-lost")
  else if !noResurrection hist rec then some "c18-resurrected-entry"
  else none

/-- For the crash property it is enough that the log stays gap-free: besides the well-formed operations, a
    from-scratch request (`prev = (0,0)`) may restart the log at any index ≥ 1, also below the purge boundary
    (a leader that lost track of this follower resends from index 1). -/
def wfOpCrash (p : Plain) (op : Op) : Bool :=
  wfOp p op ||
  (match op with
   | .fca 0 0 (e :: es) _ => decide (0 < e.index) && contigFrom e.index (e :: es) && termsPos (e :: es)
   | _ => false)

/-- walk the case; `p` tracks well-formedness (resynchronised after each reopen), `hist` the logs seen so far -/
def c18Walk : Plain → List (List Entry) → Snap → List Op → List (String × Snap) → Nat → Option String × Nat
  | _, _, _, [], _, n => (none, n)
  | _, _, _, _, [], n => (none, n)
  | p, hist, pre, op :: ops, (_, o) :: recs, n =>
    match op with
    | .crash _ =>
      (match recoveredOk hist pre.ents pre.durable o.ents pre.vol pre.dur with
       | some sig => (some sig, n + 1)
       | none =>
         let (ai, aT) := match o.boundary with | some x => x | none => (0, 0)
         c18Walk { anchorI := ai, anchorT := aT, ents := o.ents } (o.ents :: hist) o ops recs (n + 1))
    | .close _ => c18Walk p (o.ents :: hist) o ops recs n
    | _ =>
      if !wfOpCrash p op then (none, n)
      else c18Walk (p.exec op).1 (o.ents :: hist) o ops recs n

def emptySnap : Snap :=
  { lastLogId := none, first := 0, last := 0, durable := 0, isEmpty := true, lastEntry := none, terms := [],
    firstOf := [], lastOf := [], ents := [], vol := [], dur := some [], boundary := none }

/-- does the operation force a `select!` race: an arm order other than "command first", or a timer tick made
    due while the operation waits for the IO loop? -/
def Sched.racy (f : Sched) : Bool := f.prio.head? != some Arm.cmd || f.clock

def Op.racy : Op → Bool
  | .fca _ _ _ f => f.racy
  | .purge _ _ f => f.racy
  | .reset f => f.racy
  | .flush f => f.racy
  | .close f => f.racy
  | _ => false

def monitorC18 (c : Case) (out : String) : String :=
  if out == "panic" || out == "sched-fail" || out == "bad-case" then "skip"
  else match parseOutput out with
    | none => "bad c18-unparsable-output"
    | some recs =>
      match c18Walk {} [[]] emptySnap c.ops recs 0 with
      | (some sig, _) =>
        -- a failure in a case that forces a select! race (an arm other than the command arm first, or a timer
        -- tick due while an operation waits) goes under one name; otherwise the engine is part of the name
        if c.ops.any Op.racy then "bad c18-io-race"
        else "bad " ++ sig ++ (if c.sim then "" else if c.rocks then "-rocksdb" else "-filestore")
      | (none, 0) => "skip"
      | (none, _) => "ok"

end DEngine.BufLog
