/-
  M-MEMB: model of the cluster-membership view and its change rules.

  Models (code as it is):
  * d-engine-server/src/membership/raft_membership.rs
      `RaftMembership::{members, voters, replication_peers, contains_node, get_node_status,
       add_learner, remove_node, apply_config_change, can_rejoin, new}`
      (`MembershipGuard::blocking_write` clones the state, runs the closure and stores the clone
       *whatever the closure returned* — a failing `BatchPromote` keeps its partial updates).
  * d-engine-core/src/membership.rs `is_single_node_cluster` (= initial size 1), `ensure_safe_join`
  * d-engine-core/src/raft_role/leader_state.rs `calculate_safe_batch_size`, `is_learner_caught_up`,
      `handle_promote_ready_learners` (batch choice), `handle_join_cluster` (validation part)
  * d-engine-core/src/raft_role/learner_state.rs vote request handling / tick / membership applied
  * d-engine-core/src/commit_handler/default_commit_handler.rs `process_batch` config handling
  * d-engine-server/src/node/builder.rs `build`: membership := `initial_cluster`

  Proto enum values: NodeRole Follower=1 Candidate=2 Leader=3 Learner=4;
  NodeStatus Unspecified=0 Promotable=1 ReadOnly=2 Active=3.
-/
namespace DEngine.Memb

def rFollower : Nat := 1
def rLearner : Nat := 4
def sUnspecified : Nat := 0
def sPromotable : Nat := 1
def sReadOnly : Nat := 2
def sActive : Nat := 3

structure Node where
  id : Nat
  role : Nat
  status : Nat
deriving DecidableEq, Repr, Inhabited

/-- `InnerState.nodes` (a map keyed by id; modelled as a list with unique ids, order irrelevant:
    every observation is printed sorted by id) and `cluster_conf_version`. -/
structure View where
  nodes : List Node
  ver : Nat := 0
deriving DecidableEq, Repr, Inhabited

inductive Change where
  | add (id status : Nat)              -- AddNode{node_id, status} (address not modelled)
  | remove (id : Nat)                  -- RemoveNode
  | promote (id : Nat)                 -- Promote
  | batchPromote (ids : List Nat) (newStatus : Nat)
  | batchRemove (ids : List Nat)
  | nil                                -- MembershipChange{change: None}
deriving DecidableEq, Repr, Inhabited

inductive Err where
  | exists_ | noNode
deriving DecidableEq, Repr

def Err.tag : Err → String
  | .exists_ => "exists"
  | .noNode => "no-node"

def find? (ns : List Node) (id : Nat) : Option Node := ns.find? (·.id == id)
def contains (ns : List Node) (id : Nat) : Bool := ns.any (·.id == id)
def erase (ns : List Node) (id : Nat) : List Node := ns.filter (·.id != id)
def update (ns : List Node) (id : Nat) (f : Node → Node) : List Node :=
  ns.map fun n => if n.id == id then f n else n

/-- `NodeStatus::try_from(v).unwrap_or(dflt)` — 0..3 are valid enum values. -/
def statusOr (v dflt : Nat) : Nat := if v ≤ 3 then v else dflt

/-- `voters()`: every *other* node whose status is Active (role is not looked at). -/
def voters (self : Nat) (ns : List Node) : List Node :=
  ns.filter fun n => n.id != self && n.status == sActive

/-- `replication_peers()`: every other node with status Active / Promotable / ReadOnly. -/
def replicationPeers (self : Nat) (ns : List Node) : List Node :=
  ns.filter fun n => n.id != self && (n.status == sActive || n.status == sPromotable || n.status == sReadOnly)

/-- `add_learner` -/
def addLearner (v : View) (id status : Nat) : View × Option Err × String :=
  match find? v.nodes id with
  | some e =>
    if e.role == rLearner then (v, none, "add:idempotent")
    else (v, some .exists_, "add:exists")
  | none => ({ v with nodes := v.nodes ++ [{ id := id, role := rLearner, status := status }] }, none, "add:new")

/-- sequential `BatchPromote` loop; stops at the first missing node, keeps what was done. -/
def batchPromoteLoop (ns : List Node) (st : Nat) : List Nat → List Node × Option Err
  | [] => (ns, none)
  | id :: rest =>
    if contains ns id then
      batchPromoteLoop (update ns id fun n => { n with role := rFollower, status := st }) st rest
    else (ns, some .noNode)

/-- `RaftMembership::apply_config_change`; returns the new view, the error (if any) and a branch tag. -/
def applyChange (v : View) : Change → View × Option Err × String
  | .add id status => addLearner v id (statusOr status sPromotable)
  | .remove id => ({ nodes := erase v.nodes id, ver := v.ver + 1 }, none, "remove")
  | .promote id =>
    if contains v.nodes id then
      ({ v with nodes := update v.nodes id fun n => { n with role := rFollower, status := sActive } }, none, "promote")
    else (v, some .noNode, "promote:no-node")
  | .batchPromote ids st =>
    let r := batchPromoteLoop v.nodes (statusOr st sActive) ids
    ({ v with nodes := r.1 }, r.2, if r.2.isSome then "bp:no-node" else "bp")
  | .batchRemove ids => ({ nodes := ids.foldl erase v.nodes, ver := v.ver + 1 }, none, "batch-remove")
  | .nil => (v, none, "nil")

def applyView (v : View) (c : Change) : View := (applyChange v c).1

/-- `calculate_safe_batch_size(current, available)` -/
def safeBatchSize (current available : Nat) : Nat :=
  if (current + available) % 2 == 1 then available else available - 1

/-- `ensure_safe_join(_, current_voters)`: Ok iff `(current_voters + 1 + 1) % 2 == 0`. -/
def ensureSafeJoin (currentVoters : Nat) : Bool := (currentVoters + 1 + 1) % 2 == 0

/-- `is_learner_caught_up(match, commit, threshold)` -/
def caughtUp (m : Option Nat) (commit threshold : Nat) : Bool := commit - m.getD 0 ≤ threshold

/-- `can_rejoin(id, role)`: 0 = ok, else error tag. -/
def canRejoin (v : View) (id role : Nat) : Option String :=
  if role != rLearner then some "not-learner"
  else if !contains v.nodes id then none
  else some "exists"

/-- Validation part of `handle_join_cluster`: `none` = the AddNode entry is proposed. -/
def joinCheck (v : View) (id role : Nat) : Option String :=
  if contains v.nodes id then some "exists"
  else match canRejoin v id role with
    | some _ => some "join-error"
    | none => none

/-- The batch the leader proposes in `handle_promote_ready_learners` (stale cleanup aside):
    the first `safeBatchSize (voters+1) pending.length` ids of the FIFO queue. -/
def promoteBatch (self : Nat) (v : View) (pending : List Nat) : List Nat :=
  pending.take (safeBatchSize ((voters self v.nodes).length + 1) pending.length)

/-! ### Commit-time application and restart -/

/-- An entry of the replicated log as far as membership is concerned. -/
inductive LogEntry where
  | cmd
  | conf (c : Change)
deriving DecidableEq, Repr, Inhabited

/-- `DefaultCommitHandler::process_batch` over one batch of newly committed entries: config entries
    are applied in log order; after the first failing one the remaining config entries of the *same
    batch* are skipped (`last_error.is_none() && …`). -/
def applyBatch (v : View) : List LogEntry → Bool → View
  | [], _ => v
  | .cmd :: rest, failed => applyBatch v rest failed
  | .conf c :: rest, failed =>
    if failed then applyBatch v rest true
    else
      let r := applyChange v c
      applyBatch r.1 rest r.2.1.isSome

/-- fold of the config entries, every one applied (the reference for C28). -/
def foldConf (v : View) (es : List LogEntry) : View :=
  es.foldl (fun acc e => match e with | .cmd => acc | .conf c => applyView acc c) v

/-- `NodeBuilder::build`: membership is rebuilt from `initial_cluster`; applied entries are not
    replayed (`DefaultStateMachineHandler::new(last_applied)`, commit index := last applied). -/
def restartView (initial : List Node) : View := { nodes := initial, ver := 0 }

def sortNodes (ns : List Node) : List Node := ns.mergeSort fun a b => a.id ≤ b.id

def roleCh (r : Nat) : String :=
  if r == 1 then "f" else if r == 2 then "c" else if r == 3 then "L" else if r == 4 then "l" else "u"
def statusCh (s : Nat) : String :=
  if s == 3 then "a" else if s == 1 then "p" else if s == 2 then "r" else "u"

def showNodes (ns : List Node) : String :=
  if ns.isEmpty then "-" else
  ",".intercalate ((sortNodes ns).map fun n => s!"{n.id}:{roleCh n.role}:{statusCh n.status}")

end DEngine.Memb
