/-
  M-MEMB: model of the cluster-membership view and its change rules.

  Models (code as it is):
  * d-engine-server/src/membership/raft_membership.rs
      `RaftMembership::{members, voters, replication_peers, contains_node, get_node_status,
       add_learner, remove_node, apply_config_change, can_rejoin, new}`
      (`MembershipGuard::blocking_write` clones the state, runs the closure and stores the clone
       *whatever the closure returned* — a failing `BatchPromote` keeps its partial updates).
  * d-engine-core/src/membership.rs `is_single_node_cluster` (initial size 1 and no other voter), `ensure_safe_join`
  * d-engine-core/src/raft_role/leader_state.rs `calculate_safe_batch_size`, `is_learner_caught_up`,
      `handle_promote_ready_learners` (batch choice), `handle_join_cluster` (validation part)
  * d-engine-core/src/raft_role/learner_state.rs vote request handling / tick / membership applied
  * d-engine-core/src/commit_handler/default_commit_handler.rs `process_batch` config handling
  * d-engine-server/src/node/builder.rs `build`: membership := `initial_cluster`

  Proto enum values: NodeRole Follower=1 Candidate=2 Leader=3 Learner=4;
  NodeStatus Unspecified=0 Promotable=1 ReadOnly=2 Active=3.
-/
namespace DEngine.Memb

def rFollower : Nat := 1
def rLearner : Nat := 4
def sUnspecified : Nat := 0
def sPromotable : Nat := 1
def sReadOnly : Nat := 2
def sActive : Nat := 3

structure Node where
  id : Nat
  role : Nat
  status : Nat
deriving DecidableEq, Repr, Inhabited

/-- `InnerState.nodes` (a map keyed by id; modelled as a list with unique ids, order irrelevant:
    every observation is printed sorted by id) and `cluster_conf_version`. -/
structure View where
  nodes : List Node
  ver : Nat := 0
deriving DecidableEq, Repr, Inhabited

inductive Change where
  | add (id status : Nat)              -- AddNode{node_id, status} (address not modelled)
  | remove (id : Nat)                  -- RemoveNode
  | promote (id : Nat)                 -- Promote
  | batchPromote (ids : List Nat) (newStatus : Nat)
  | batchRemove (ids : List Nat)
  | nil                                -- MembershipChange{change: None}
deriving DecidableEq, Repr, Inhabited

inductive Err where
  | exists_ | noNode
deriving DecidableEq, Repr

def Err.tag : Err → String
  | .exists_ => "exists"
  | .noNode => "no-node"

def find? (ns : List Node) (id : Nat) : Option Node := ns.find? (·.id == id)
def contains (ns : List Node) (id : Nat) : Bool := ns.any (·.id == id)
def erase (ns : List Node) (id : Nat) : List Node := ns.filter (·.id != id)
def update (ns : List Node) (id : Nat) (f : Node → Node) : List Node :=
  ns.map fun n => if n.id == id then f n else n

/-- `NodeStatus::try_from(v).unwrap_or(dflt)` — 0..3 are valid enum values. -/
def statusOr (v dflt : Nat) : Nat := if v ≤ 3 then v else dflt

/-- `voters()`: every *other* node whose status is Active (role is not looked at). -/
def voters (self : Nat) (ns : List Node) : List Node :=
  ns.filter fun n => n.id != self && n.status == sActive

/-- `replication_peers()`: every other node with status Active / Promotable / ReadOnly. -/
def replicationPeers (self : Nat) (ns : List Node) : List Node :=
  ns.filter fun n => n.id != self && (n.status == sActive || n.status == sPromotable || n.status == sReadOnly)

/-- `Membership::is_single_node_cluster` (as of fix 16342b6): configured alone *and* still no other voter -/
def isSingleNodeCluster (initialSize self : Nat) (v : View) : Bool :=
  initialSize == 1 && (voters self v.nodes).isEmpty

/-- `add_learner` -/
def addLearner (v : View) (id status : Nat) : View × Option Err × String :=
  match find? v.nodes id with
  | some e =>
    if e.role == rLearner then (v, none, "add:idempotent")
    else (v, some .exists_, "add:exists")
  | none => ({ v with nodes := v.nodes ++ [{ id := id, role := rLearner, status := status }] }, none, "add:new")

/-- sequential `BatchPromote` loop; stops at the first missing node, keeps what was done. -/
def batchPromoteLoop (ns : List Node) (st : Nat) : List Nat → List Node × Option Err
  | [] => (ns, none)
  | id :: rest =>
    if contains ns id then
      batchPromoteLoop (update ns id fun n => { n with role := rFollower, status := st }) st rest
    else (ns, some .noNode)

/-- `RaftMembership::apply_config_change`; returns the new view, the error (if any) and a branch tag. -/
def applyChange (v : View) : Change → View × Option Err × String
  | .add id status => addLearner v id (statusOr status sPromotable)
  | .remove id => ({ nodes := erase v.nodes id, ver := v.ver + 1 }, none, "remove")
  | .promote id =>
    if contains v.nodes id then
      ({ v with nodes := update v.nodes id fun n => { n with role := rFollower, status := sActive } }, none, "promote")
    else (v, some .noNode, "promote:no-node")
  | .batchPromote ids st =>
    let r := batchPromoteLoop v.nodes (statusOr st sActive) ids
    ({ v with nodes := r.1 }, r.2, if r.2.isSome then "bp:no-node" else "bp")
  | .batchRemove ids => ({ nodes := ids.foldl erase v.nodes, ver := v.ver + 1 }, none, "batch-remove")
  | .nil => (v, none, "nil")

def applyView (v : View) (c : Change) : View := (applyChange v c).1

/-- `calculate_safe_batch_size(current, available)` -/
def safeBatchSize (current available : Nat) : Nat :=
  if (current + available) % 2 == 1 then available else available - 1

/-- `ensure_safe_join(_, current_voters)`: Ok iff `(current_voters + 1 + 1) % 2 == 0`. -/
def ensureSafeJoin (currentVoters : Nat) : Bool := (currentVoters + 1 + 1) % 2 == 0

/-- `is_learner_caught_up(match, commit, threshold)` -/
def caughtUp (m : Option Nat) (commit threshold : Nat) : Bool := commit - m.getD 0 ≤ threshold

/-- `can_rejoin(id, role)`: 0 = ok, else error tag. -/
def canRejoin (v : View) (id role : Nat) : Option String :=
  if role != rLearner then some "not-learner"
  else if !contains v.nodes id then none
  else some "exists"

/-- Validation part of `handle_join_cluster`: `none` = the AddNode entry is proposed. -/
def joinCheck (v : View) (id role : Nat) : Option String :=
  if contains v.nodes id then some "exists"
  else match canRejoin v id role with
    | some _ => some "join-error"
    | none => none

/-- The batch the leader proposes in `handle_promote_ready_learners` (stale cleanup aside):
    the first `safeBatchSize (voters+1) pending.length` ids of the FIFO queue. -/
def promoteBatch (self : Nat) (v : View) (pending : List Nat) : List Nat :=
  pending.take (safeBatchSize ((voters self v.nodes).length + 1) pending.length)

/-! ### Commit-time application and restart -/

/-- An entry of the replicated log as far as membership is concerned. -/
inductive LogEntry where
  | cmd
  | conf (c : Change)
deriving DecidableEq, Repr, Inhabited

/-- `DefaultCommitHandler::process_batch` over one batch of newly committed entries (as of fix
    for F51): every config entry is applied in log order, also after an earlier one failed; the flag
    only remembers that an error is reported. -/
def applyBatch (v : View) : List LogEntry → Bool → View
  | [], _ => v
  | .cmd :: rest, failed => applyBatch v rest failed
  | .conf c :: rest, failed =>
    let r := applyChange v c
    applyBatch r.1 rest (failed || r.2.1.isSome)

/-- `process_batch` before the fix for F51: after the first failing config entry the remaining
    config entries of the *same batch* were skipped (`last_error.is_none() && …`) although all
    entries of the batch were handed to the state machine. -/
def applyBatchSkipping (v : View) : List LogEntry → Bool → View
  | [], _ => v
  | .cmd :: rest, failed => applyBatchSkipping v rest failed
  | .conf c :: rest, failed =>
    if failed then applyBatchSkipping v rest true
    else
      let r := applyChange v c
      applyBatchSkipping r.1 rest r.2.1.isSome

/-- fold of the config entries, every one applied (the reference for C28). -/
def foldConf (v : View) (es : List LogEntry) : View :=
  es.foldl (fun acc e => match e with | .cmd => acc | .conf c => applyView acc c) v

/-- `NodeBuilder::build`: membership is rebuilt from `initial_cluster`; applied entries are not
    replayed (`DefaultStateMachineHandler::new(last_applied)`, commit index := last applied). -/
def restartView (initial : List Node) : View := { nodes := initial, ver := 0 }

def sortNodes (ns : List Node) : List Node := ns.mergeSort fun a b => a.id ≤ b.id

def roleCh (r : Nat) : String :=
  if r == 1 then "f" else if r == 2 then "c" else if r == 3 then "L" else if r == 4 then "l" else "u"
def statusCh (s : Nat) : String :=
  if s == 3 then "a" else if s == 1 then "p" else if s == 2 then "r" else "u"

def showNodes (ns : List Node) : String :=
  if ns.isEmpty then "-" else
  ",".intercalate ((sortNodes ns).map fun n => s!"{n.id}:{roleCh n.role}:{statusCh n.status}")

def showIds (l : List Nat) : String :=
  if l.isEmpty then "-" else ",".intercalate ((l.mergeSort (· ≤ ·)).map toString)

def Change.show : Change → String
  | .add id st => s!"add:{id}:{statusCh st}"
  | .remove id => s!"rm:{id}"
  | .promote id => s!"pro:{id}"
  | .batchPromote ids st => s!"bp:{",".intercalate (ids.map toString)}:{statusCh st}"
  | .batchRemove ids => s!"br:{",".intercalate (ids.map toString)}"
  | .nil => "nil"

/-! ### a learner node (learner_state.rs) -/

structure Learner where
  self : Nat
  term : Nat
  view : View
deriving Repr, Inhabited

/-- `LearnerState::handle_inbound_event(ReceiveVoteRequest)`: the term is adopted, the vote is never
    granted. Returns (state, granted). -/
def learnerVote (s : Learner) (reqTerm : Nat) : Learner × Bool :=
  ({ s with term := if reqTerm > s.term then reqTerm else s.term }, false)

/-- `LearnerState::tick` / `is_timer_expired`: nothing happens, no event. -/
def learnerTick (s : Learner) : Learner × List String := (s, [])
def learnerTimerExpired (_ : Learner) : Bool := false

/-- config change applied by the commit handler, then `LearnerState::handle_membership_applied`:
    `BecomeFollower` iff the node's own entry now has a non-learner role. -/
def learnerApply (s : Learner) (c : Change) : Learner × List String :=
  let r := applyChange s.view c
  match r.2.1 with
  | some e => ({ s with view := r.1 }, [s!"!{e.tag}"])
  | none =>
    let ev := match find? r.1.nodes s.self with
      | some me => if me.role != rLearner then ["BF"] else []
      | none => []
    ({ s with view := r.1 }, ev)

inductive LearnerOp where
  | vote (term : Nat)
  | tick
  | change (c : Change)
  | bad

/-- one step: (state, granted?, events) -/
def learnerStep (s : Learner) : LearnerOp → Learner × Option Bool × List String
  | .vote t => let r := learnerVote s t; (r.1, some r.2, [])
  | .tick => let r := learnerTick s; (r.1, none, r.2)
  | .change c => let r := learnerApply s c; (r.1, none, r.2)
  | .bad => (s, none, ["!bad-op"])

def learnerRun (s : Learner) : List LearnerOp → Learner × List (Option Bool × List String)
  | [] => (s, [])
  | op :: rest =>
    let r := learnerStep s op
    let t := learnerRun r.1 rest
    (t.1, (r.2.1, r.2.2) :: t.2)

/-! ### a cluster of nodes applying one config log with per-node lag (C26) -/

structure CNode where
  id : Nat
  view : View
  applied : Nat
deriving Repr, Inhabited

structure Cluster where
  lead : Nat
  glog : List Change
  nodes : List CNode
deriving Repr, Inhabited

def Cluster.viewOf (c : Cluster) (id : Nat) : Option View := (c.nodes.find? (·.id == id)).map (·.view)

/-- voters a node counts for an election / commit by its own view: itself plus `voters()`;
    `none` while its own entry says Learner (or is gone) -/
def voterSet (n : CNode) : Option (List Nat) :=
  match find? n.view.nodes n.id with
  | some me => if me.role != rLearner then some (n.id :: (voters n.id n.view.nodes).map (·.id)) else none
  | none => none

inductive ClOp where
  | promote (pending : List Nat)          -- handle_promote_ready_learners with this queue
  | join (id status role : Nat)           -- handle_join_cluster
  | stale (id : Nat)                      -- handle_stale_learner
  | apply (node k : Nat)                  -- node applies the config log up to entry k
  | bad

def applyEntries (n : CNode) (glog : List Change) (k : Nat) (fuel : Nat) : CNode × List String :=
  match fuel with
  | 0 => (n, [])
  | fuel + 1 =>
    if n.applied < min k glog.length then
      match glog[n.applied]? with
      | none => (n, [])
      | some c =>
        let r := applyChange n.view c
        let n' : CNode := { n with view := r.1, applied := n.applied + 1 }
        let t := applyEntries n' glog k fuel
        (t.1, (match r.2.1 with | some e => [s!"!{e.tag}"] | none => []) ++ t.2)
    else (n, [])

def clStep (c : Cluster) : ClOp → Cluster × List String × String
  | .promote pending =>
    match c.viewOf c.lead with
    | none => (c, ["left:" ++ showIds pending], "promote:no-leader-view")
    | some v =>
      let k := safeBatchSize ((voters c.lead v.nodes).length + 1) pending.length
      if pending.isEmpty then (c, ["left:-"], "promote:empty")
      else if k == 0 then (c, ["left:" ++ showIds pending], "promote:zero")
      else
        ({ c with glog := c.glog ++ [.batchPromote (pending.take k) sActive] },
         ["left:" ++ showIds (pending.drop k)], if k ≥ 2 then "promote:batch" else "promote:single")
  | .join id status role =>
    match c.viewOf c.lead with
    | none => (c, [], "join:no-leader-view")
    | some v =>
      match joinCheck v id role with
      | some t => (c, [s!"!{t}", "join-rejected"], "join:" ++ t)
      | none => ({ c with glog := c.glog ++ [.add id status] }, ["join-pending"], "join:proposed")
  | .stale id => ({ c with glog := c.glog ++ [.batchRemove [id]] }, [], "stale")
  | .apply node k =>
    if c.nodes.any (·.id == node) then
      let rs := c.nodes.map fun n => if n.id == node then applyEntries n c.glog k (c.glog.length + 1) else (n, [])
      ({ c with nodes := rs.map (·.1) }, rs.flatMap (·.2), "apply")
    else (c, ["!no-such-node"], "apply:no-such-node")
  | .bad => (c, ["!bad-op"], "bad-op")

def initCluster (lead : Nat) (initial : List Node) : Cluster :=
  { lead := lead, glog := [], nodes := initial.map fun n => { id := n.id, view := { nodes := initial }, applied := 0 } }

/-- can a majority of `a` and a majority of `b` be chosen disjoint? (`a`, `b` duplicate-free) -/
def canDisjoint (a b : List Nat) : Bool :=
  let inter := (a.filter fun x => b.contains x).length
  let onlyA := a.length - inter
  let onlyB := b.length - inter
  let needA := a.length / 2 + 1
  let needB := b.length / 2 + 1
  (needA - onlyA) + (needB - onlyB) ≤ inter

/-- first pair of nodes whose voter sets admit disjoint majorities -/
def disjointPair (sets : List (Nat × List Nat)) : Option (Nat × Nat) :=
  sets.findSome? fun x => (sets.find? fun y => canDisjoint x.2 y.2).map fun y => (x.1, y.1)

/-! ### one node through commit, apply and restart (C28) -/

structure RsNode where
  initial : List Node
  entries : List LogEntry := []
  view : View
  lastApplied : Nat := 0
  pendingCommit : Nat := 0
  restarts : Nat := 0
deriving Repr, Inhabited

inductive RsOp where
  | conf (c : Change)
  | cmd
  | commit (k : Nat)
  | restart
  | bad

def rsStep (s : RsNode) : RsOp → RsNode × String
  | .conf c => ({ s with entries := s.entries ++ [.conf c] }, "append:conf")
  | .cmd => ({ s with entries := s.entries ++ [.cmd] }, "append:cmd")
  | .commit k =>
    let k := min k s.entries.length
    let pc := max s.pendingCommit k
    if pc > s.lastApplied then
      let batch := (s.entries.drop s.lastApplied).take (pc - s.lastApplied)
      ({ s with pendingCommit := pc, lastApplied := pc, view := applyBatch s.view batch false },
        if batch.any (fun e => match e with | .conf _ => true | .cmd => false) then "commit:conf" else "commit:cmd")
    else ({ s with pendingCommit := pc }, "commit:nothing")
  | .restart =>
    ({ s with view := restartView s.initial, pendingCommit := 0, restarts := s.restarts + 1 },
      if s.view == restartView s.initial then "restart:same" else "restart:forgets")
  | .bad => (s, "bad-op")

def rsRecord (s : RsNode) : String :=
  s!"M[{showNodes s.view.nodes}] la{s.lastApplied} ci{s.lastApplied} r{s.restarts}"

/-- reference for C28: the applied config entries folded over the initial configuration -/
def rsReference (initial : List Node) (entries : List LogEntry) (lastApplied : Nat) : View :=
  foldConf { nodes := initial } (entries.take lastApplied)

end DEngine.Memb
