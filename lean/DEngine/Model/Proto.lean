/-
  Line-protocol helpers shared by all drivers (core Lean only; no Mathlib so that drivers link).
  One case = one line; one output = one line.
-/
namespace DEngine.Proto

def splitOn (s : String) (sep : String) : List String :=
  if s.isEmpty then [] else s.splitOn sep

/-- `key=value` fields separated by spaces. -/
def fields (s : String) : List (String × String) :=
  (s.splitOn " ").filterMap fun kv =>
    match kv.splitOn "=" with
    | [k, v] => some (k, v)
    | _ => none

def lookup (fs : List (String × String)) (k : String) : Option String :=
  (fs.find? (·.1 == k)).map (·.2)

def natField (fs : List (String × String)) (k : String) : Option Nat :=
  (lookup fs k).bind String.toNat?

def natList (s : String) : Option (List Nat) :=
  if s.isEmpty || s == "-" then some []
  else (s.splitOn ",").mapM String.toNat?

def showNatList (l : List Nat) : String :=
  if l.isEmpty then "-" else ",".intercalate (l.map toString)

def hexDigit (c : Char) : Option Nat :=
  if '0' ≤ c ∧ c ≤ '9' then some (c.toNat - '0'.toNat)
  else if 'a' ≤ c ∧ c ≤ 'f' then some (c.toNat - 'a'.toNat + 10)
  else none

def hexBytesAux : List Char → Option (List UInt8)
  | [] => some []
  | [_] => none
  | a :: b :: rest => do
      let x ← hexDigit a
      let y ← hexDigit b
      let r ← hexBytesAux rest
      pure (UInt8.ofNat (x * 16 + y) :: r)

/-- lowercase hex; `-` is the empty byte string. -/
def hexBytes (s : String) : Option (List UInt8) :=
  if s == "-" then some [] else hexBytesAux s.toList

def hexChar (n : Nat) : Char :=
  if n < 10 then Char.ofNat (n + '0'.toNat) else Char.ofNat (n - 10 + 'a'.toNat)

def showHex (bs : List UInt8) : String :=
  if bs.isEmpty then "-" else
  String.ofList (bs.flatMap fun b => [hexChar (b.toNat / 16), hexChar (b.toNat % 16)])

/-- Generic stdin loop: apply `f` to every input line (without its newline). -/
partial def loop (h : IO.FS.Stream) (out : IO.FS.Stream) (f : String → String) : IO Unit := do
  let line ← h.getLine
  if line.isEmpty then return ()
  let l := if line.back == '\n' then (line.dropEnd 1).toString else line
  out.putStrLn (f l)
  loop h out f

end DEngine.Proto
