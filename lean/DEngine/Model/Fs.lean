/-
  M-FS: the file-system model used by the crash properties (C21, C20, C17).

  One *path* is modelled by `File`:
    `vol`  — what the OS shows now (page cache); `none` = the path does not exist;
    `dur`  — the content at the last `sync_all` (`none` = never synced: after power loss the path may be absent);
    `hist` — every volatile version the path went through since the last `sync_all`, oldest first, without `vol`.
  Ops are the ones the modelled Rust code issues on `std::fs::File` / `tokio::fs::File`:
    `create`  = `File::create` / `open(O_CREAT|O_TRUNC)`   (content := empty)
    `write`   = `write_all` at the end of the file (every modelled writer appends)
    `setLen`  = `File::set_len`
    `flush`   = `File::flush`   (a no-op for an unbuffered `std::fs::File`: no system call)
    `syncAll` = `File::sync_all` (fsync)
  Crash semantics:
    process crash — the OS keeps running: the image is `vol`;
    power loss    — the image is the durable content, or any later unsynced version, or a torn append on the way from
                    one version to the next (adversarial prefix of unsynced appended bytes).
  Crash points are all op boundaries plus every torn state inside a `write`.
-/
namespace DEngine.Fs

abbrev Bytes := List UInt8

structure File where
  vol : Option Bytes
  dur : Option Bytes
  hist : List (Option Bytes)
deriving Repr, DecidableEq

/-- A path that does not exist and never did. -/
def File.absent : File := { vol := none, dur := none, hist := [] }

/-- A path whose content `b` is fully synced. -/
def File.synced (b : Option Bytes) : File := { vol := b, dur := b, hist := [] }

inductive FOp where
  | create
  | write (bs : Bytes)
  | setLen (n : Nat)
  | flush
  | syncAll
deriving Repr, DecidableEq

def File.content (f : File) : Bytes := f.vol.getD []

/-- New volatile version. -/
def File.push (f : File) (v : Option Bytes) : File := { f with vol := v, hist := f.hist ++ [f.vol] }

def setLenBytes (b : Bytes) (n : Nat) : Bytes := b.take n ++ List.replicate (n - b.length) 0

def File.step (f : File) : FOp → File
  | .create => f.push (some [])
  | .write bs => f.push (some (f.content ++ bs))
  | .setLen n => f.push (some (setLenBytes f.content n))
  | .flush => f
  | .syncAll => { vol := f.vol, dur := f.vol, hist := [] }

def File.run (f : File) (ops : List FOp) : File := ops.foldl File.step f

/-- Crash point: `at k` = exactly `k` ops completed; `torn k j` = inside op `k` (a `write`), `j` of its bytes written. -/
inductive Pt where
  | at (k : Nat)
  | torn (k j : Nat)
deriving Repr, DecidableEq

def tornStates (k : Nat) (f : File) (bs : Bytes) : List (Pt × File) :=
  (List.range bs.length).map fun j => (Pt.torn k j, f.step (.write (bs.take j)))

/-- All crash points of running `ops` from `f`, numbering ops from `k`. -/
def crashPtsFrom : Nat → File → List FOp → List (Pt × File)
  | k, f, [] => [(Pt.at k, f)]
  | k, f, op :: rest =>
    (Pt.at k, f) ::
      ((match op with | .write bs => tornStates k f bs | _ => []) ++ crashPtsFrom (k + 1) (f.step op) rest)

def crashPts (f : File) (ops : List FOp) : List (Pt × File) := crashPtsFrom 0 f ops

inductive Sem where
  | process
  | power
deriving Repr, DecidableEq

/-- Every version the path had since (and including) the last sync, oldest first. -/
def File.versions (f : File) : List (Option Bytes) := f.dur :: (f.hist ++ [f.vol])

/-- `synced`: every byte of the current content has been `sync_all`ed. -/
def File.isSynced (f : File) : Bool := f.dur == f.vol && f.hist.isEmpty

/-- `rename(tmp, main)`: the path `main` now shows `tmp`'s content. Volatile namespace: atomic. After power loss the
    path may still show any older version of `main`; if `tmp`'s content was not synced before the rename, any of `tmp`'s
    own non-durable versions may show up under the new name as well. -/
def File.renamedOver (main tmp : File) : File :=
  { vol := tmp.vol, dur := main.dur,
    hist := main.hist ++ [main.vol] ++ (if tmp.isSynced then [] else tmp.versions) }

/-- States of the medium on the way from version `a` to version `b`: a pure append may be torn at any byte. -/
def between (a b : Option Bytes) : List (Option Bytes) :=
  match a, b with
  | some x, some y =>
    if x.isPrefixOf y then (List.range (y.length - x.length + 1)).map fun k => some (y.take (x.length + k))
    else [some x, some y]
  | a, b => [a, b]

def pairs {α : Type} : List α → List (α × α)
  | a :: b :: rest => (a, b) :: pairs (b :: rest)
  | _ => []

def File.images (f : File) : Sem → List (Option Bytes)
  | .process => [f.vol]
  | .power => f.versions ++ (pairs f.versions).flatMap fun p => between p.1 p.2

end DEngine.Fs
