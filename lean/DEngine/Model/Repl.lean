/-
  M-REPL: executable model of d-engine's log replication path (families `repl`; properties C08, C36, C07).
  Core Lean only (no Mathlib) so that `drv_repl` links.  The model follows the code *as it is* (with fixes F6 and F50).

  What models what (file, fn):
  * `Log`, `appendE`, `resetL`, `removeFrom`, `Log.entryTerm`, `Log.lastLogId`, `firstIndexForTerm`,
    `lastIndexForTerm`, `segStep`                — storage/buffered_raft_log.rs: `BufferedRaftLog` seen abstractly as the
       ascending list of entries held by the SkipMap + purge boundary (`last_purged_index/term`) + the two hot
       atomics of `TermSegments` (`last_term`, `last_term_start`, maintained exactly like `TermSegments::on_append`;
       `reset_internal` clears them, `remove_range` does not touch them). `entry_term` is modelled as the true
       lookup (bounds check + purge-boundary cold path as written); the archived segment array is not modelled
       (family `buflog` owns BufferedRaftLog's internals).
  * `filterAppend`                                — buffered_raft_log.rs `filter_out_conflicts_and_append`, four paths:
       reset on prev=(0,0) / prev mismatch / fast path (`overlap_safe`) / slow path (none, conflict, append).
  * `checkLegal`                                  — replication_handler.rs `check_append_entries_request_is_legal`
  * `ifUpdateCommit`                              — replication_handler.rs `if_update_commit_index_as_follower`
  * `handleAppend`, `prevId`                      — replication_handler.rs `handle_append_entries` (ack contents, commit rule on
       `prev + len` = index of last new entry, never lowered — as fixed by F50, commit c57f05e)
  * `stepReq`                                     — raft_role/role_state.rs `handle_append_entries_request_workflow`
       (term check, term adoption, commit update, ONE response for all senders; the response carries the term of
       the `state_snapshot` taken in `FollowerState::handle_inbound_event` *before* the term is adopted)
  * `procAcc` / `processQ`                        — raft.rs `process_inbound_events` + `merge_append_entries`
       (merge rule `next_prev == prev && term == term`, `max_merge_entries` cut, `max` of leader commits, senders
       appended; the merged request keeps the FIRST request's prev_log_term / leader_id)
  * `processSeq`                                  — the same queue handled one request at a time (the C36 reference)
  * `legacyFor`, `rawFor`                         — replication_handler.rs `retrieve_to_be_synced_logs_for_peers`
       (cap arithmetic exactly as written, then `extend(new_entries)`)
  * `contigRun`, `buildReq`                       — replication_handler.rs `build_append_request` (prev = next-1,
       `entry_term(prev).unwrap_or(0)`, contiguous-run truncation = fix F6)
  * `prepare`                                     — replication_handler.rs `prepare_batch_requests` +
       `generate_new_entries` (ids from `pre_allocate_id_range`), snapshot-target split at `first_entry_id`;
       `specNext` = the speculative `next_index` of leader_state.rs `execute_and_process_raft_rpc`
  * `onSuccess`, `onConflict`                     — replication_handler.rs `handle_success_response`,
       `handle_conflict_response`
  Assumption on inputs (generator keeps to it, stated in props/*.json): the entries of one request are in
  ascending index order (then `partition_point` = `takeWhile`); indexes ≥ 1.
-/
namespace DEngine.Repl

structure Entry where
  index : Nat
  term : Nat
  pay : Nat
deriving DecidableEq, Repr

structure Log where
  ents : List Entry := []
  pIdx : Nat := 0       -- last_purged_index
  pTerm : Nat := 0      -- last_purged_term
  lt : Nat := 0         -- term_segments.last_term
  ls : Nat := 0         -- term_segments.last_term_start
deriving DecidableEq, Repr

def lastOf (es : List Entry) : Nat := match es.getLast? with | some e => e.index | none => 0
def firstOf (es : List Entry) : Nat := match es.head? with | some e => e.index | none => 0
/-- `last_entry_id()` = `max_index` (0 if empty). -/
def Log.lastIdx (l : Log) : Nat := lastOf l.ents
/-- `first_entry_id()` = `min_index` (0 if empty). -/
def Log.firstIdx (l : Log) : Nat := firstOf l.ents
def findE (es : List Entry) (i : Nat) : Option Entry := es.find? (fun e => e.index == i)
def idOf (e : Entry) : Nat × Nat := (e.index, e.term)

/-- `entry_term`. -/
def Log.entryTerm (l : Log) (i : Nat) : Option Nat :=
  if l.lastIdx == 0 || i < l.firstIdx || i > l.lastIdx then
    (if l.pIdx > 0 && i == l.pIdx then some l.pTerm else none)
  else (findE l.ents i).map (·.term)

/-- `last_log_id`: last entry, or the purge boundary when the log is empty. -/
def Log.lastLogId (l : Log) : Option (Nat × Nat) :=
  match l.ents.getLast? with
  | some e => some (idOf e)
  | none => if l.pIdx > 0 then some (l.pIdx, l.pTerm) else none

def Log.firstIndexForTerm (l : Log) (t : Nat) : Option Nat :=
  (l.ents.find? (fun e => e.term == t)).map (·.index)
def Log.lastIndexForTerm (l : Log) (t : Nat) : Option Nat :=
  (l.ents.reverse.find? (fun e => e.term == t)).map (·.index)

/-- One step of `TermSegments::on_append` on the hot atomics `(last_term, last_term_start)`. -/
def segStep (s : Nat × Nat) (e : Entry) : Nat × Nat :=
  if e.term == s.1 then (if e.index < s.2 then (s.1, e.index) else s)
  else (e.term, e.index)

/-- `append_entries` / `insert_to_memory` (entries land behind the existing ones). -/
def appendE (l : Log) (es : List Entry) : Log :=
  { l with ents := l.ents ++ es,
           lt := (es.foldl segStep (l.lt, l.ls)).1,
           ls := (es.foldl segStep (l.lt, l.ls)).2 }

/-- `reset_internal`: entries and term indexes cleared; the purge boundary atomics are not touched. -/
def resetL (l : Log) : Log := { l with ents := [], lt := 0, ls := 0 }

/-- `remove_range(d..=u64::MAX)`. -/
def removeFrom (l : Log) (d : Nat) : Log := { l with ents := l.ents.filter (fun e => e.index < d) }

/-- `purge_logs_up_to(LogId{index:k, term:t})`. -/
def purgeTo (l : Log) (k t : Nat) : Log :=
  { l with ents := l.ents.filter (fun e => k < e.index), pIdx := k, pTerm := t }

/-- slow-path divergence test of one incoming entry. -/
def diverges (l : Log) (e : Entry) : Bool :=
  e.index > l.lastIdx || l.entryTerm e.index != some e.term

/-- `overlap_safe`. -/
def overlapSafe (l : Log) (overlap : List Entry) : Bool :=
  match overlap.head? with
  | none => true
  | some f => decide (l.ls ≤ f.index) && f.term == l.lt &&
      (match overlap.getLast? with | none => true | some x => x.term == l.lt)

/-- The slow path alone (also used as the specification the fast path must agree with):
    `position(|e| e.index > last || entry_term(e.index) != Some(e.term))`, then the slice from there. -/
def slowPath (l : Log) (es : List Entry) : Log × Option (Nat × Nat) × String :=
  match es.dropWhile (fun e => !diverges l e) with
  | [] => (l, es.getLast?.map idOf, "slow-none")
  | e :: rest =>
    if e.index ≤ l.lastIdx then
      (appendE (removeFrom l e.index) (e :: rest), (e :: rest).getLast?.map idOf, "slow-conflict")
    else (appendE l (e :: rest), (e :: rest).getLast?.map idOf, "slow-append")

/-- `filter_out_conflicts_and_append` → (new log, returned last log id, branch tag). -/
def filterAppend (l : Log) (prev prevTerm : Nat) (es : List Entry) : Log × Option (Nat × Nat) × String :=
  if prev == 0 && prevTerm == 0 then
    (appendE (resetL l) es, es.getLast?.map idOf, "reset")
  else if l.entryTerm prev != some prevTerm then
    (l, l.lastLogId, "prev-mismatch")
  else
    let overlap := es.takeWhile (fun e => e.index ≤ l.lastIdx)
    let tail := es.dropWhile (fun e => e.index ≤ l.lastIdx)
    if overlapSafe l overlap then
      if tail.isEmpty then (l, es.getLast?.map idOf, "fast-noop")
      else (appendE l tail, tail.getLast?.map idOf, "fast-append")
    else slowPath l es

structure Req where
  term : Nat
  leader : Nat
  prev : Nat
  prevTerm : Nat
  commit : Nat
  ents : List Entry
deriving DecidableEq, Repr

inductive Ack
  | success (term : Nat) (m : Option (Nat × Nat))
  | conflict (term : Nat) (ct : Option Nat) (ci : Option Nat)
  | higher (term : Nat)
deriving DecidableEq, Repr

def Ack.isSuccess : Ack → Bool
  | .success _ _ => true
  | _ => false

/-- `check_append_entries_request_is_legal` → (response, branch tag). -/
def checkLegal (myTerm : Nat) (r : Req) (l : Log) : Ack × String :=
  if myTerm > r.term then (.higher myTerm, "chk-higher-term")
  else if r.prev == 0 && r.prevTerm == 0 then (.success myTerm l.lastLogId, "chk-virtual")
  else
    match l.entryTerm r.prev with
    | some t =>
      if t == r.prevTerm then (.success myTerm (some (r.prev, r.prevTerm)), "chk-match")
      else (.conflict myTerm (some t) (some ((l.firstIndexForTerm t).getD (r.prev - 1))), "chk-conflict-term")
    | none =>
      (.conflict myTerm none (some ((match l.lastLogId with | some x => x.1 | none => 0) + 1)), "chk-conflict-missing")

/-- `if_update_commit_index_as_follower`. -/
def ifUpdateCommit (myCommit lastIdx leaderCommit : Nat) : Option Nat :=
  if leaderCommit > myCommit then some (min leaderCommit lastIdx) else none

/-- what an empty (heartbeat) request is acknowledged with since fix F50: the position the request itself
    verified, `(prev_log_index, prev_log_term)` (`None` for prev = 0) — not the follower's whole last log id. -/
def prevId (r : Req) : Option (Nat × Nat) := if r.prev > 0 then some (r.prev, r.prevTerm) else none

/-- `handle_append_entries` → (log, response, commit_index_update, tags). Since fix F50 the commit rule gets
    `prev_log_index + entries.len()` ("index of last new entry"), and an update is reported only when it
    raises the commit index. -/
def handleAppend (snapTerm snapCommit : Nat) (r : Req) (l : Log) : Log × Ack × Option Nat × List String :=
  let chk := checkLegal snapTerm r l
  if chk.1.isSuccess then
    let res := if r.ents.isEmpty then (l, prevId r, "heartbeat") else filterAppend l r.prev r.prevTerm r.ents
    let cu := match ifUpdateCommit snapCommit (r.prev + r.ents.length) r.commit with
      | some c => if c > snapCommit then some c else none
      | none => none
    (res.1, .success snapTerm res.2.1, cu, [chk.2, res.2.2, if cu.isSome then "commit-update" else "commit-keep"])
  else (l, chk.1, none, [chk.2])

structure FState where
  term : Nat
  commit : Nat
  log : Log
deriving DecidableEq, Repr

/-- `handle_append_entries_request_workflow` for one (possibly merged) request → (state, THE response, tags). -/
def stepReqT (st : FState) (r : Req) : FState × Ack × List String :=
  if st.term > r.term then (st, .higher st.term, ["wf-higher-term"])
  else
    let h := handleAppend st.term st.commit r st.log
    ({ term := if st.term < r.term then r.term else st.term,
       commit := match h.2.2.1 with | some c => c | none => st.commit,
       log := h.1 },
     h.2.1, (if st.term < r.term then "wf-adopt-term" else "wf-same-term") :: h.2.2.2)

def stepReq (st : FState) (r : Req) : FState × Ack := ((stepReqT st r).1, (stepReqT st r).2.1)

/-- merge one more request into the accumulated one (`merge_append_entries` loop body, accepted branch). -/
def mergeReq (acc : Req) (r : Req) : Req :=
  { acc with commit := max acc.commit r.commit, ents := acc.ents ++ r.ents }

/-- the loop condition of `merge_append_entries` for the next queued request. -/
def canMerge (maxMerge : Nat) (acc : Req) (nextPrev : Nat) (r : Req) : Bool :=
  nextPrev == r.prev && acc.term == r.term && !(decide (acc.ents.length + r.ents.length > maxMerge))

/-- `process_inbound_events` on a queue of AppendEntries events, `acc` = the merged front request being
    built, `n` = its number of senders, `np` = `next_prev`. Result: final state, one ack per sender in queue
    order, branch tags. -/
def procAcc (maxMerge : Nat) (st : FState) (acc : Req) (n : Nat) (np : Nat) :
    List (Req × Nat) → FState × List Ack × List String
  | [] =>
    let s := stepReqT st acc
    (s.1, List.replicate n s.2.1, s.2.2)
  | (r, k) :: rest =>
    if canMerge maxMerge acc np r then
      let p := procAcc maxMerge st (mergeReq acc r) (n + k) (np + r.ents.length) rest
      (p.1, p.2.1, "merged" :: p.2.2)
    else
      let s := stepReqT st acc
      let p := procAcc maxMerge s.1 r k (r.prev + r.ents.length) rest
      (p.1, List.replicate n s.2.1 ++ p.2.1, s.2.2 ++ p.2.2)

def processQ (maxMerge : Nat) (st : FState) : List (Req × Nat) → FState × List Ack × List String
  | [] => (st, [], [])
  | (r, k) :: rest => procAcc maxMerge st r k (r.prev + r.ents.length) rest

/-- The reference: every request handled on its own, its ack sent to its own senders. -/
def processSeq (st : FState) : List (Req × Nat) → FState × List Ack
  | [] => (st, [])
  | (r, k) :: rest =>
    let s := stepReq st r
    let p := processSeq s.1 rest
    (p.1, List.replicate k s.2 ++ p.2)

/-! ### Leader side -/

/-- SkipMap `range(a..=b)`. -/
def rangeEntries (l : Log) (a b : Nat) : List Entry :=
  l.ents.filter (fun e => decide (a ≤ e.index) && decide (e.index ≤ b))

/-- legacy part of `retrieve_to_be_synced_logs_for_peers` for one peer. -/
def legacyFor (l : Log) (lastBefore cap next : Nat) : List Entry :=
  if lastBefore ≥ next then
    let untilIdx := if lastBefore - next ≥ cap then next + cap - 1 else lastBefore
    rangeEntries l next untilIdx
  else []

/-- what the helper returns for one peer (possibly gapped: capped legacy entries, then the new ones). -/
def rawFor (l : Log) (lastBefore cap next : Nat) (newEs : List Entry) : List Entry :=
  legacyFor l lastBefore cap next ++ newEs

/-- `zip(prev+1..).take_while(e.index == expected).count()` then `truncate` (fix F6). -/
def contigRun (s : Nat) : List Entry → List Entry
  | [] => []
  | e :: es => if e.index == s then e :: contigRun (s + 1) es else []

/-- `build_append_request`; `next? = none` when the peer has no `next_index` entry. -/
def buildReq (l : Log) (term commit me : Nat) (next? : Option Nat) (raw : List Entry) : Req :=
  let prev := match next? with | none => 0 | some n => n - 1
  let pt := match next? with | none => 0 | some n => (l.entryTerm (n - 1)).getD 0
  { term := term, leader := me, prev := prev, prevTerm := pt, commit := commit,
    ents := contigRun (prev + 1) raw }

/-- speculative next_index stored after firing a request (leader_state.rs). -/
def specNext (r : Req) : Nat := r.prev + r.ents.length + 1

def lookupNext (m : List (Nat × Nat)) (id : Nat) : Option Nat := (m.find? (fun p => p.1 == id)).map (·.2)

def newEntries (start term : Nat) : List Nat → List Entry
  | [] => []
  | p :: ps => { index := start, term := term, pay := p } :: newEntries (start + 1) term ps

/-- `prepare_batch_requests` → (log after the insert, per target: none = snapshot target / some request,
    raw helper output per peer of the next map (excluding self)). `nextId` = the log's `next_id`. -/
def prepare (l : Log) (nextId cap term commit me : Nat) (nextMap : List (Nat × Nat)) (targets : List Nat)
    (newPays : List Nat) : Log × List (Nat × Option Req) × List (Nat × List Entry) :=
  let lastBefore := l.lastIdx
  let newEs := newEntries nextId term newPays
  let l' := appendE l newEs
  let raw := fun (id : Nat) => match lookupNext nextMap id with
    | some nx => if id == me then [] else rawFor l' lastBefore cap nx newEs
    | none => []
  let minLog := l'.firstIdx
  let reqs := targets.map fun id =>
    let peerNext := (lookupNext nextMap id).getD 1
    if minLog > 1 && peerNext < minLog then (id, none)
    else (id, some (buildReq l' term commit me (lookupNext nextMap id) (raw id)))
  (l', if targets.isEmpty then [] else reqs,
   (nextMap.filter (fun p => p.1 != me)).map (fun p => (p.1, rawFor l' lastBefore cap p.2 newEs)))

/-- `handle_success_response` → none = Err(HigherTerm) / some (match, next). -/
def onSuccess (peerTerm leaderTerm : Nat) (m : Option (Nat × Nat)) : Option (Nat × Nat) :=
  if peerTerm > leaderTerm then none
  else let mi := match m with | some x => x.1 | none => 0
       some (mi, mi + 1)

/-- `handle_conflict_response` → next_index. -/
def onConflict (l : Log) (ct ci : Option Nat) (curNext : Nat) : Nat :=
  let nx := match ct, ci with
    | some t, some i => (match l.lastIndexForTerm t with | some li => li + 1 | none => i)
    | none, some i => i
    | _, _ => curNext - 1
  max nx 1

/-! ### Decidable predicates (used by the theorems in Props/C08, C36, C07 and, evaluated on the
    implementation's outputs, by the monitors of `drv_repl`) -/

/-- indexes are `s, s+1, s+2, …`. -/
def contigFrom (s : Nat) : List Entry → Bool
  | [] => true
  | e :: es => e.index == s && contigFrom (s + 1) es

/-- no index gaps. -/
def gapFree (es : List Entry) : Bool := contigFrom (firstOf es) es

/-- C08, request side: entries are consecutive and start right after `prev`. -/
def Req.contig (r : Req) : Bool := contigFrom (r.prev + 1) r.ents

/-- terms never decrease along the entries (and are ≥ `t`). -/
def termsFrom (t : Nat) : List Entry → Bool
  | [] => true
  | e :: es => decide (t ≤ e.term) && termsFrom e.term es

def termsMono (es : List Entry) : Bool := termsFrom 0 es

/-- Well-formed log: gap-free, indexes ≥ 1, entries start right after the purge boundary (if any). -/
def Log.wf (l : Log) : Bool :=
  gapFree l.ents && (l.ents.isEmpty || decide (1 ≤ l.firstIdx)) &&
  (l.pIdx == 0 || l.ents.isEmpty || l.firstIdx == l.pIdx + 1)

/-- `TermSegments` hot atomics are consistent with the entries: everything at or above
    `last_term_start` carries `last_term`. -/
def segOK (l : Log) : Bool := l.ents.all fun e => !(decide (l.ls ≤ e.index)) || e.term == l.lt

/-- "as far as the request tells, the follower's entry at index `i` agrees with the leader": every request
    entry up to `i` is matched (same term) by the follower's log. -/
def agreesUpTo (l : Log) (es : List Entry) (i : Nat) : Bool :=
  es.all fun r => !(decide (r.index ≤ i)) || l.entryTerm r.index == some r.term

/-- C08, follower side: entries at or below `prev`, and entries that agree with the leader as far as the
    request tells, are still there afterwards. -/
def agreeKept (l : Log) (prev : Nat) (es : List Entry) (l' : Log) : Bool :=
  l.ents.all fun e => !(decide (e.index ≤ prev) || agreesUpTo l es e.index) || l'.ents.contains e

/-- every queued request is swallowed by the merge loop (one merged request for the whole queue). -/
def allMerge (maxMerge : Nat) (acc : Req) (np : Nat) : List (Req × Nat) → Bool
  | [] => true
  | (r, _) :: rest => canMerge maxMerge acc np r && allMerge maxMerge (mergeReq acc r) (np + r.ents.length) rest

/-- no queued request is merged with its predecessor. -/
def noMerge (maxMerge : Nat) (acc : Req) : List (Req × Nat) → Bool
  | [] => true
  | (r, _) :: rest => !(canMerge maxMerge acc (acc.prev + acc.ents.length) r) && noMerge maxMerge r rest

/-- prev_log_term of the next request is what the chain so far implies (the merge rule does not look at it). -/
def prevTermOK (acc r : Req) : Bool :=
  match acc.ents.getLast? with
  | some e => r.prevTerm == e.term
  | none => r.prevTerm == acc.prevTerm

/-- The queue behind `acc` is what ONE leader sends over an ordered stream: every request contiguous, its
    prev term consistent with the chain, entry terms non-decreasing along the chain, leader commit
    non-decreasing. (`acc` = the requests merged so far.) -/
def chainWF (acc : Req) : List (Req × Nat) → Bool
  | [] => true
  | (r, _) :: rest =>
    r.contig && prevTermOK acc r && decide (acc.commit ≤ r.commit) && termsMono (acc.ents ++ r.ents) &&
    chainWF (mergeReq acc r) rest

/-- C36 premise. -/
def mergeable (maxMerge : Nat) (st : FState) (r : Req) (rest : List (Req × Nat)) : Bool :=
  allMerge maxMerge r (r.prev + r.ents.length) rest && r.contig && termsMono r.ents && chainWF r rest &&
  st.log.wf && segOK st.log

def Ack.matchId : Ack → Option (Nat × Nat)
  | .success _ m => m
  | _ => none

/-- C36 acknowledgement equivalence (DESIGN C36): every sender gets a success both ways, and the merged
    ack carries the match position of the LAST sequential ack — so folding either list through the
    leader's `update_peer_index` (match = max, next = max(cur, match+1)) gives the same result. -/
def ackEquiv (merged seq : List Ack) : Bool :=
  merged.length == seq.length && merged.all Ack.isSuccess && seq.all Ack.isSuccess &&
  merged.all (fun a => a.matchId == (seq.getLast?.bind Ack.matchId))

/-- all requests merged into one (the loop of `merge_append_entries` with every test passing). -/
def mergeAll (acc : Req) : List (Req × Nat) → Req
  | [] => acc
  | (r, _) :: rest => mergeAll (mergeReq acc r) rest

def sumSenders : List (Req × Nat) → Nat
  | [] => 0
  | (_, k) :: rest => k + sumSenders rest

/-- C07: what the leader's log looks like to the follower-side theorems. -/
def cutFrom (ldr : List Entry) (r : Req) : Bool :=
  r.contig && r.ents.all (fun e => findE ldr e.index == some e) &&
  (r.prev == 0 && r.prevTerm == 0 || (findE ldr r.prev).map (·.term) == some r.prevTerm)

/-- follower and leader hold the same entry at every index in `(lo, hi]`. -/
def agreeRange (ents ldr : List Entry) (lo hi : Nat) : Bool :=
  (List.range (hi - lo)).all fun k => findE ents (lo + 1 + k) == findE ldr (lo + 1 + k)

/-- Log Matching between the follower's entries and the leader's log: equal index and term ⇒ same entry. -/
def logMatching (ents ldr : List Entry) : Bool :=
  ents.all fun e => match findE ldr e.index with
    | some e' => !(e'.term == e.term) || e' == e
    | none => true

end DEngine.Repl
