/-
  M-CODEC: the write path from a client's operation to the command the state machine applies.

  What is modelled (Rust file + fn):
  * `writeOpToProto`      — d-engine-core/src/raft_role/leader_state.rs `write_op_to_proto`
                            (`ttl_secs.unwrap_or(0)`).
  * `encWriteCommand`     — d-engine-core/src/replication/replication_handler.rs
                            `client_command_to_entry_payloads` = prost `WriteCommand::encode`, at field level:
                            varint keys/lengths, proto3 default skipping (empty `bytes`, `0` uint64 are not
                            emitted), `optional bytes` emitted whenever `Some` (also when empty), the `oneof`
                            always emitted as a length-delimited sub-message (also when the sub-message is empty).
  * `decWriteCommand`     — prost `WriteCommand::decode` (derive-generated `merge_field` of `WriteCommand`,
                            `Insert`, `Delete`, `CompareAndSwap`; `decode_key`, `decode_varint` (≤ 10 bytes, 10th
                            byte < 2), `bytes::merge` (last wins), `uint64::merge`, `message::merge` /
                            `merge_loop` (sub-message of a repeated oneof variant merges into the existing
                            value, a different variant replaces it), `skip_field` for unknown tags.
                            Unknown group fields (wire types 3/4) are skipped like prost does (`skipGroupF`).
  * `toCommand`           — d-engine-core/src/command.rs `TryFrom<WriteCommand> for Command`
                            (`ttl_secs == 0 ↦ None`, no operation ↦ error).
  * `decodeEntryCommand`  — d-engine-core/src/command.rs `decode_entries`, `Payload::Command` branch.
  * `writeCommandToOp`    — d-engine-server/src/proto_convert.rs `write_command_to_op` (gRPC server side,
                            `0 ↦ None`; `None` operation = `unreachable!()` panic).

  All functions are total on `List UInt8`; errors of prost are collapsed to `none`.
-/
namespace DEngine.Codec

abbrev Bytes := List UInt8

/-! ## native side -/

/-- `d_engine_core::client::WriteOperation` -/
inductive WriteOp where
  | insert (key value : Bytes) (ttl : Option UInt64)
  | delete (key : Bytes)
  | cas (key : Bytes) (expected : Option Bytes) (newValue : Bytes)
deriving Repr, DecidableEq

/-- `d_engine_core::Command` -/
inductive Command where
  | noop
  | insert (key value : Bytes) (ttl : Option UInt64)
  | delete (key : Bytes)
  | cas (key : Bytes) (expected : Option Bytes) (value : Bytes)
deriving Repr, DecidableEq

/-! ## proto side -/

structure PInsert where
  key : Bytes := []
  value : Bytes := []
  ttlSecs : UInt64 := 0
deriving Repr, DecidableEq

structure PDelete where
  key : Bytes := []
deriving Repr, DecidableEq

structure PCas where
  key : Bytes := []
  expected : Option Bytes := none
  newValue : Bytes := []
deriving Repr, DecidableEq

inductive Operation where
  | insert (i : PInsert)
  | delete (d : PDelete)
  | cas (c : PCas)
deriving Repr, DecidableEq

structure WriteCommand where
  operation : Option Operation := none
deriving Repr, DecidableEq

/-- `write_op_to_proto` -/
def writeOpToProto : WriteOp → WriteCommand
  | .insert k v ttl => ⟨some (.insert { key := k, value := v, ttlSecs := ttl.getD 0 })⟩
  | .delete k => ⟨some (.delete { key := k })⟩
  | .cas k e v => ⟨some (.cas { key := k, expected := e, newValue := v })⟩

/-- `write_command_to_op`; `none` = the `unreachable!()` panic. -/
def writeCommandToOp (wc : WriteCommand) : Option WriteOp :=
  match wc.operation with
  | some (.insert i) => some (.insert i.key i.value (if i.ttlSecs = 0 then none else some i.ttlSecs))
  | some (.delete d) => some (.delete d.key)
  | some (.cas c) => some (.cas c.key c.expected c.newValue)
  | none => none

/-- `TryFrom<WriteCommand> for Command`; `none` = `Err("WriteCommand has no operation")`. -/
def toCommand (wc : WriteCommand) : Option Command :=
  match wc.operation with
  | some (.insert i) => some (.insert i.key i.value (if i.ttlSecs = 0 then none else some i.ttlSecs))
  | some (.delete d) => some (.delete d.key)
  | some (.cas c) => some (.cas c.key c.expected c.newValue)
  | none => none

/-! ## prost encoding -/

/-- `encode_varint` (LEB128, little-endian base 128). -/
def encVarint (n : Nat) : List UInt8 :=
  if h : n < 128 then [n.toUInt8] else (n % 128 + 128).toUInt8 :: encVarint (n / 128)
termination_by n
decreasing_by omega

/-- `encode_key(tag, wire_type)` -/
def encKey (tag wt : Nat) : List UInt8 := encVarint (tag * 8 + wt)

/-- `bytes::encode` (key, length, payload) -/
def encLenDelim (tag : Nat) (b : Bytes) : List UInt8 := encKey tag 2 ++ encVarint b.length ++ b

/-- proto3 `bytes` field: not emitted when empty. -/
def encBytesField (tag : Nat) (b : Bytes) : List UInt8 := if b.isEmpty then [] else encLenDelim tag b

/-- proto3 `uint64` field: not emitted when 0. -/
def encU64Field (tag : Nat) (v : UInt64) : List UInt8 := if v = 0 then [] else encKey tag 0 ++ encVarint v.toNat

/-- `optional bytes`: emitted iff `Some`. -/
def encOptBytesField (tag : Nat) : Option Bytes → List UInt8
  | none => []
  | some b => encLenDelim tag b

def encInsert (i : PInsert) : List UInt8 := encBytesField 1 i.key ++ encBytesField 2 i.value ++ encU64Field 3 i.ttlSecs
def encDelete (d : PDelete) : List UInt8 := encBytesField 1 d.key
def encCas (c : PCas) : List UInt8 := encBytesField 1 c.key ++ encOptBytesField 2 c.expected ++ encBytesField 3 c.newValue

/-- `WriteCommand::encode` -/
def encWriteCommand (wc : WriteCommand) : List UInt8 :=
  match wc.operation with
  | none => []
  | some (.insert i) => encLenDelim 1 (encInsert i)
  | some (.delete d) => encLenDelim 2 (encDelete d)
  | some (.cas c) => encLenDelim 3 (encCas c)

/-! ## prost decoding -/

/-- `decode_varint`: at most `budget` bytes; the last allowed byte (budget 1 = the 10th) must be < 2. -/
def decVarintB : Nat → List UInt8 → Option (Nat × List UInt8)
  | 0, _ => none
  | _, [] => none
  | k + 1, b :: rest =>
    if b < 0x80 then (if k = 0 ∧ b ≥ 2 then none else some (b.toNat, rest))
    else (decVarintB k rest).map fun r => ((b.toNat - 128) + 128 * r.1, r.2)

def decVarint (bs : List UInt8) : Option (Nat × List UInt8) := decVarintB 10 bs

/-- `decode_key`: (tag, wire type, rest). -/
def decKey (bs : List UInt8) : Option (Nat × Nat × List UInt8) :=
  match decVarint bs with
  | none => none
  | some (key, rest) =>
    if key > 0xFFFFFFFF then none
    else if key % 8 > 5 then none
    else if key / 8 = 0 then none
    else some (key / 8, key % 8, rest)

/-- length prefix + that many bytes: (payload, rest). -/
def decLenDelim (bs : List UInt8) : Option (Bytes × List UInt8) :=
  match decVarint bs with
  | none => none
  | some (len, rest) => if len > rest.length then none else some (rest.take len, rest.drop len)

mutual
/-- `skip_field` with fuel (every call consumes ≥ 1 byte) and the recursion budget `depth`
    (`ctx.limit_reached()`; groups `enter_recursion`). -/
def skipFieldF : Nat → Nat → Nat → Nat → List UInt8 → Option (List UInt8)
  | 0, _, _, _, _ => none
  | fuel + 1, depth, wt, tag, bs =>
    if depth = 0 then none else
    match wt with
    | 0 => (decVarint bs).map (·.2)
    | 1 => if 8 > bs.length then none else some (bs.drop 8)
    | 2 => (decLenDelim bs).map (·.2)
    | 3 => skipGroupF fuel depth tag bs
    | 5 => if 4 > bs.length then none else some (bs.drop 4)
    | _ => none       -- EndGroup: "unexpected end group tag"
/-- the `StartGroup` loop of `skip_field`: skip inner fields until the matching `EndGroup` key. -/
def skipGroupF : Nat → Nat → Nat → List UInt8 → Option (List UInt8)
  | 0, _, _, _ => none
  | fuel + 1, depth, tag, bs =>
    match decKey bs with
    | none => none
    | some (itag, iwt, rest) =>
      if iwt = 4 then (if itag ≠ tag then none else some rest)
      else match skipFieldF fuel (depth - 1) iwt itag rest with
        | none => none
        | some r => skipGroupF fuel depth tag r
end

/-- `skip_field` for an unknown tag (recursion budget 100; the real budget is 100 at the top level and 99
    inside the oneof sub-message — indistinguishable below 99 nested groups). -/
def skipField (wt tag : Nat) (bs : List UInt8) : Option (List UInt8) :=
  skipFieldF (2 * bs.length + 2) 100 wt tag bs

/-- `bytes::merge`: wire type must be LengthDelimited. -/
def mergeBytes (wt : Nat) (bs : List UInt8) : Option (Bytes × List UInt8) :=
  if wt ≠ 2 then none else decLenDelim bs

/-- `uint64::merge`: wire type must be Varint; the decoded value is a u64 by construction. -/
def mergeU64 (wt : Nat) (bs : List UInt8) : Option (UInt64 × List UInt8) :=
  if wt ≠ 0 then none else (decVarint bs).map fun r => (UInt64.ofNat r.1, r.2)

def mergeInsertField (m : PInsert) (tag wt : Nat) (bs : List UInt8) : Option (PInsert × List UInt8) :=
  match tag with
  | 1 => (mergeBytes wt bs).map fun r => ({ m with key := r.1 }, r.2)
  | 2 => (mergeBytes wt bs).map fun r => ({ m with value := r.1 }, r.2)
  | 3 => (mergeU64 wt bs).map fun r => ({ m with ttlSecs := r.1 }, r.2)
  | _ => (skipField wt tag bs).map fun r => (m, r)

def mergeDeleteField (m : PDelete) (tag wt : Nat) (bs : List UInt8) : Option (PDelete × List UInt8) :=
  match tag with
  | 1 => (mergeBytes wt bs).map fun r => ({ m with key := r.1 }, r.2)
  | _ => (skipField wt tag bs).map fun r => (m, r)

def mergeCasField (m : PCas) (tag wt : Nat) (bs : List UInt8) : Option (PCas × List UInt8) :=
  match tag with
  | 1 => (mergeBytes wt bs).map fun r => ({ m with key := r.1 }, r.2)
  | 2 => (mergeBytes wt bs).map fun r => ({ m with expected := some r.1 }, r.2)
  | 3 => (mergeBytes wt bs).map fun r => ({ m with newValue := r.1 }, r.2)
  | _ => (skipField wt tag bs).map fun r => (m, r)

/-- `Message::merge` loop: `while buf.has_remaining() { decode_key; merge_field }` (fuel: every iteration consumes ≥ 1 byte, so any fuel ≥ #bytes behaves the same; `+ 4` only keeps the proofs short). -/
def mergeLoop {α : Type} (mergeField : α → Nat → Nat → List UInt8 → Option (α × List UInt8)) :
    Nat → List UInt8 → α → Option α
  | _, [], m => some m
  | 0, _ :: _, _ => none
  | fuel + 1, b :: bs, m =>
    match decKey (b :: bs) with
    | none => none
    | some (tag, wt, rest) =>
      match mergeField m tag wt rest with
      | none => none
      | some (m', rest') => mergeLoop mergeField fuel rest' m'

def decMessage {α : Type} (mergeField : α → Nat → Nat → List UInt8 → Option (α × List UInt8))
    (bs : List UInt8) (init : α) : Option α :=
  mergeLoop mergeField (bs.length + 4) bs init

/-- `Operation::merge` for one oneof occurrence: the sub-message merges into the current value when the
    variant is the same, otherwise into a default value that replaces the current operation. -/
def mergeWriteCommandField (wc : WriteCommand) (tag wt : Nat) (bs : List UInt8) :
    Option (WriteCommand × List UInt8) :=
  match tag with
  | 1 =>
    if wt ≠ 2 then none else
    match decLenDelim bs with
    | none => none
    | some (sub, rest) =>
      let cur : PInsert := match wc.operation with | some (.insert i) => i | _ => {}
      (decMessage mergeInsertField sub cur).map fun i => (⟨some (.insert i)⟩, rest)
  | 2 =>
    if wt ≠ 2 then none else
    match decLenDelim bs with
    | none => none
    | some (sub, rest) =>
      let cur : PDelete := match wc.operation with | some (.delete d) => d | _ => {}
      (decMessage mergeDeleteField sub cur).map fun d => (⟨some (.delete d)⟩, rest)
  | 3 =>
    if wt ≠ 2 then none else
    match decLenDelim bs with
    | none => none
    | some (sub, rest) =>
      let cur : PCas := match wc.operation with | some (.cas c) => c | _ => {}
      (decMessage mergeCasField sub cur).map fun c => (⟨some (.cas c)⟩, rest)
  | _ => (skipField wt tag bs).map fun r => (wc, r)

/-- `WriteCommand::decode` -/
def decWriteCommand (bs : List UInt8) : Option WriteCommand := decMessage mergeWriteCommandField bs {}

/-- `decode_entries`, `Payload::Command(data)` branch: decode + `Command::try_from`. -/
def decodeEntryCommand (bs : List UInt8) : Option Command := (decWriteCommand bs).bind toCommand

/-- `client_command_to_entry_payloads(vec![write_op_to_proto(op)])` -/
def encodeEntryPayload (op : WriteOp) : List UInt8 := encWriteCommand (writeOpToProto op)

/-! ## what "exactly as submitted" means -/

/-- Documented convention (proto comment "0 means no expiration (default)", `WriteOperation::Insert::ttl_secs`
    doc "`None` = no expiration. Proto encodes this as `ttl_secs = 0`"): a TTL of 0 *is* "no expiration". -/
def normTtl : Option UInt64 → Option UInt64
  | some t => if t = 0 then none else some t
  | none => none

/-- The command a submitted operation must arrive as. -/
def expectedCommand : WriteOp → Command
  | .insert k v ttl => .insert k v (normTtl ttl)
  | .delete k => .delete k
  | .cas k e v => .cas k e v

/-- Byte strings that can exist in a 64-bit address space (lengths and sub-message lengths are u64 varints). -/
def sized (b : Bytes) : Prop := b.length < 2 ^ 62

def WriteOp.Sized : WriteOp → Prop
  | .insert k v _ => sized k ∧ sized v
  | .delete k => sized k
  | .cas k e v => sized k ∧ (∀ x, e = some x → sized x) ∧ sized v

end DEngine.Codec
