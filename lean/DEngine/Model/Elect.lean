/-
  M-ELECT: per-node election model (family `elect`).  Core Lean only.

  What each definition models (code as it is, same branch order):

  * `isTargetLogMoreRecent`, `ifHigherTermFound`   d-engine-core/src/lib.rs
  * `isMajority`                                   d-engine-core/src/utils/cluster.rs `is_majority`
  * `voteDecision`, `handleVoteRequest`            election/election_handler.rs `ElectionHandler::handle_vote_request`
  * `ifNodeCouldGrant`, `checkVoteRequestIsLegal`  election_handler.rs `if_node_could_grant_the_vote_request`,
                                                   `check_vote_request_is_legal`
  * `tally`                                        election_handler.rs `broadcast_vote_requests` (single-node
                                                   shortcut, `NoVotingMemberFound`, the response loop with its
                                                   early `HigherTerm` / `LogConflict` exits, `required =
                                                   peer_ids.len() + 1`, `is_majority(succeed, required)`)
  * `updateVotedFor`                               raft_role/mod.rs `SharedState::update_voted_for`
  * `notify`                                       raft.rs `Raft::notify_leader_change` (`send_if_modified`)
  * `becomeFollower/Candidate/Leader`, `leaderDiscovered`, `noopCommitted`
                                                   raft.rs `Raft::handle_internal_event`
  * `followerOnVoteReq` … `onVoteReq`              follower/candidate/leader/learner_state.rs
                                                   `handle_inbound_event(ReceiveVoteRequest)` + the
                                                   `BecomeFollower`,`ReprocessEvent` pair they enqueue
  * `followerOnAE`, `onAppendEntries`              role_state.rs `handle_append_entries_request_workflow`
                                                   (term / vote / leader-id part; the log part is M-REPL),
                                                   candidate/leader `handle_inbound_event(AppendEntries)`
  * `startElection`, `finishElection`, `onTimeout` candidate_state.rs `tick`, follower_state.rs `tick`
  * `leaderOnHigherTerm`                           leader_state.rs `handle_append_result` (response.term > term)
  * `Memb`, `applyChange`, `voters`, `isSingleNodeCluster`
                                                   d-engine-server membership/raft_membership.rs (`voters`,
                                                   `initial_cluster_size`, `apply_config_change`, `add_learner`,
                                                   `remove_node`), d-engine-core membership.rs
                                                   `is_single_node_cluster`  (minimal; family `memb` owns the
                                                   full membership model)
  * `Proc`, `stop`, `crash`, `restart`             raft.rs `Drop for Raft` + mod.rs `SharedState` persister (every
                                                   term / vote change is saved when it happens),
                                                   d-engine-server node/builder.rs (`load_hard_state` →
                                                   `FollowerState::new` / `LearnerState::new_with_hard_state`),
                                                   mod.rs `SharedState::new` (term 1)

  Event loop (`raft.rs run`): modelled as atomic handling of one inbound event / tick followed by the
  internal events it enqueued, in order (not verified).
-/
namespace DEngine.Elect

/-- proto `VotedFor` -/
structure VF where
  id : Nat
  term : Nat
  committed : Bool
deriving DecidableEq, Repr, Inhabited

inductive Role where
  | follower | candidate | leader | learner
deriving DecidableEq, Repr, Inhabited

/-- `is_target_log_more_recent(my_last_log_index, my_last_log_term, target_index, target_term)` -/
def isTargetLogMoreRecent (myIdx myTerm tIdx tTerm : Nat) : Bool :=
  decide (tTerm > myTerm) || (decide (tTerm = myTerm) && decide (tIdx ≥ myIdx))

/-- `if_higher_term_found(my_current_term, term, is_learner)` -/
def ifHigherTermFound (my t : Nat) (isLearner : Bool) : Bool :=
  !isLearner && decide (my < t)

/-- `is_majority(num, total)`: `num > total / 2` -/
def isMajority (num total : Nat) : Bool := decide (num > total / 2)

structure VoteReq where
  term : Nat
  cand : Nat
  lli : Nat
  llt : Nat
deriving DecidableEq, Repr, Inhabited

structure VoteResp where
  term : Nat
  granted : Bool
  lli : Nat
  llt : Nat
deriving DecidableEq, Repr, Inhabited

/-- the decision taken inside `handle_vote_request`, in the order of the code -/
inductive VoteDecision where
  | staleTerm | logBehind | alreadyVoted | regrant | grant
deriving DecidableEq, Repr

def VoteDecision.granted : VoteDecision → Bool
  | .regrant => true
  | .grant => true
  | _ => false

def VoteDecision.tag : VoteDecision → String
  | .staleTerm => "vote:stale-term"
  | .logBehind => "vote:log-behind"
  | .alreadyVoted => "vote:already-voted"
  | .regrant => "vote:regrant"
  | .grant => "vote:grant"

def voteDecision (r : VoteReq) (cur : Nat) (vf : Option VF) (lli llt : Nat) : VoteDecision :=
  -- `new_voted_for_option`: a higher request term forgets the old vote
  let vf' := if r.term > cur then none else vf
  if r.term < cur then .staleTerm
  else if !isTargetLogMoreRecent lli llt r.lli r.llt then .logBehind
  else match vf' with
    | some v => if v.term = r.term ∧ v.id = r.cand then .regrant else .alreadyVoted
    | none => .grant

structure StateUpdate where
  termUpdate : Option Nat
  newVote : Option VF
deriving DecidableEq, Repr

def handleVoteRequest (r : VoteReq) (cur : Nat) (vf : Option VF) (lli llt : Nat) : StateUpdate :=
  { termUpdate := if r.term > cur then some r.term else none
    newVote := if (voteDecision r cur vf lli llt).granted then some ⟨r.cand, r.term, false⟩ else none }

/-- `if_node_could_grant_the_vote_request` -/
def ifNodeCouldGrant (r : VoteReq) (vf : Option VF) : Bool :=
  match vf with
  | some v => if v.id = 0 then true else if v.term < r.term then true else false
  | none => true

/-- `check_vote_request_is_legal` (candidate path) -/
def checkVoteRequestIsLegal (r : VoteReq) (cur lli llt : Nat) (vf : Option VF) : Bool :=
  if cur > r.term then false
  else if !isTargetLogMoreRecent lli llt r.lli r.llt then false
  else if vf.isSome && !ifNodeCouldGrant r vf then false
  else true

/-! ### vote tally (`broadcast_vote_requests`) -/

/-- one element of `VoteResult.responses` -/
inductive Resp where
  | ok (granted : Bool) (term lli llt : Nat)
  | err
deriving DecidableEq, Repr

inductive Outcome where
  | wonWithoutVotes                       -- `is_single_node_cluster()` shortcut: `Ok(())`, no RPC
  | noVoters                              -- `ElectionError::NoVotingMemberFound`
  | transportErr                          -- `send_vote_requests` returned `Err`
  | higherTerm (t : Nat)                  -- `ElectionError::HigherTerm(t)`
  | logConflict                           -- `ElectionError::LogConflict`
  | quorumFailure (required succeed : Nat)
  | won                                   -- `Ok(())` after a majority
deriving DecidableEq, Repr

def Outcome.isOk : Outcome → Bool
  | .wonWithoutVotes => true
  | .won => true
  | _ => false

/-- the `for response in vote_result.responses` loop: `none` = ran to the end with `succeed` -/
def tallyLoop (term lli llt : Nat) : List Resp → Nat → Nat ⊕ Outcome
  | [], succeed => .inl succeed
  | .err :: rs, succeed => tallyLoop term lli llt rs succeed
  | .ok true _ _ _ :: rs, succeed => tallyLoop term lli llt rs (succeed + 1)
  | .ok false t rl rt :: rs, succeed =>
      if ifHigherTermFound term t false then .inr (.higherTerm t)
      else if isTargetLogMoreRecent lli llt rl rt then .inr .logConflict
      else tallyLoop term lli llt rs succeed

/-- `single` = `membership.is_single_node_cluster()`, `nVoters` = `membership.voters().len()`,
    `transport` = what `send_vote_requests` returned: `none` = `Err`, `some (nPeerIds, responses)`. -/
def tally (term lli llt : Nat) (single : Bool) (nVoters : Nat)
    (transport : Option (Nat × List Resp)) : Outcome :=
  if single then .wonWithoutVotes
  else if nVoters = 0 then .noVoters
  else match transport with
    | none => .transportErr
    | some (nPeerIds, rs) =>
      match tallyLoop term lli llt rs 1 with
      | .inr o => o
      | .inl succeed =>
        let required := nPeerIds + 1
        if nPeerIds ≠ 0 ∧ isMajority succeed required then .won
        else .quorumFailure required succeed

/-! ### node state -/

/-- value of the leader-change watch: `Option<LeaderInfo{leader_id, term}>` -/
abbrev Pub := Option (Nat × Nat)

structure Node where
  id : Nat
  role : Role
  term : Nat                 -- hard_state.current_term
  vf : Option VF             -- hard_state.voted_for
  leader : Nat               -- current_leader_id (0 = none)
  lli : Nat                  -- raft_log.last_log_id() (0,0 when empty)
  llt : Nat
  watch : Pub                -- current value of the leader-change watch channel
  pubs : List Pub            -- observation log: every value published (newest first), over all incarnations
  noopTerm : Option Nat      -- `LeaderNoop{term}` pending in `pending_commit_actions`
deriving DecidableEq, Repr, Inhabited

/-- the `is_new_commit` result of `SharedState::update_voted_for` -/
def isNewCommit (n : Node) (v : VF) : Bool :=
  match n.vf with
  | some old => v.committed && (old.id != v.id || old.term != v.term || !old.committed || n.leader == 0)
  | none => v.committed

/-- `SharedState::update_voted_for` → (state, is_new_commit) -/
def updateVotedFor (n : Node) (v : VF) : Node × Bool :=
  ({ n with vf := some v }, isNewCommit n v)

/-- `Raft::notify_leader_change(leader_id, term)` with `send_if_modified` -/
def notify (n : Node) (lid : Option Nat) (term : Nat) : Node :=
  let v : Pub := lid.map (fun l => (l, term))
  if n.watch = v then n else { n with watch := v, pubs := v :: n.pubs }

/-- only a vote of an older term is forgotten by a step-down (fix 65007c0; before it every vote was) -/
def keepCurrentVote (term : Nat) (vf : Option VF) : Option VF :=
  match vf with
  | some v => if v.term < term then none else some v
  | none => none

/-- `InternalEvent::BecomeFollower(lid)`: `become_follower()?` fails for a follower (nothing else happens);
    otherwise role change, reset of a stale vote, notify `(lid, current_term)`. -/
def becomeFollower (n : Node) (lid : Option Nat) : Node :=
  match n.role with
  | .follower => n
  | _ => notify { n with role := .follower, vf := keepCurrentVote n.term n.vf, noopTerm := none } lid n.term

/-- `InternalEvent::BecomeCandidate` (only a follower can) -/
def becomeCandidate (n : Node) : Node :=
  match n.role with
  | .follower => notify { n with role := .candidate } none n.term
  | _ => n

/-- `InternalEvent::BecomeLeader` (only a candidate can): leader id := self, vote := (self, term, committed),
    noop entry proposed (`initiate_noop_commit`). No notification here. -/
def becomeLeader (n : Node) : Node :=
  match n.role with
  | .candidate =>
    let n1 := { n with role := .leader, leader := n.id }
    let n2 := (updateVotedFor n1 ⟨n.id, n.term, true⟩).1
    { n2 with noopTerm := some n.term }
  | _ => n

/-- `InternalEvent::LeaderDiscovered(l, t)` -/
def leaderDiscovered (n : Node) (l t : Nat) : Node := notify n (some l) t

/-- `InternalEvent::NoopCommitted{term}` -/
def noopCommitted (n : Node) (t : Nat) : Node := notify n (some n.id) t

/-! ### ReceiveVoteRequest per role -/

def denyResp (n : Node) : VoteResp := ⟨n.term, false, n.lli, n.llt⟩

/-- follower_state.rs: apply `StateUpdate`; the response carries the *old* term -/
def followerOnVoteReq (n : Node) (r : VoteReq) : Node × VoteResp :=
  let su := handleVoteRequest r n.term n.vf n.lli n.llt
  let n1 := match su.termUpdate with
    | some t => { n with term := t }
    | none => n
  let n2 := match su.newVote with
    | some v => (updateVotedFor n1 v).1
    | none => n1
  (n2, ⟨n.term, su.newVote.isSome, n.lli, n.llt⟩)

/-- candidate_state.rs: legal ⇒ adopt term, `BecomeFollower(None)`, replay on the follower; else deny -/
def candidateOnVoteReq (n : Node) (r : VoteReq) : Node × VoteResp :=
  if checkVoteRequestIsLegal r n.term n.lli n.llt n.vf then
    followerOnVoteReq (becomeFollower { n with term := r.term } none) r
  else (n, denyResp n)

/-- leader_state.rs: higher term ⇒ adopt term, `BecomeFollower(None)`, replay; else deny -/
def leaderOnVoteReq (n : Node) (r : VoteReq) : Node × VoteResp :=
  if n.term < r.term then
    followerOnVoteReq (becomeFollower { n with term := r.term } none) r
  else (n, denyResp n)

/-- learner_state.rs: adopt a higher term, never vote -/
def learnerOnVoteReq (n : Node) (r : VoteReq) : Node × VoteResp :=
  (if r.term > n.term then { n with term := r.term } else n, denyResp n)

def onVoteReq (n : Node) (r : VoteReq) : Node × VoteResp :=
  match n.role with
  | .follower => followerOnVoteReq n r
  | .candidate => candidateOnVoteReq n r
  | .leader => leaderOnVoteReq n r
  | .learner => learnerOnVoteReq n r

def voteReqTag (n : Node) (r : VoteReq) : String :=
  match n.role with
  | .follower => "f-" ++ (voteDecision r n.term n.vf n.lli n.llt).tag
  | .candidate =>
    if checkVoteRequestIsLegal r n.term n.lli n.llt n.vf then
      "c-stepdown-" ++ (voteDecision r r.term none n.lli n.llt).tag
    else "c-deny"
  | .leader => if n.term < r.term then "l-stepdown" else "l-deny"
  | .learner => "learner-deny"

/-! ### AppendEntries (term / vote / leader-id part) -/

inductive AeOut where
  | accepted                 -- went on to the replication handler
  | higherTerm (t : Nat)     -- `AppendEntriesResponse::higher_term(my_term)`
deriving DecidableEq, Repr

/-- `handle_append_entries_request_workflow` + the `LeaderDiscovered` event it enqueues:
    `update_voted_for({leader, term, committed})` (its `is_new_commit` is computed from the old vote and the old
    leader id), `set_current_leader`, term adoption, then `LeaderDiscovered` if it was a new commitment. -/
def followerOnAE (n : Node) (t l : Nat) : Node × AeOut :=
  if n.term > t then (n, .higherTerm n.term)
  else
    let n3 : Node := { n with vf := some ⟨l, t, true⟩, leader := l, term := if n.term < t then t else n.term }
    (if isNewCommit n ⟨l, t, true⟩ then leaderDiscovered n3 l t else n3, .accepted)

def onAppendEntries (n : Node) (t l : Nat) : Node × AeOut :=
  match n.role with
  | .follower => followerOnAE n t l
  | .learner => followerOnAE n t l
  | .candidate =>
    if t ≥ n.term then
      -- set_current_leader, adopt higher term, BecomeFollower(None), replay
      let n1 := { n with leader := l, term := if t > n.term then t else n.term }
      followerOnAE (becomeFollower n1 none) t l
    else (n, .higherTerm n.term)
  | .leader =>
    if n.term ≥ t then (n, .higherTerm n.term)
    else
      -- the request term is adopted before `BecomeFollower(Some(leader_id))` (fix 05b4801)
      followerOnAE (becomeFollower { n with term := t } (some l)) t l

def aeTag (n : Node) (t : Nat) : String :=
  match n.role with
  | .follower => if n.term > t then "f-ae-stale" else "f-ae"
  | .learner => if n.term > t then "learner-ae-stale" else "learner-ae"
  | .candidate => if t ≥ n.term then (if t = n.term then "c-ae-same-term" else "c-ae-higher") else "c-ae-stale"
  | .leader => if n.term ≥ t then "l-ae-stale" else "l-ae-stepdown"

/-! ### timers -/

/-- candidate tick, first half: `increase_current_term`, `reset_voted_for`, `vote_myself` -/
def startElection (n : Node) : Node :=
  (updateVotedFor { n with term := n.term + 1, vf := none } ⟨n.id, n.term + 1, false⟩).1

/-- candidate tick, second half: reaction to the result of `broadcast_vote_requests` -/
def finishElection (n : Node) (o : Outcome) : Node :=
  match o with
  | .won => becomeLeader n
  | .wonWithoutVotes => becomeLeader n
  | .higherTerm t => becomeFollower { n with term := t } none
  | _ => n

/-- `tick` once the deadline has passed. `single`, `nVoters`, `transport` describe what
    `broadcast_vote_requests` sees (only used by a candidate). -/
def onTimeout (n : Node) (single : Bool) (nVoters : Nat) (transport : Option (Nat × List Resp)) :
    Node × Option Outcome :=
  match n.role with
  | .follower => (becomeCandidate n, none)
  | .candidate =>
    let n1 := startElection n
    let o := tally n1.term n1.lli n1.llt single nVoters transport
    (finishElection n1 o, some o)
  | _ => (n, none)

/-- leader_state.rs `handle_append_result`: `response.term > current_term` ⇒ adopt, `BecomeFollower(None)` -/
def leaderOnHigherTerm (n : Node) (t : Nat) : Node :=
  match n.role with
  | .leader => if t > n.term then becomeFollower { n with term := t } none else n
  | _ => n

/-! ### membership (minimal) -/

structure MNode where
  id : Nat
  learner : Bool       -- role == Learner
  status : Nat         -- NodeStatus as i32 (3 = Active)
deriving DecidableEq, Repr, Inhabited

structure Memb where
  self : Nat
  initSize : Nat       -- `initial_cluster_size` (immutable)
  nodes : List MNode   -- keyed by id
deriving DecidableEq, Repr, Inhabited

inductive Change where
  | addNode (id status : Nat)          -- status already through `try_from(..).unwrap_or(Promotable)`
  | removeNode (id : Nat)
  | promote (id : Nat)
  | batchPromote (ids : List Nat) (status : Nat)
  | batchRemove (ids : List Nat)
deriving DecidableEq, Repr

def Memb.voters (m : Memb) : List Nat :=
  (m.nodes.filter fun n => n.id != m.self && n.status == 3).map (·.id)

/-- `is_single_node_cluster()`: configured alone AND still without any other voter (fix 16342b6; before it
    only `initial_cluster_size == 1`) -/
def Memb.isSingleNodeCluster (m : Memb) : Bool := m.initSize == 1 && m.voters.isEmpty

def Memb.mk' (self : Nat) (initial : List MNode) : Memb := ⟨self, initial.length, initial⟩

def promoteIn (nodes : List MNode) (id status : Nat) : Option (List MNode) :=
  if nodes.any (·.id == id) then
    some (nodes.map fun n => if n.id == id then { n with learner := false, status := status } else n)
  else none

/-- `for node_id in ids { get_mut(node_id).ok_or(..)?; … }` — stops at the first missing id, earlier
    promotions stay applied -/
def batchPromoteIn (nodes : List MNode) (status : Nat) : List Nat → List MNode × Bool
  | [] => (nodes, true)
  | id :: ids =>
    match promoteIn nodes id status with
    | some ns => batchPromoteIn ns status ids
    | none => (nodes, false)

/-- `apply_config_change` → (membership, Ok?) -/
def Memb.apply (m : Memb) : Change → Memb × Bool
  | .addNode id status =>
    match m.nodes.find? (·.id == id) with
    | some e => (m, e.learner)     -- idempotent for a learner, `NodeAlreadyExists` otherwise
    | none => ({ m with nodes := m.nodes ++ [⟨id, true, status⟩] }, true)
  | .removeNode id => ({ m with nodes := m.nodes.filter (·.id != id) }, true)
  | .promote id =>
    match promoteIn m.nodes id 3 with
    | some ns => ({ m with nodes := ns }, true)
    | none => (m, false)
  | .batchPromote ids status =>
    let (ns, ok) := batchPromoteIn m.nodes status ids
    ({ m with nodes := ns }, ok)
  | .batchRemove ids => ({ m with nodes := m.nodes.filter fun n => !ids.contains n.id }, true)

def Memb.applyAll (m : Memb) (cs : List Change) : Memb := cs.foldl (fun m c => (m.apply c).1) m

/-- result of `broadcast_vote_requests` on membership `m` -/
def broadcastOutcome (m : Memb) (term lli llt : Nat) (transport : Option (Nat × List Resp)) : Outcome :=
  tally term lli llt m.isSingleNodeCluster m.voters.length transport

/-! ### process = node + persistence image + membership -/

structure Hard where
  term : Nat
  vf : Option VF
deriving DecidableEq, Repr, Inhabited

structure Proc where
  node : Node
  up : Bool
  image : Option Hard        -- content of the meta store (`hard_state`)
  memb : Memb
  initial : List MNode       -- `cluster.initial_cluster` (membership is rebuilt from it at start)
  startLearner : Bool        -- `node_config.is_learner()`
deriving Repr, Inhabited

/-- `NodeBuilder::build`: `FollowerState::new(load_hard_state())` / `LearnerState::new_with_hard_state(..)`
    (fix b8fde38: the learner gets the stored hard state too); `SharedState::new`: no hard state ⇒ term 1,
    no vote. Fresh watch channel (value `None`). -/
def bootNode (id : Nat) (learner : Bool) (image : Option Hard) (lli llt : Nat) (pubs : List Pub) : Node :=
  let h : Hard := image.getD ⟨1, none⟩
  { id := id, role := if learner then .learner else .follower, term := h.term, vf := h.vf, leader := 0,
    lli := lli, llt := llt, watch := none, pubs := pubs, noopTerm := none }

/-- graceful stop: `Drop for Raft` saves the hard state -/
def Proc.stop (p : Proc) : Proc :=
  if p.up then { p with up := false, image := some ⟨p.node.term, p.node.vf⟩ } else p

/-- crash: no `Drop`. Since fix c4109f0 every mutator of `SharedState` (`update_current_term`,
    `increase_current_term`, `reset_voted_for`, `update_voted_for`) saves the hard state when it changed, so the
    meta store always holds the in-memory term and vote: a crash loses nothing. -/
def Proc.crash (p : Proc) : Proc :=
  if p.up then { p with up := false, image := some ⟨p.node.term, p.node.vf⟩ } else p

def Proc.restart (p : Proc) : Proc :=
  if p.up then p
  else { p with up := true
                node := bootNode p.node.id p.startLearner p.image p.node.lli p.node.llt p.node.pubs
                memb := Memb.mk' p.memb.self p.initial }

/-! ### the internal event queue (`raft.rs`: `drain_internal_events`, `process_internal_events`,
    `handle_internal_event(NotifyNewCommitIndex)`) -/

/-- the internal events that touch term, role or the leader-change watch -/
inductive IEv where
  | commitIdx (k : Nat)                 -- NotifyNewCommitIndex
  | noopCommitted (t : Nat)             -- NoopCommitted{term}
  | becomeFollower (lid : Option Nat)
  | becomeCandidate
  | leaderDiscovered (l t : Nat)
  | higherTermReply (t : Nat)           -- AppendResult whose response carries a higher term
deriving DecidableEq, Repr

structure IQ where
  node : Node
  buffer : List IEv                     -- buffered_internal_event
  channel : List IEv                    -- internal_event_rx
  log : List (Role × Nat × Option Pub)  -- after each handled event: role, term, value published by it (newest first)
deriving Repr

/-- `NotifyNewCommitIndex`: merge the commit notifications that follow in the channel (at most `maxBatch` in all);
    the first event of another kind is taken out of the channel and — since fix a9db8e0 — appended to the buffer,
    i.e. it keeps its place in front of everything still in the channel.  `resend = true` is the rule before the fix:
    the event was sent to the channel again, i.e. moved behind everything queued after it. -/
def mergeCommits (resend : Bool) : Nat → List IEv → List IEv → List IEv × List IEv
  | 0, buffer, channel => (buffer, channel)
  | _ + 1, buffer, [] => (buffer, [])
  | fuel + 1, buffer, .commitIdx _ :: rest => mergeCommits resend fuel buffer rest
  | _ + 1, buffer, other :: rest => if resend then (buffer, rest ++ [other]) else (buffer ++ [other], rest)

/-- `handle_internal_event` for one event; a publication is recognised by the growth of `pubs` -/
def handleIEv (resend : Bool) (maxBatch : Nat) (q : IQ) (e : IEv) : IQ :=
  let (n', buffer', channel') : Node × List IEv × List IEv :=
    match e with
    | .commitIdx _ =>
      let (b, c) := mergeCommits resend (maxBatch - 1) q.buffer q.channel
      (q.node, b, c)
    | .noopCommitted t => (noopCommitted q.node t, q.buffer, q.channel)
    | .becomeFollower lid => (becomeFollower q.node lid, q.buffer, q.channel)
    | .becomeCandidate => (becomeCandidate q.node, q.buffer, q.channel)
    | .leaderDiscovered l t => (leaderDiscovered q.node l t, q.buffer, q.channel)
    | .higherTermReply t =>
      -- leader_state.rs handle_append_result: adopt the term now, `BecomeFollower(None)` goes to the channel tail
      match q.node.role with
      | .leader => if t > q.node.term then ({ q.node with term := t }, q.buffer, q.channel ++ [.becomeFollower none])
                   else (q.node, q.buffer, q.channel)
      | _ => (q.node, q.buffer, q.channel)
  let published : Option Pub := if n'.pubs.length > q.node.pubs.length then n'.pubs.head? else none
  { node := n', buffer := buffer', channel := channel', log := (n'.role, n'.term, published) :: q.log }

/-- the loop: process the buffer; when it is empty, receive + drain (`1 + maxBatch` events at most) and go on -/
def runIQ (resend : Bool) (maxBatch : Nat) : Nat → IQ → IQ
  | 0, q => q
  | fuel + 1, q =>
    match q.buffer with
    | e :: rest => runIQ resend maxBatch fuel (handleIEv resend maxBatch { q with buffer := rest } e)
    | [] =>
      match q.channel with
      | [] => q
      | _ => runIQ resend maxBatch fuel { q with buffer := q.channel.take (maxBatch + 1), channel := q.channel.drop (maxBatch + 1) }

/-- a node announces itself as leader only while it holds the role -/
def selfAnnounceOK (self : Nat) (log : List (Role × Nat × Option Pub)) : Bool :=
  log.all fun x => match x.2.2 with
    | some (some (l, _)) => !(l == self) || x.1 == .leader
    | _ => true

end DEngine.Elect
