/-
  M-CONF: model of `RaftConfig::validate` and its sub-validators
  (d-engine-core/src/config/raft.rs, config/lease.rs). Fields are the numeric fields the validators
  look at, all as `UInt64` (u64 / usize on a 64-bit target; u32 fields are only compared with 0).
  Non-numeric checks (`snapshots_dir` non-empty and writable, probe service name non-empty) are held
  at their valid defaults by the harness and not modelled.
  The order of checks is the order of the source, so the error tag is the first failing check.
-/
namespace DEngine.Conf

structure Cfg where
  learnerCatchup : UInt64      -- learner_catchup_threshold
  generalTimeout : UInt64      -- general_raft_timeout_duration_in_ms
  hb : UInt64                  -- replication.rpc_append_entries_clock_in_ms
  perRepl : UInt64             -- replication.append_entries_max_entries_per_replication
  maxBatch : UInt64            -- batching.max_batch_size
  maxMerge : UInt64            -- batching.max_merge_entries
  emin : UInt64                -- election.election_timeout_min
  emax : UInt64                -- election.election_timeout_max
  peerMon : UInt64             -- election.rpc_peer_connectinon_monitor_interval_in_sec
  cleanupInterval : UInt64     -- state_machine.lease.cleanup_interval_ms
  maxCleanup : UInt64          -- state_machine.lease.max_cleanup_duration_ms
  maxLogBeforeSnap : UInt64    -- snapshot.max_log_entries_before_snapshot
  retainCount : UInt64         -- snapshot.cleanup_retain_count
  chunkSize : UInt64           -- snapshot.chunk_size
  retained : UInt64            -- snapshot.retained_log_entries
  senderYield : UInt64
  receiverYield : UInt64
  pushQueue : UInt64
  recvChunkTimeout : UInt64
  pushMaxRetry : UInt64
  lease : UInt64               -- read_consistency.lease_duration_ms
  rtt : UInt64                 -- read_consistency.network_rtt_p99_ms
  raCapacity : UInt64          -- read_actor.channel_capacity
  raMaxDrain : UInt64          -- read_actor.max_drain
  evQueue : UInt64             -- watch.event_queue_size
  watcherBuf : UInt64          -- watch.watcher_buffer_size
  idleFlush : UInt64           -- persistence.flush_policy.idle_flush_interval_ms
deriving Repr

/-- `u64::saturating_add`. -/
def satAdd (a b : UInt64) : UInt64 :=
  if a.toNat + b.toNat ≥ 2 ^ 64 then (0xFFFFFFFFFFFFFFFF : UInt64) else a + b

/-- The checks in source order: (condition that makes the validator return `Err`, tag). -/
def checks (c : Cfg) : List (Bool × String) :=
  [ (c.learnerCatchup == 0, "learner_catchup"),
    (c.generalTimeout < 1, "general_timeout"),
    -- replication.validate
    (c.hb == 0, "heartbeat"),
    (c.perRepl == 0, "per_replication"),
    -- batching.validate
    (c.maxBatch == 0, "max_batch"),
    (c.maxMerge == 0, "max_merge"),
    -- election.validate
    (c.emin ≥ c.emax, "election_min_max"),
    (c.peerMon == 0, "peer_monitor"),
    -- membership.validate: probe service name (held at default)
    -- state_machine.lease.validate
    (!(100 ≤ c.cleanupInterval && c.cleanupInterval ≤ 60000), "cleanup_interval"),
    (!(1 ≤ c.maxCleanup && c.maxCleanup ≤ 100), "max_cleanup"),
    -- snapshot.validate
    (c.maxLogBeforeSnap == 0, "max_log_before_snapshot"),
    (c.retainCount == 0, "retain_count"),
    (c.chunkSize == 0, "chunk_size"),
    (c.retained < 1, "retained"),
    (c.senderYield < 1, "sender_yield"),
    (c.receiverYield < 1, "receiver_yield"),
    (c.pushQueue < 1, "push_queue"),
    (c.recvChunkTimeout == 0, "recv_chunk_timeout"),
    (c.pushMaxRetry < 1, "push_max_retry"),
    -- read_consistency.validate(election_timeout_min)
    (c.lease == 0, "lease_zero"),
    (satAdd c.lease (c.rtt / 2) ≥ c.emin, "lease_vs_election"),
    -- read_actor.validate
    (c.raCapacity == 0, "ra_capacity"),
    (c.raMaxDrain == 0, "ra_max_drain"),
    -- watch.validate
    (c.evQueue == 0, "event_queue"),
    (c.watcherBuf == 0, "watcher_buffer"),
    -- persistence.validate
    (c.idleFlush == 0, "idle_flush") ]

/-- First failing check, in source order; `none` = `Ok(())`. -/
def validate (c : Cfg) : Option String :=
  ((checks c).find? (·.1)).map (·.2)

/-- The safety constraints property C34 names, over mathematical naturals (no wrap-around). -/
def Safe (c : Cfg) : Prop :=
  c.lease.toNat + c.rtt.toNat / 2 < c.emin.toNat ∧
  c.emin.toNat < c.emax.toNat ∧
  c.hb.toNat ≠ 0 ∧ c.maxBatch.toNat ≠ 0 ∧ c.maxMerge.toNat ≠ 0 ∧ c.perRepl.toNat ≠ 0 ∧
  1 ≤ c.retained.toNat

instance (c : Cfg) : Decidable (Safe c) := by unfold Safe; exact inferInstance

/-- Monitor used on implementation outputs: an accepted config must be `Safe`. -/
def monitorC34 (c : Cfg) (implOut : String) : String :=
  if implOut == "ok" then (if decide (Safe c) then "ok" else "bad accepted-unsafe-config")
  else "skip"

end DEngine.Conf
