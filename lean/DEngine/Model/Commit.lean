import DEngine.Model.Memb
/-
  M-REPL (commit part): model of the leader's commit-index computation and peer-index bookkeeping.

  Models (code as it is):
  * d-engine-core/src/storage/buffered_raft_log.rs `calculate_majority_matched_index`
      (push own `last_entry_id`, sort descending, element `len/2`, `>= commit`, term check through
       `entry(idx)`), `last_index_for_term`
  * d-engine-core/src/raft_role/leader_state.rs `calculate_new_commit_index` (voter filter over the
      non-learner entries of the cached `replication_targets`, `match_index.get(id).unwrap_or(0)`
      — code as of fix 6ed8b1f), `update_match_index` (only advances — so a 0 is never stored), `update_next_index` (floor
      `match+1`), `update_peer_index`, `init_peers_next_index_and_match_index`,
      `handle_append_result`, `handle_log_flushed`, `handle_membership_applied`,
      `update_cluster_metadata`/`init_cluster_metadata`, `check_learner_progress` →
      `find_promotable_learners` / `is_learner_caught_up` / `deduplicate_promotions`
  * d-engine-core/src/replication/replication_handler.rs `handle_success_response`,
      `handle_conflict_response`
-/
namespace DEngine.Commit
open DEngine.Memb

abbrev IdxMap := List (Nat × Nat)

def mget (m : IdxMap) (k : Nat) : Option Nat := (m.find? (·.1 == k)).map (·.2)
def mgetD (m : IdxMap) (k : Nat) : Nat := (mget m k).getD 0
def mset (m : IdxMap) (k v : Nat) : IdxMap := m.map fun e => if e.1 == k then (k, v) else e
def minsert (m : IdxMap) (k v : Nat) : IdxMap :=
  if (mget m k).isSome then mset m k v else m ++ [(k, v)]

/-- `entry(idx)` of a log without purged prefix: `log[i]` is the term of index `i+1`. -/
def entryTerm (log : List Nat) (idx : Nat) : Option Nat :=
  if idx == 0 then none else log[idx - 1]?

/-- insertion into a descending list -/
def insDesc (a : Nat) : List Nat → List Nat
  | [] => [a]
  | b :: l => if b ≤ a then a :: b :: l else b :: insDesc a l

/-- `sort_unstable_by(|a, b| b.cmp(a))` (any correct descending sort gives the same list) -/
def sortDesc (l : List Nat) : List Nat := l.foldr insDesc []

/-- `BufferedRaftLog::calculate_majority_matched_index(current_term, commit_index, peer_matched_ids)` -/
def calcMajority (term commit : Nat) (ms : List Nat) (log : List Nat) : Option Nat :=
  let v := sortDesc (ms ++ [log.length])
  let n := v.getD (v.length / 2) 0
  if n < commit then none
  else match entryTerm log n with
    | some t => if t == term then some n else none
    | none => none

/-- `last_index_for_term(term)` (append-only log: last position holding that term). -/
def lastIndexForTerm (log : List Nat) (term : Nat) : Option Nat :=
  let idxs := (List.range log.length).filter fun i => log[i]? == some term
  idxs.getLast?.map (· + 1)

structure Leader where
  self : Nat := 1
  term : Nat
  commit : Nat
  log : List Nat
  matchIdx : IdxMap := []
  nextIdx : IdxMap := []
  view : View                         -- the node's RaftMembership
  targets : List Node := []           -- cluster_metadata.replication_targets (cached)
  totalVoters : Nat := 0              -- cluster_metadata.total_voters
  singleVoter : Bool := false
  pending : List Nat := []            -- pending_promotions (ids)
  catchup : Nat := 1
deriving Repr, Inhabited

def isVoterTarget (targets : List Node) (id : Nat) : Bool :=
  targets.any fun n => n.id == id && n.role != rLearner
def isLearnerTarget (targets : List Node) (id : Nat) : Bool :=
  targets.any fun n => n.id == id && n.role == rLearner

/-- peers that are voters by role in the leader's cached configuration -/
def voterPeers (targets : List Node) : List Nat := (targets.filter fun n => n.role != rLearner).map (·.id)

/-- the vector handed to `calculate_majority_matched_index` (after fix 6ed8b1f): one value per
    non-learner replication target, `match_index.get(id).unwrap_or(0)` -/
def voterMatches (s : Leader) : List Nat := (voterPeers s.targets).map (mgetD s.matchIdx)

/-- the vector before fix 6ed8b1f (defect F30): only the entries *present* in `match_index` -/
def voterMatchesSparse (s : Leader) : List Nat :=
  (s.matchIdx.filter fun e => isVoterTarget s.targets e.1).map (·.2)

/-- `LeaderState::calculate_new_commit_index` -/
def calcNewCommit (s : Leader) : Option Nat :=
  match calcMajority s.term s.commit (voterMatches s) s.log with
  | some n => if n > s.commit then some n else none
  | none => none

/-- `update_match_index` -/
def updateMatch (s : Leader) (id m : Nat) : Leader :=
  if m > mgetD s.matchIdx id then { s with matchIdx := minsert s.matchIdx id m } else s

/-- `update_next_index` -/
def updateNext (s : Leader) (id n : Nat) : Leader :=
  { s with nextIdx := minsert s.nextIdx id (max n (mgetD s.matchIdx id + 1)) }

structure PeerUpdate where
  matchIndex : Option Nat
  nextIndex : Nat
  success : Bool

/-- `update_peer_index` -/
def updatePeerIndex (s : Leader) (id : Nat) (u : PeerUpdate) : Leader :=
  let s1 := if u.success then updateNext s id (max u.nextIndex ((mget s.nextIdx id).getD 1))
            else updateNext s id u.nextIndex
  match u.matchIndex with
  | some m => updateMatch s1 id m
  | none => s1

/-- `init_peers_next_index_and_match_index` -/
def initPeers (s : Leader) (ids : List Nat) : Leader :=
  ids.foldl (fun acc id => updateMatch (updateNext acc id (acc.log.length + 1)) id 0) s

/-- `update_cluster_metadata` / `init_cluster_metadata` -/
def refreshMetadata (s : Leader) : Leader :=
  let tv := (voters s.self s.view.nodes).length + 1
  { s with targets := replicationPeers s.self s.view.nodes, totalVoters := tv, singleVoter := tv == 1 }

inductive AckResult where
  | success (matchIdx : Nat)
  | conflict (ct ci : Option Nat)
  | higherTerm (t : Nat)

/-- `handle_conflict_response` -/
def conflictNext (log : List Nat) (ct ci : Option Nat) (curNext : Nat) : Nat :=
  let n := match ct, ci with
    | some t, some i => match lastIndexForTerm log t with
        | some l => l + 1
        | none => i
    | none, some i => i
    | _, _ => curNext - 1
  max n 1

/-- `find_promotable_learners` + `deduplicate_promotions`, result sorted by id. -/
def newPromotions (s : Leader) : List Nat :=
  let learners := s.matchIdx.filter fun e => isLearnerTarget s.targets e.1
  let ready := learners.filter fun e =>
    contains s.view.nodes e.1 && caughtUp (some e.2) s.commit s.catchup
      && ((find? s.view.nodes e.1).map (·.status)).getD sReadOnly == sPromotable
  ((ready.map (·.1)).filter fun id => !s.pending.contains id).mergeSort (· ≤ ·)

/-- `check_learner_progress` as called from `handle_append_result` (throttle 0): only `pending` changes -/
def learnerCheck (s : Leader) : Leader × List String :=
  let hasLearner := s.matchIdx.any fun e => isLearnerTarget s.targets e.1
  let np := if hasLearner then newPromotions s else []
  if np.isEmpty then (s, []) else ({ s with pending := s.pending ++ np }, ["PR"])

/-- the part of `handle_append_result` after the response was turned into a `PeerUpdate` -/
def afterUpdate (s : Leader) (peer : Nat) (u : PeerUpdate) : Leader × List String × String :=
  let isVoter := isVoterTarget s.targets peer
  let s1 := updatePeerIndex s peer u
  let r2 := if !isVoter then learnerCheck s1 else (s1, [])
  if u.success && isVoter then
    match calcNewCommit r2.1 with
    | some n => ({ r2.1 with commit := n }, r2.2 ++ [s!"N{n}"], "ack:voter-commit")
    | none => (r2.1, r2.2, "ack:voter-nocommit")
  else (r2.1, r2.2, if u.success then "ack:nonvoter-success" else if isVoter then "ack:voter-conflict" else "ack:nonvoter-conflict")

/-- `handle_append_result`; returns new state, events, branch tag. -/
def handleAppendResult (s : Leader) (peer respTerm : Nat) (r : AckResult) : Leader × List String × String :=
  if respTerm < s.term then (s, [], "ack:stale-term")
  else if respTerm > s.term then ({ s with term := respTerm }, ["BF", "!higher-term"], "ack:higher-term")
  else match r with
    | .success m => afterUpdate s peer { matchIndex := some m, nextIndex := m + 1, success := true }
    | .conflict ct ci =>
      afterUpdate s peer { matchIndex := none, nextIndex := conflictNext s.log ct ci ((mget s.nextIdx peer).getD 1), success := false }
    | .higherTerm t =>
      if t > s.term then ({ s with term := t }, ["BF", "!higher-term"], "ack:embedded-higher-term")
      else (s, [], "ack:embedded-term-ignored")

/-- `handle_log_flushed`. `none` = the `debug_assert!(last >= durable)` fires (panic). -/
def handleLogFlushed (s : Leader) (durable : Nat) : Option (Leader × List String × String) :=
  if s.singleVoter then
    if s.log.length < durable then none
    else if s.log.length > s.commit then
      some ({ s with commit := s.log.length }, [s!"N{s.log.length}"], "flush:single-commit")
    else some (s, [], "flush:single-nocommit")
  else match calcNewCommit s with
    | some n => some ({ s with commit := n }, [s!"N{n}"], "flush:quorum-commit")
    | none => some (s, [], "flush:quorum-nocommit")

/-- membership change applied by the commit handler, then `handle_membership_applied`. -/
def handleChange (s : Leader) (c : Change) : Leader × List String × String :=
  let r := applyChange s.view c
  match r.2.1 with
  | some e => ({ s with view := r.1 }, [s!"!{e.tag}"], "change:" ++ r.2.2)
  | none =>
    let old := s.targets
    let s1 := refreshMetadata { s with view := r.1 }
    let added := (s1.targets.filter fun n => !(old.any fun o => o.id == n.id)).map (·.id)
    (initPeers s1 added, [], "change:" ++ r.2.2)

inductive Op where
  | ack (peer respTerm : Nat) (r : AckResult)
  | flushed (durable : Nat)
  | append (n : Nat)
  | change (c : Change)
  | bad

def step (s : Leader) : Op → Option (Leader × List String × String)
  | .ack p t r => some (handleAppendResult s p t r)
  | .flushed d => handleLogFlushed s d
  | .append n => some ({ s with log := s.log ++ List.replicate n s.term }, [], "append")
  | .change c => some (handleChange s c)
  | .bad => some (s, ["!bad-op"], "bad-op")

/-- state right after `BecomeLeader` (without the noop proposal): term/commit/log given. -/
def initLeader (term commit catchup : Nat) (log : List Nat) (nodes : List Node) : Leader :=
  let s : Leader := { term := term, commit := 0, log := log, view := { nodes := nodes }, catchup := catchup }
  let s := initPeers s (nodes.map (·.id))
  let s := refreshMetadata s
  if commit > 0 then { s with commit := commit } else s

/-! ### canonical printing -/
def showMap (m : IdxMap) : String :=
  if m.isEmpty then "-" else
  ",".intercalate ((m.mergeSort fun a b => a.1 ≤ b.1).map fun e => s!"{e.1}:{e.2}")

def record (s : Leader) (ev : List String) : String :=
  s!"c{s.commit} t{s.term} m[{showMap s.matchIdx}] n[{showMap s.nextIdx}] p[{showIds s.pending}] e[{if ev.isEmpty then "-" else ",".intercalate ev}]"

/-- run all ops; `none` = panic. Returns records and tags. -/
def runOps : Leader → List Op → List String → List String → Option (List String × List String × Leader)
  | s, [], recs, tags => some (recs.reverse, tags.reverse, s)
  | s, op :: rest, recs, tags =>
    match step s op with
    | none => none
    | some (s', ev, tag) => runOps s' rest (record s' ev :: recs) (tag :: tags)

/-- state-only run (what the theorems talk about). -/
def run (s : Leader) : List Op → Option Leader
  | [] => some s
  | op :: rest => match step s op with
    | none => none
    | some (s', _, _) => run s' rest

/-! ### C09 judgement of one observed transition (the decidable form of the theorems in Props/C09) -/

/-- what the implementation shows after a step -/
structure Obs where
  commit : Nat
  term : Nat
  matchIdx : IdxMap
  nextIdx : IdxMap
deriving Repr, Inhabited

def Leader.obs (s : Leader) : Obs :=
  { commit := s.commit, term := s.term, matchIdx := s.matchIdx, nextIdx := s.nextIdx }

def countGE (n : Nat) (l : List Nat) : Nat := (l.filter fun x => decide (n ≤ x)).length

/-- number of voters (self included) known to hold index `n`: self holds its whole log. -/
def holders (n : Nat) (ids : List Nat) (m : IdxMap) : Nat := 1 + countGE n (ids.map (mgetD m))

/-- voter role implies status Active (the premise under which `voters()` and the commit filter agree) -/
def voterRolesActive (self : Nat) (ns : List Node) : Bool :=
  ns.all fun n => n.id == self || n.role == rLearner || n.status == sActive

/-- `none` = the transition satisfies C09; `some sig` = how it fails. `log`, `targets` are the
    leader's log / cached configuration after the step, `pre`/`post` the observed leader state. -/
def judge (log : List Nat) (targets : List Node) (pre post : Obs) : Option String :=
  if post.commit < pre.commit then some "commit-regressed"
  else if pre.matchIdx.any (fun e => mgetD post.matchIdx e.1 < e.2) then some "match-regressed"
  else if post.nextIdx.any (fun e => e.2 < mgetD post.matchIdx e.1 + 1) then some "next-below-match"
  else if post.commit > pre.commit then
    let n := post.commit
    let vp := voterPeers targets
    if n > log.length then some "commit-beyond-log"
    else if holders n vp post.matchIdx * 2 ≤ vp.length + 1 then
      let tracked := vp.filter fun id => (mget post.matchIdx id).isSome
      if holders n tracked post.matchIdx * 2 > tracked.length + 1 then some "commit-majority-of-tracked-voters-only"
      else some "commit-without-voter-majority"
    else if vp.length > 0 && entryTerm log n != some post.term then some "commit-wrong-term"
    else none
  else none

/-! ### join requests on the leader (`handle_join_cluster`, `drain_commit_actions` NodeJoin) -/

inductive JoinState where
  | pending | ok | err
deriving DecidableEq, Repr, Inhabited

def JoinState.show : JoinState → String
  | .pending => "pending" | .ok => "ok" | .err => "err"

structure JoinReq where
  id : Nat
  state : JoinState
  index : Nat            -- log index of the AddNode entry (0 when rejected)
deriving DecidableEq, Repr, Inhabited

structure JoinSt where
  leader : Leader
  joins : List JoinReq := []
deriving Repr, Inhabited

inductive JnOp where
  | join (id role status : Nat)
  | ack (peer respTerm matchIdx : Nat)
  | flushed (durable : Nat)
  | bad

/-- `drain_commit_actions(new_commit)`: every pending join whose entry index is `≤ commit` is answered -/
def resolveJoins (commit : Nat) (js : List JoinReq) : List JoinReq :=
  js.map fun j => if j.state == .pending && j.index ≤ commit then { j with state := .ok } else j

def jnStep (s : JoinSt) : JnOp → Option (JoinSt × List String × String)
  | .join id role _status =>
    match joinCheck s.leader.view id role with
    | some t => some ({ s with joins := s.joins ++ [{ id := id, state := .err, index := 0 }] }, [s!"!{t}"], "join:" ++ t)
    | none =>
      -- the AddNode entry is appended to the leader's log (current term); answer deferred
      let l := { s.leader with log := s.leader.log ++ [s.leader.term] }
      some ({ leader := l, joins := s.joins ++ [{ id := id, state := .pending, index := l.log.length }] }, [], "join:proposed")
  | .ack p t m =>
    let r := handleAppendResult s.leader p t (.success m)
    some ({ leader := r.1, joins := if r.1.commit > s.leader.commit then resolveJoins r.1.commit s.joins else s.joins },
      r.2.1.filter (fun e => e.startsWith "N" || e == "BF" || e.startsWith "!"), r.2.2)
  | .flushed d =>
    match handleLogFlushed s.leader d with
    | none => none
    | some r =>
      some ({ leader := r.1, joins := if r.1.commit > s.leader.commit then resolveJoins r.1.commit s.joins else s.joins },
        r.2.1.filter (fun e => e.startsWith "N" || e == "BF" || e.startsWith "!"), r.2.2)
  | .bad => some (s, ["!bad-op"], "bad-op")

def jnRecord (s : JoinSt) (ev : List String) : String :=
  let js := if s.joins.isEmpty then "-" else ",".intercalate (s.joins.map fun j => s!"{j.id}:{j.state.show}")
  s!"c{s.leader.commit} l{s.leader.log.length} j[{js}] e[{if ev.isEmpty then "-" else ",".intercalate ev}]"

def jnRun (s : JoinSt) : List JnOp → Option JoinSt
  | [] => some s
  | op :: rest => match jnStep s op with
    | none => none
    | some (s', _, _) => jnRun s' rest

/-! ### a batch promotion in flight on the leader (`handle_promote_ready_learners` → `safe_batch_promote`,
    then acknowledgements, then commit-time application + `handle_membership_applied`) -/

structure PqSt where
  leader : Leader
  confs : List (Nat × Change) := []     -- config entries in the leader's log: (index, change)
  appliedConfs : Nat := 0               -- how many of them the leader has applied
deriving Repr, Inhabited

inductive PqOp where
  | promote (pending : List Nat)
  | ack (peer respTerm matchIdx : Nat)
  | flushed (durable : Nat)
  | apply                                -- commit handler applies the committed, not yet applied config entries
  | bad

/-- apply the config entries with index ≤ commit that are not applied yet, one `handleChange` each -/
def pqApply (s : PqSt) : Nat → PqSt × List String
  | 0 => (s, [])
  | fuel + 1 =>
    match s.confs[s.appliedConfs]? with
    | none => (s, [])
    | some (idx, c) =>
      if idx ≤ s.leader.commit then
        let r := handleChange s.leader c
        let t := pqApply { s with leader := r.1, appliedConfs := s.appliedConfs + 1 } fuel
        (t.1, r.2.1 ++ t.2)
      else (s, [])

/-- The cached configuration (`cluster_metadata`) is *not* touched by proposing: it follows the
    membership, which changes only when the entry is applied. -/
def pqStep (s : PqSt) : PqOp → Option (PqSt × List String × String)
  | .promote pending =>
    let k := safeBatchSize ((voters s.leader.self s.leader.view.nodes).length + 1) pending.length
    if pending.isEmpty then some (s, ["left:-"], "pq:promote-empty")
    else if k == 0 then some (s, ["left:" ++ showIds pending], "pq:promote-zero")
    else
      let l := { s.leader with log := s.leader.log ++ [s.leader.term] }
      some ({ s with leader := l, confs := s.confs ++ [(l.log.length, .batchPromote (pending.take k) sActive)] },
        ["left:" ++ showIds (pending.drop k)], "pq:promote")
  | .ack p t m =>
    let r := handleAppendResult s.leader p t (.success m)
    some ({ s with leader := r.1 }, r.2.1.filter (fun e => e.startsWith "N" || e == "BF" || e.startsWith "!"), "pq:" ++ r.2.2)
  | .flushed d =>
    match handleLogFlushed s.leader d with
    | none => none
    | some r => some ({ s with leader := r.1 }, r.2.1.filter (fun e => e.startsWith "N" || e == "BF" || e.startsWith "!"), "pq:" ++ r.2.2)
  | .apply =>
    let r := pqApply s (s.confs.length + 1)
    some (r.1, r.2, if r.1.appliedConfs > s.appliedConfs then "pq:apply" else "pq:apply-nothing")
  | .bad => some (s, ["!bad-op"], "bad-op")

def pqRecord (s : PqSt) (ev : List String) : String :=
  let l := s.leader
  s!"c{l.commit} l{l.log.length} m[{showMap l.matchIdx}] v[{showIds (voterPeers l.targets)}] tv{l.totalVoters} sv{if l.singleVoter then 1 else 0} e[{if ev.isEmpty then "-" else ",".intercalate ev}]"

end DEngine.Commit
