/-
  M-KV: key-value semantics of the two built-in state machines.

  What is modelled (Rust file + fn):
  * `refStep` / `refRun`            — the reference semantics (spec, L4): `Key → Option Val`, per-entry flag,
                                       CAS succeeds iff current = expected, with `none` matching `none`.
  * `decodeCmd`                     — d-engine-core/src/command.rs `TryFrom<WriteCommand> for Command`
                                       (`ttl_secs == 0 ↦ None`) and `decode_entries` (Noop/Config ↦ `Command::Noop`).
  * `fileApplyChunk`                — d-engine-server/src/storage/adaptors/file/file_state_machine.rs
                                       `FileStateMachine::apply_chunk`: ordering `assert!`, key-scoped `base`
                                       (only keys some CAS of the chunk refers to), `delta` overlay, outcomes
                                       precomputed in chunk order (`filePre`), then the in-memory update under
                                       the write lock using the precomputed outcomes (`filePhase3`), then
                                       `update_last_applied(highest)`.
  * `fileGet/fileGetMulti/fileScan` — same file, `get`, `get_multi`, `scan_prefix`.
  * `rocksApplyChunk`               — d-engine-server/src/storage/adaptors/rocksdb/rocksdb_state_machine.rs
                                       `RocksDBStateMachine::apply_chunk`: one loop, ordering `assert!` inside the
                                       loop, `WriteBatchWithIndex` (`batch`, newest operation first),
                                       `get_from_batch_and_db_cf` (`batchGet`), `write_wbwi` (`writeBatch`),
                                       `update_last_applied(highest)`.
  * `rocksGet/rocksGetMulti/rocksScan`, `prefixSuccessor` — same file, `get`, `get_multi`, `scan_prefix`
                                       (empty prefix ⇒ no entries; iterator from `prefix` with upper bound
                                       `prefix_successor(prefix)`, `starts_with` guard), `prefix_successor`.

  Not modelled here (other families): TTL expiry (`TtlLease`), WAL bytes, checkpoint, crash recovery,
  snapshots. The command carries the `ttl` field; the engines' lease calls do not touch the data map.

  A `HashMap<Bytes, _>` / a RocksDB column family is modelled as an association list `AMap` (first match
  wins; `insert` removes older bindings).  RocksDB iteration order = byte-wise lexicographic order (`lexLt`).
-/
namespace DEngine.KV

abbrev Bytes := List UInt8
abbrev Key := Bytes
abbrev Val := Bytes

/-! ## association-list maps -/

abbrev AMap (β : Type) := List (Key × β)

namespace AMap
variable {β : Type}

def get : AMap β → Key → Option β
  | [], _ => none
  | (k', v) :: m, k => if k' = k then some v else get m k

def remove (m : AMap β) (k : Key) : AMap β := m.filter (fun p => !(p.1 == k))

def insert (m : AMap β) (k : Key) (v : β) : AMap β := (k, v) :: m.remove k

end AMap

/-! ## commands -/

inductive Cmd where
  | noop
  | put (k : Key) (v : Val) (ttl : Option Nat)
  | del (k : Key)
  | cas (k : Key) (expected : Option Val) (v : Val)
deriving Repr, DecidableEq

/-- Wire-level command as it sits in the log (proto `WriteCommand` fields / payload kind). -/
inductive WCmd where
  | noop                      -- Payload::Noop
  | config                    -- Payload::Config
  | insert (k : Key) (v : Val) (ttlSecs : Nat)
  | delete (k : Key)
  | cas (k : Key) (expected : Option Val) (v : Val)
deriving Repr, DecidableEq

/-- `decode_entries` + `TryFrom<WriteCommand> for Command`. -/
def decodeCmd : WCmd → Cmd
  | .noop => .noop
  | .config => .noop
  | .insert k v t => .put k v (if t = 0 then none else some t)
  | .delete k => .del k
  | .cas k e v => .cas k e v

structure Entry where
  index : Nat
  term : Nat
  cmd : Cmd
deriving Repr, DecidableEq

/-! ## reference semantics (spec) -/

abbrev Store := Key → Option Val

def Store.set (s : Store) (k : Key) (v : Option Val) : Store := fun k' => if k' = k then v else s k'

def Store.empty : Store := fun _ => none

/-- One command on the reference store: new store and success flag. -/
def refStep (s : Store) : Cmd → Store × Bool
  | .noop => (s, true)
  | .put k v _ => (s.set k (some v), true)
  | .del k => (s.set k none, true)
  | .cas k e v => if s k = e then (s.set k (some v), true) else (s, false)

def refRun (s : Store) : List Cmd → Store × List Bool
  | [] => (s, [])
  | c :: cs =>
    let r := refStep s c
    let rs := refRun r.1 cs
    (rs.1, r.2 :: rs.2)

/-- The CAS comparison exactly as both engines write it:
    `match (current, expected) { (Some(c), Some(e)) => c == e, (None, None) => true, _ => false }`. -/
def casMatch : Option Val → Option Val → Bool
  | some c, some e => c == e
  | none, none => true
  | _, _ => false

/-! ## ordering assert -/

/-- `if let Some(prev) = .. { assert!(entry.index > prev.index) }`: `true` = the assert fails. -/
def outOfOrder (prev : Option Nat) (i : Nat) : Bool :=
  match prev with
  | some p => !(i > p)
  | none => false

/-- The ordering-assert loop over a chunk: `false` = the real code panics. -/
def ordered : Option Nat → List Entry → Bool
  | _, [] => true
  | p, e :: es => if outOfOrder p e.index then false else ordered (some e.index) es

def highest : List Entry → Option (Nat × Nat)
  | [] => none
  | [e] => some (e.index, e.term)
  | _ :: es => highest es

/-! ## File engine -/

structure FileSt where
  data : AMap (Val × Nat)      -- key ↦ (value, term)
  laIndex : Nat
  laTerm : Nat
deriving Repr

def FileSt.init : FileSt := { data := [], laIndex := 0, laTerm := 0 }

def casKeys (chunk : List Entry) : List Key :=
  chunk.filterMap fun e => match e.cmd with
    | .cas k _ _ => some k
    | _ => none

/-- `base`: only the keys that some CAS in this chunk compares against, fetched under one read lock. -/
def fileBase (data : AMap (Val × Nat)) (chunk : List Entry) : AMap (Val × Nat) :=
  (casKeys chunk).filterMap fun k => (data.get k).map fun v => (k, v)

/-- `delta.get(key).map(|v| v.as_ref()).unwrap_or_else(|| base.get(key))` -/
def fileCurrent (base : AMap (Val × Nat)) (delta : AMap (Option (Val × Nat))) (k : Key) : Option (Val × Nat) :=
  match delta.get k with
  | some x => x
  | none => base.get k

/-- PRE-PHASE: outcomes in chunk order (`false` for everything that is not a successful CAS). -/
def filePre (base : AMap (Val × Nat)) : AMap (Option (Val × Nat)) → List Entry → List Bool
  | _, [] => []
  | delta, e :: es =>
    match e.cmd with
    | .put k v _ => false :: filePre base (delta.insert k (some (v, e.term))) es
    | .del k => false :: filePre base (delta.insert k none) es
    | .cas k ex v =>
      let ok := casMatch ((fileCurrent base delta k).map (·.1)) ex
      ok :: filePre base (if ok then delta.insert k (some (v, e.term)) else delta) es
    | .noop => false :: filePre base delta es

/-- PHASE 3: memory update with the precomputed outcomes (`chunk.iter().zip(cas_outcomes.iter())`). -/
def filePhase3 : AMap (Val × Nat) → List (Entry × Bool) → AMap (Val × Nat) × List Bool
  | data, [] => (data, [])
  | data, (e, ok) :: rest =>
    match e.cmd with
    | .noop => let r := filePhase3 data rest; (r.1, true :: r.2)
    | .put k v _ => let r := filePhase3 (data.insert k (v, e.term)) rest; (r.1, true :: r.2)
    | .del k => let r := filePhase3 (data.remove k) rest; (r.1, true :: r.2)
    | .cas k _ v =>
      let r := filePhase3 (if ok then data.insert k (v, e.term) else data) rest
      (r.1, ok :: r.2)

/-- `FileStateMachine::apply_chunk`; `none` = panic (ordering assert). -/
def fileApplyChunk (st : FileSt) (chunk : List Entry) : Option (FileSt × List Bool) :=
  if !ordered none chunk then none else
  let base := fileBase st.data chunk
  let outs := filePre base [] chunk
  let r := filePhase3 st.data (chunk.zip outs)
  match highest chunk with
  | some (i, t) => some ({ data := r.1, laIndex := i, laTerm := t }, r.2)
  | none => some ({ st with data := r.1 }, r.2)

def fileGet (st : FileSt) (k : Key) : Option Val := (st.data.get k).map (·.1)

def fileGetMulti (st : FileSt) (keys : List Key) : List (Option Val) := keys.map (fileGet st)

/-- `starts_with` -/
def startsWith (k p : Bytes) : Bool := p.isPrefixOf k

/-- `scan_prefix` (hash-map iteration order is unspecified; the harness sorts by key). -/
def fileScan (st : FileSt) (p : Bytes) : List (Key × Val) × Nat :=
  ((st.data.filter fun kv => startsWith kv.1 p).map (fun kv => (kv.1, kv.2.1)), st.laIndex)

/-! ## RocksDB engine -/

inductive BOp where
  | put (k : Key) (v : Val)
  | del (k : Key)
deriving Repr, DecidableEq

def BOp.key : BOp → Key
  | .put k _ => k
  | .del k => k

structure RocksSt where
  db : AMap Val
  laIndex : Nat
  laTerm : Nat
deriving Repr

def RocksSt.init : RocksSt := { db := [], laIndex := 0, laTerm := 0 }

/-- `WriteBatchWithIndex::get_from_batch_and_db_cf`; `batch` is newest-first. -/
def batchGet (db : AMap Val) : List BOp → Key → Option Val
  | [], k => db.get k
  | .put k' v :: b, k => if k' = k then some v else batchGet db b k
  | .del k' :: b, k => if k' = k then none else batchGet db b k

def applyOp (op : BOp) (db : AMap Val) : AMap Val :=
  match op with
  | .put k v => db.insert k v
  | .del k => db.remove k

/-- `write_wbwi`: the operations in insertion order (oldest = last element of the newest-first list). -/
def writeBatch (db : AMap Val) (batch : List BOp) : AMap Val := batch.foldr applyOp db

/-- The `for entry in chunk` loop; `none` = panic. Returns the batch (newest first) and the results. -/
def rocksLoop (db : AMap Val) : List BOp → Option Nat → List Entry → Option (List BOp × List Bool)
  | batch, _, [] => some (batch, [])
  | batch, prev, e :: es =>
    if outOfOrder prev e.index then none else
    match e.cmd with
    | .noop => (rocksLoop db batch (some e.index) es).map fun r => (r.1, true :: r.2)
    | .put k v _ => (rocksLoop db (.put k v :: batch) (some e.index) es).map fun r => (r.1, true :: r.2)
    | .del k => (rocksLoop db (.del k :: batch) (some e.index) es).map fun r => (r.1, true :: r.2)
    | .cas k ex v =>
      let ok := casMatch (batchGet db batch k) ex
      (rocksLoop db (if ok then .put k v :: batch else batch) (some e.index) es).map fun r => (r.1, ok :: r.2)

def rocksApplyChunk (st : RocksSt) (chunk : List Entry) : Option (RocksSt × List Bool) :=
  match rocksLoop st.db [] none chunk with
  | none => none
  | some (batch, res) =>
    let db' := writeBatch st.db batch
    match highest chunk with
    | some (i, t) => some ({ db := db', laIndex := i, laTerm := t }, res)
    | none => some ({ st with db := db' }, res)

def rocksGet (st : RocksSt) (k : Key) : Option Val := st.db.get k

def rocksGetMulti (st : RocksSt) (keys : List Key) : List (Option Val) := keys.map (rocksGet st)

/-- Byte-wise lexicographic `<` (RocksDB's default comparator). -/
def lexLt : Bytes → Bytes → Bool
  | [], [] => false
  | [], _ :: _ => true
  | _ :: _, [] => false
  | a :: as, b :: bs => if a < b then true else if a = b then lexLt as bs else false

def lexLe (a b : Bytes) : Bool := !lexLt b a

/-- Drop trailing 0xFF bytes (`while upper.last() == Some(&0xFF) { upper.pop(); }`), on the reversed list. -/
def dropFF : List UInt8 → List UInt8
  | [] => []
  | b :: rest => if b = 0xFF then dropFF rest else b :: rest

/-- `prefix_successor`: trim trailing 0xFF, increment the last remaining byte; `none` if nothing remains. -/
def prefixSuccessor (p : Bytes) : Option Bytes :=
  match dropFF p.reverse with
  | [] => none
  | b :: rest => some (rest.reverse ++ [b + 1])

/-- insertion sort (structural recursion, so that concrete runs reduce in the kernel) -/
def insertBy {α : Type} (le : α → α → Bool) (a : α) : List α → List α
  | [] => [a]
  | b :: bs => if le a b then a :: b :: bs else b :: insertBy le a bs

def isort {α : Type} (le : α → α → Bool) : List α → List α
  | [] => []
  | a :: as => insertBy le a (isort le as)

/-- Keys the bounded iterator visits: `IteratorMode::From(prefix, Forward)` with `iterate_upper_bound`. -/
def inIterRange (p : Bytes) (ub : Option Bytes) (k : Key) : Bool :=
  lexLe p k && (match ub with | some u => lexLt k u | none => true)

/-- `RocksDBStateMachine::scan_prefix`. -/
def rocksScan (st : RocksSt) (p : Bytes) : List (Key × Val) × Nat :=
  if p.isEmpty then ([], st.laIndex) else
  let ub := prefixSuccessor p
  let visited := isort (fun a b => lexLe a.1 b.1) (st.db.filter fun kv => inIterRange p ub kv.1)
  (visited.takeWhile fun kv => startsWith kv.1 p, st.laIndex)

/-! ## sequences of chunks -/

def fileApplyChunks : FileSt → List (List Entry) → Option (FileSt × List Bool)
  | st, [] => some (st, [])
  | st, c :: cs =>
    match fileApplyChunk st c with
    | none => none
    | some (st', r) => (fileApplyChunks st' cs).map fun x => (x.1, r ++ x.2)

def rocksApplyChunks : RocksSt → List (List Entry) → Option (RocksSt × List Bool)
  | st, [] => some (st, [])
  | st, c :: cs =>
    match rocksApplyChunk st c with
    | none => none
    | some (st', r) => (rocksApplyChunks st' cs).map fun x => (x.1, r ++ x.2)

/-- Abstraction functions to the reference store. -/
def fileAbs (st : FileSt) : Store := fun k => fileGet st k
def rocksAbs (st : RocksSt) : Store := fun k => rocksGet st k

end DEngine.KV
