import DEngine.Model.Fs
/-
  M-STORE (meta part): models of
    * `bincode::serialize/deserialize::<HardState>` as used by both meta stores
      (d-engine-core/src/raft_role/mod.rs `impl Serialize/Deserialize for HardState`; bincode 1.x default options:
      fixed-width little-endian integers, 1-byte Option tag (0/1), 1-byte bool (0/1), trailing bytes allowed);
    * `FileMetaStore::save_to_file` = `File::create` + `write_all` + `flush` + `sync_all` on `hard_state.bin.tmp`, then
      `fs::rename` over `hard_state.bin`, then fsync of the directory (as fixed in /repo ae820a7; before that fix it
      truncated `hard_state.bin` in place — F20),
      `FileMetaStore::load_from_file` + `load_hard_state` (file absent ⇒ none; undecodable ⇒ eprintln + none)
      (d-engine-server/src/storage/adaptors/file/file_storage_engine.rs);
    * `RocksDBMetaStore::save_hard_state` = one `put_cf(META_CF, "hard_state")` without sync, `load_hard_state` =
      `get_cf`, `flush` = `flush_wal(true)` (d-engine-server/src/storage/adaptors/rocksdb/rocksdb_storage_engine.rs):
      the DB is modelled as its write-ahead log — a list of records of which a prefix is durable; a record is atomic
      (RocksDB drops a torn tail record at recovery; checked on the real engine by the `meta` family).
-/
namespace DEngine.MetaStore
open DEngine.Fs

structure VotedFor where
  id : UInt32
  term : UInt64
  committed : Bool
deriving Repr, DecidableEq

structure HS where
  term : UInt64
  vote : Option VotedFor
deriving Repr, DecidableEq

/-- `k` little-endian bytes of `n`. -/
def leN : Nat → Nat → Bytes
  | 0, _ => []
  | k + 1, n => UInt8.ofNat (n % 256) :: leN k (n / 256)

/-- Little-endian value of a byte string. -/
def fromLE : Bytes → Nat
  | [] => 0
  | b :: rest => b.toNat + 256 * fromLE rest

def encVote : Option VotedFor → Bytes
  | none => [0]
  | some v => 1 :: (leN 4 v.id.toNat ++ leN 8 v.term.toNat ++ [if v.committed then 1 else 0])

/-- `bincode::serialize(&HardState)`: 9 bytes without a vote, 22 bytes with one. -/
def enc (h : HS) : Bytes := leN 8 h.term.toNat ++ encVote h.vote

/-- `bincode::deserialize::<HardState>` (`none` = any error). -/
def dec (b : Bytes) : Option HS :=
  if b.length < 9 then none else
  let term := UInt64.ofNat (fromLE (b.take 8))
  let tag := b.getD 8 0
  if tag == 0 then some { term := term, vote := none }
  else if tag == 1 then
    if b.length < 22 then none else
    let id := UInt32.ofNat (fromLE ((b.drop 9).take 4))
    let vt := UInt64.ofNat (fromLE ((b.drop 13).take 8))
    let c := b.getD 21 0
    if c == 0 then some { term := term, vote := some { id := id, term := vt, committed := false } }
    else if c == 1 then some { term := term, vote := some { id := id, term := vt, committed := true } }
    else none
  else none

/-- `FileMetaStore::new` (→ `load_from_file`) followed by `load_hard_state`, on a crash image of `hard_state.bin`. -/
def load (img : Option Bytes) : Option HS := img.bind dec

/-! ### `FileMetaStore::save_to_file` (after the F20 fix): temp file + `sync_all` + `rename` + directory fsync

Two paths: `hard_state.bin` (`main`, the only one `load_from_file` reads) and `hard_state.bin.tmp` (`tmp`). -/

structure MetaDir where
  main : File
  tmp : File
  /-- the content now visible at `main` was fully synced before it got there -/
  mainSynced : Bool
deriving Repr, DecidableEq

def MetaDir.fresh : MetaDir := { main := File.absent, tmp := File.absent, mainSynced := true }

inductive MOp where
  | tmp (op : FOp)      -- an operation on the temp file
  | rename              -- `fs::rename(tmp, main)`
  | dirSync             -- `File::open(data_dir)?.sync_all()`
deriving Repr, DecidableEq

def MetaDir.step (d : MetaDir) : MOp → MetaDir
  | .tmp op => { d with tmp := d.tmp.step op }
  | .rename => { main := d.main.renamedOver d.tmp, tmp := d.tmp.push none, mainSynced := d.tmp.isSynced }
  | .dirSync => if d.mainSynced then { d with main := File.synced d.main.vol } else d

/-- The operations of `save_to_file`, in order. -/
def saveOps (h : HS) : List MOp :=
  [.tmp .create, .tmp (.write (enc h)), .tmp .flush, .tmp .syncAll, .rename, .dirSync]

def MetaDir.run (d : MetaDir) (ops : List MOp) : MetaDir := ops.foldl MetaDir.step d

def save (d : MetaDir) (h : HS) : MetaDir := d.run (saveOps h)

def runSaves (d : MetaDir) (hs : List HS) : MetaDir := hs.foldl save d

def tornDirs (k : Nat) (d : MetaDir) (bs : Bytes) : List (Pt × MetaDir) :=
  (List.range bs.length).map fun j => (Pt.torn k j, d.step (.tmp (.write (bs.take j))))

/-- All crash points of running `ops` from `d` (op boundaries + torn temp-file writes), numbering ops from `k`. -/
def dirCrashPtsFrom : Nat → MetaDir → List MOp → List (Pt × MetaDir)
  | k, d, [] => [(Pt.at k, d)]
  | k, d, op :: rest =>
    (Pt.at k, d) ::
      ((match op with | .tmp (.write bs) => tornDirs k d bs | _ => []) ++ dirCrashPtsFrom (k + 1) (d.step op) rest)

def dirCrashPts (d : MetaDir) (ops : List MOp) : List (Pt × MetaDir) := dirCrashPtsFrom 0 d ops

/-! ### RocksDB meta store: the WAL as a list of records, the first `durable` of which are synced -/

structure Rocks where
  recs : List HS
  durable : Nat
deriving Repr, DecidableEq

def Rocks.put (r : Rocks) (h : HS) : Rocks := { r with recs := r.recs ++ [h] }
def Rocks.flushWal (r : Rocks) : Rocks := { r with durable := r.recs.length }
def Rocks.loadRecs (recs : List HS) : Option HS := recs.getLast?
/-- Images: process crash keeps every record; power loss keeps any prefix that contains the durable ones. -/
def Rocks.images (r : Rocks) : Sem → List (List HS)
  | .process => [r.recs]
  | .power => (List.range (r.recs.length + 1 - min r.durable r.recs.length)).map fun k =>
      r.recs.take (min r.durable r.recs.length + k)

end DEngine.MetaStore
