/-
  M-WATCH: apply → broadcast ring → dispatcher → per-watcher bounded channels.

  Rust code modelled (d-engine-core/src):
  * `state_machine_handler/default_state_machine_handler.rs`
      `apply_chunk` (the watch part), `read_prev_values` (per-batch overlay; CAS does not update it),
      `broadcast_watch_events` (one event per Insert / Delete / *successful* CAS, `revision = entry.index`)
                                                                   → `applyChunk`, `readPrev`, `eventsOf`
  * tokio `broadcast::channel(event_queue_size)` (capacity rounded up to a power of two; a receiver that is
      more than `capacity` behind gets `Lagged(n)` and continues at the oldest retained value) → `sent`,`cursor`,`ringCap`
  * `watch/manager.rs`
      `prefix_segments`                                            → `prefixSegments`
      `WatchRegistry::{register, register_prefix, do_register}` (limit check, prefix validation, ids from 1,
         channel of `watcher_buffer_size + 1` slots)              → `register`
      `WatchRegistry::unregister`                                  → `unregisterId`
      `WatcherHandle::drop` (unregister message + receiver dropped), `into_receiver` + drop → `dropHandle`,`dropReceiver`
      `WatchDispatcher::run` (one iteration of the biased `select!`: unregister message first, then one
         broadcast value or `Lagged`, then the heartbeat tick)     → `dstep`
      `dispatch_event`, `dispatch_to_map` (`capacity() <= 1` ⇒ CANCELED into the reserved slot + unregister;
         closed receiver ⇒ unregister), `broadcast_progress` (revision = the shared counter) → `dispatchEvent`,
         `dispatchToMap`, `deliver`, `broadcastProgress`
      `proto_to_event` (prev_value only for `prev_kv` watchers), `make_cancel_event` (revision 0)
  * `d-engine-server/src/node/builder.rs`: the counter given to the dispatcher (`last_applied_ref`) is
      initialised with the start-up `last_applied_index`; `dispatch_event` raises it to each event's revision.

  Keys are byte strings (`List Nat`, 47 = '/'); values are numbers.
-/
namespace DEngine.Watch

abbrev Key := List Nat

def slash : Nat := 47

/-! ### KV state machine with the File engine's CAS rule -/

inductive Cmd where
  | put (k : Key) (v : Nat)
  | del (k : Key)
  | cas (k : Key) (exp : Option Nat) (v : Nat)
  | noop
deriving Repr, DecidableEq

abbrev KV := List (Key × Nat)

def kvGet (m : KV) (k : Key) : Option Nat := (m.find? (·.1 == k)).map (·.2)
def kvErase (m : KV) (k : Key) : KV := m.filter (·.1 != k)
def kvPut (m : KV) (k : Key) (v : Nat) : KV := (k, v) :: kvErase m k

/-- Apply one command; the flag is `ApplyResult.succeeded`. -/
def applyCmd (m : KV) : Cmd → KV × Bool
  | .put k v => (kvPut m k v, true)
  | .del k => (kvErase m k, true)
  | .cas k exp v => if kvGet m k == exp then (kvPut m k v, true) else (m, false)
  | .noop => (m, true)

/-! ### Events -/

inductive EvType where
  | put | delete | canceled | progress
deriving Repr, DecidableEq

/-- `WatchResponse` travelling through the broadcast ring. `value`/`prev`: `none` = empty bytes. -/
structure PEv where
  typ : EvType
  key : Key
  value : Option Nat
  prev : Option Nat
  rev : Nat
deriving Repr, DecidableEq

/-- `WatchEvent` as received by a watcher. `prev = none`: watcher did not ask for prev_kv. -/
structure WEv where
  typ : EvType
  key : Key
  value : Option Nat
  prev : Option (Option Nat)
  rev : Nat
deriving Repr, DecidableEq

/-- `proto_to_event`. -/
def toW (prevKv : Bool) (e : PEv) : WEv :=
  { typ := e.typ, key := e.key, value := e.value, prev := if prevKv then some e.prev else none, rev := e.rev }

/-- `make_cancel_event(event.key)`. -/
def cancelEv (k : Key) : WEv := { typ := .canceled, key := k, value := none, prev := none, rev := 0 }

/-! ### prefix_segments -/

def segsAux (acc : Key) : Key → List Key
  | [] => []
  | c :: rest =>
    if c = slash then (acc ++ [c]) :: segsAux (acc ++ [c]) rest else segsAux (acc ++ [c]) rest

/-- All `/`-terminated prefixes of the key, shortest first. -/
def prefixSegments (k : Key) : List Key := segsAux [] k

def validPrefix (p : Key) : Bool := p.head? == some slash && p.getLast? == some slash

/-! ### State -/

structure Watcher where
  id : Nat
  key : Key
  isPrefix : Bool
  prevKv : Bool
  registered : Bool := true     -- still present in the registry map
  closed : Bool := false        -- receiver dropped by the consumer
  chan : List WEv := []         -- queued in the per-watcher mpsc channel
  got : List WEv := []          -- already taken by the consumer
  hist : List WEv := []         -- ghost: everything ever put into the channel, in order
  regPos : Nat := 0             -- ghost: dispatcher cursor at registration time
deriving Repr

structure St where
  bufSize : Nat                 -- WatchConfig.watcher_buffer_size
  queueSize : Nat               -- WatchConfig.event_queue_size
  maxWatchers : Nat             -- WatchConfig.max_watcher_count
  hbEnabled : Bool              -- heartbeat_interval_ms > 0
  progressRev : Nat             -- the dispatcher's `last_applied` counter: start-up value, raised to the
                                -- revision of every event it dispatches (fix of F23)
  kv : KV := []
  nextIndex : Nat := 1          -- index of the next applied entry
  sent : List PEv := []         -- every value ever sent on the broadcast channel
  cursor : Nat := 0             -- dispatcher's receiver position
  lagged : Nat := 0             -- ghost: total number of values skipped through `Lagged(n)`
  unregQ : List Nat := []       -- unregister channel (watcher ids)
  hbDue : Bool := false         -- heartbeat tick ready
  watchers : List Watcher := [] -- in registration order
  nextId : Nat := 1
  total : Nat := 0              -- WatchRegistry.total_count
  regResults : List String := []
deriving Repr

/-- tokio rounds the broadcast capacity up to a power of two. -/
def nextPow2Aux : Nat → Nat → Nat → Nat
  | 0, p, _ => p
  | f + 1, p, n => if p < n then nextPow2Aux f (p * 2) n else p

def nextPow2 (n : Nat) : Nat := nextPow2Aux 64 1 n

def ringCap (s : St) : Nat := nextPow2 s.queueSize

def prevKvCount (s : St) : Nat := (s.watchers.filter (fun w => w.registered && w.prevKv)).length

/-! ### apply_chunk: prev values, apply, broadcast -/

/-- `read_prev_values`: overlay over the pre-chunk state; Insert/Delete update the overlay, CAS does not. -/
def readPrev (m : KV) (chunk : List Cmd) : List (Option Nat) :=
  let rec go (ov : List (Key × Option Nat)) : List Cmd → List (Option Nat)
    | [] => []
    | c :: rest =>
      let look (k : Key) : Option Nat :=
        match ov.find? (·.1 == k) with
        | some (_, v) => v
        | none => kvGet m k
      match c with
      | .put k v => look k :: go ((k, some v) :: ov) rest
      | .del k => look k :: go ((k, none) :: ov) rest
      | .cas k _ _ => look k :: go ov rest
      | .noop => none :: go ov rest
  go [] chunk

/-- Apply the chunk in order: new state and per-entry `succeeded`. -/
def applyAll (m : KV) : List Cmd → KV × List Bool
  | [] => (m, [])
  | c :: rest =>
    let (m1, ok) := applyCmd m c
    let (m2, oks) := applyAll m1 rest
    (m2, ok :: oks)

/-- `broadcast_watch_events`: entry `i` of the chunk has index `first + i`. -/
def eventsOf (first : Nat) (chunk : List Cmd) (oks : List Bool) (prevs : Option (List (Option Nat))) : List PEv :=
  let rec go (i : Nat) : List Cmd → List PEv
    | [] => []
    | c :: rest =>
      let pv : Option Nat := match prevs with
        | none => none
        | some l => (l[i]?).getD none
      let ev : Option PEv := match c with
        | .put k v => some { typ := .put, key := k, value := some v, prev := pv, rev := first + i }
        | .del k => some { typ := .delete, key := k, value := none, prev := pv, rev := first + i }
        | .cas k _ v => if (oks[i]?).getD false
            then some { typ := .put, key := k, value := some v, prev := pv, rev := first + i } else none
        | .noop => none
      match ev with
      | some e => e :: go (i + 1) rest
      | none => go (i + 1) rest
  go 0 chunk

def applyChunk (s : St) (chunk : List Cmd) : St :=
  let prevs := if prevKvCount s > 0 then some (readPrev s.kv chunk) else none
  let (kv', oks) := applyAll s.kv chunk
  { s with kv := kv', nextIndex := s.nextIndex + chunk.length,
           sent := s.sent ++ eventsOf s.nextIndex chunk oks prevs }

/-! ### Registry -/

def register (s : St) (key : Key) (isPrefix prevKv : Bool) : St :=
  if isPrefix && !validPrefix key then { s with regResults := s.regResults ++ ["invalid"] }
  else if s.total ≥ s.maxWatchers then { s with regResults := s.regResults ++ ["limit"] }
  else
    { s with watchers := s.watchers ++ [{ id := s.nextId, key := key, isPrefix := isPrefix, prevKv := prevKv,
                                           regPos := s.cursor }],
             nextId := s.nextId + 1, total := s.total + 1, regResults := s.regResults ++ ["ok"] }

/-- `WatchRegistry::unregister(id, key)` (ids are unique, so the key only selects the map entry). -/
def unregisterId (s : St) (id : Nat) : St :=
  if s.watchers.any (fun w => w.id == id && w.registered) then
    { s with watchers := s.watchers.map (fun w => if w.id == id then { w with registered := false } else w),
             total := s.total - 1 }
  else s

/-- Consumer drops its `WatcherHandle`: unregister message, receiver (and queued events) dropped. -/
def dropHandle (s : St) (id : Nat) : St :=
  if s.watchers.any (fun w => w.id == id && !w.closed) then
    { s with watchers := s.watchers.map (fun w => if w.id == id then { w with closed := true, chan := [] } else w),
             unregQ := s.unregQ ++ [id] }
  else s

/-- Consumer called `into_receiver()` and drops the receiver: no unregister message. -/
def dropReceiver (s : St) (id : Nat) : St :=
  { s with watchers := s.watchers.map (fun w => if w.id == id then { w with closed := true, chan := [] } else w) }

/-- Consumer takes up to `n` queued events. -/
def take (s : St) (id n : Nat) : St :=
  { s with watchers := s.watchers.map (fun w =>
      if w.id == id && !w.closed then { w with got := w.got ++ w.chan.take n, chan := w.chan.drop n } else w) }

/-! ### Dispatcher -/

/-- The per-watcher body of `dispatch_to_map`. Returns the watcher and whether it is dead. -/
def deliver (bufSize : Nat) (w : Watcher) (e : PEv) : Watcher × Bool :=
  if w.closed then (w, true)       -- try_send fails with Closed (whichever branch): silent cleanup
  else if bufSize + 1 - w.chan.length ≤ 1 then      -- `sender.capacity() <= 1`
    if bufSize + 1 - w.chan.length = 1 then
      ({ w with chan := w.chan ++ [cancelEv e.key], hist := w.hist ++ [cancelEv e.key] }, true)
    else (w, true)
  else
    ({ w with chan := w.chan ++ [toW w.prevKv e], hist := w.hist ++ [toW w.prevKv e] }, false)

/-- `deliver` plus the `dead_watchers` → `registry.unregister` bookkeeping for that watcher. -/
def hit (bufSize : Nat) (e : PEv) (w : Watcher) : Watcher :=
  if (deliver bufSize w e).2 then { (deliver bufSize w e).1 with registered := false } else (deliver bufSize w e).1

/-- What `dispatch_to_map(map, lookup, e)` does to one watcher: only those registered under `lookup` in
    that map are visited. -/
def pass (bufSize : Nat) (isPrefix : Bool) (lookup : Key) (e : PEv) (w : Watcher) : Watcher :=
  if w.registered && w.isPrefix == isPrefix && w.key == lookup then hit bufSize e w else w

/-- `dispatch_to_map(map, lookup_key, event)`: every watcher registered under `lookup_key` in that map. -/
def dispatchToMap (s : St) (isPrefix : Bool) (lookup : Key) (e : PEv) : St :=
  let died := (s.watchers.filter (fun w => w.registered && w.isPrefix == isPrefix && w.key == lookup &&
                  (deliver s.bufSize w e).2)).length
  { s with watchers := s.watchers.map (pass s.bufSize isPrefix lookup e), total := s.total - died }

def dispatchEvent (s : St) (e : PEv) : St :=
  (prefixSegments e.key).foldl (fun s p => dispatchToMap s true p e) (dispatchToMap s false e.key e)

def progressEv (s : St) : PEv := { typ := .progress, key := [], value := none, prev := none, rev := s.progressRev }

/-- `broadcast_progress`: every key of both maps (order irrelevant per watcher). -/
def broadcastProgress (s : St) : St :=
  let e := progressEv s
  let ek := (s.watchers.filter (fun w => w.registered && !w.isPrefix)).map (·.key) |>.eraseDups
  let pk := (s.watchers.filter (fun w => w.registered && w.isPrefix)).map (·.key) |>.eraseDups
  let s1 := ek.foldl (fun s k => dispatchToMap s false k e) s
  pk.foldl (fun s k => dispatchToMap s true k e) s1

/-- `cancel_all_watchers`: CANCELED (key = the watcher's own key) into the reserved slot of every registered
    watcher, then `unregister`. A closed receiver just gets unregistered. -/
def cancelOne (w : Watcher) : Watcher :=
  if w.registered then
    if w.closed then { w with registered := false }
    else { w with chan := w.chan ++ [cancelEv w.key], hist := w.hist ++ [cancelEv w.key], registered := false }
  else w

def cancelAll (s : St) : St :=
  { s with watchers := s.watchers.map cancelOne,
           total := s.total - (s.watchers.filter (·.registered)).length }

/-- One iteration of `WatchDispatcher::run`'s biased select. `none` = nothing ready. -/
def dstep (s : St) : Option St :=
  match s.unregQ with
  | id :: q => some (unregisterId { s with unregQ := q } id)
  | [] =>
    if s.cursor < s.sent.length then
      if s.sent.length - s.cursor > ringCap s then
        -- RecvError::Lagged(n): the receiver continues at the oldest retained value; every watcher is
        -- sent CANCELED and unregistered (`cancel_all_watchers`, fix of F22)
        let next := s.sent.length - ringCap s
        some (cancelAll { s with cursor := next, lagged := s.lagged + (next - s.cursor) })
      else
        match s.sent[s.cursor]? with
        | some e => some (dispatchEvent { s with cursor := s.cursor + 1,
                                                 progressRev := max s.progressRev e.rev } e)
        | none => none
    else if s.hbEnabled && s.hbDue then some (broadcastProgress { s with hbDue := false })
    else none

/-- The dispatcher task runs until nothing is ready (fuel bounds the number of iterations). -/
def drun : Nat → St → St
  | 0, s => s
  | n + 1, s => match dstep s with
    | some s' => drun n s'
    | none => s

inductive Op where
  | apply (chunk : List Cmd)
  | reg (key : Key) (isPrefix prevKv : Bool)
  | dstep
  | tick                      -- the heartbeat interval becomes ready
  | take (id n : Nat)
  | dropHandle (id : Nat)
  | dropReceiver (id : Nat)
deriving Repr

def step (s : St) : Op → St
  | .apply c => applyChunk s c
  | .reg k p v => register s k p v
  | .dstep => (dstep s).getD s
  | .tick => { s with hbDue := true }
  | .take i n => take s i n
  | .dropHandle i => dropHandle s i
  | .dropReceiver i => dropReceiver s i

def exec (s : St) (ops : List Op) : St := ops.foldl step s

/-! ### The property as a decidable predicate on one watcher's received stream -/

/-- Does the watcher (exact key / `/`-terminated prefix) cover this key? -/
def covers (isPrefix : Bool) (wkey : Key) (k : Key) : Bool :=
  if isPrefix then wkey.isPrefixOf k else wkey == k

def isData (e : WEv) : Bool := e.typ == .put || e.typ == .delete

/-- What a watcher should see of a list of broadcast events. -/
def expected (isPrefix prevKv : Bool) (wkey : Key) (evs : List PEv) : List WEv :=
  (evs.filter (fun e => covers isPrefix wkey e.key)).map (toW prevKv)

/-- Progress revisions must not be older than data already delivered before them. -/
def progressOk : Nat → List WEv → Bool
  | _, [] => true
  | hi, e :: rest =>
    if e.typ == .progress then (hi ≤ e.rev) && progressOk hi rest
    else if isData e then progressOk (max hi e.rev) rest
    else progressOk hi rest

/-- prev values are not part of C24: the monitor compares streams with `prev` erased. -/
def erasePrev (e : WEv) : WEv := { e with prev := none }

/-- `stream` = everything the consumer received. `evs` = all broadcast events from the earliest point the
    watcher may see (events not yet dispatched when it registered) — `must` = how many of the leading ones
    it may legitimately miss (those broadcast before registration).
    OK iff the data events are, for some start offset `k ≤ must`, a prefix of the expected stream from `k`;
    a CANCELED may only be the last element; if the stream is not canceled and the consumer kept listening
    (`complete`), nothing may be missing at the end. -/
def streamOk (isPrefix prevKv : Bool) (wkey : Key) (evs : List PEv) (must : Nat) (complete : Bool)
    (stream : List WEv) : Bool :=
  let body := stream.filter (fun e => e.typ != .canceled)
  let canceled := stream.any (fun e => e.typ == .canceled)
  let cancelLast := match stream.reverse with
    | [] => true
    | _ :: rest => rest.all (fun e => e.typ != .canceled)
  let data := body.filter isData
  let fits := (List.range (must + 1)).any fun k =>
    let exp := expected isPrefix prevKv wkey (evs.drop k)
    data.isPrefixOf exp && (canceled || !complete || data.length == exp.length)
  cancelLast && fits

end DEngine.Watch
