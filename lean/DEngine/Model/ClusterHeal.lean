/-
  C32: a fixed fair schedule ("heal rounds") over the cluster model.  One round =
    1. finish every pending election (deliver its vote requests and responses to everybody who can take them, end it),
    2. if some node that is up leads: the leader with the highest term (smallest id among equals) ticks (heartbeat) and
       every message in flight is delivered in id order (requests whose target is down or blocked are dropped),
       otherwise the ready node with the most up-to-date log (smallest id among equals) times out twice and runs an
       election with everybody.  (A plain rotation is NOT enough for the code as it is: `broadcast_vote_requests` aborts
       an election with `LogConflict` as soon as one responder with a more up-to-date log denies, even when the other
       grants are a majority, and a rotation can then leapfrog terms forever — see Props/C32.lean `tally_aborts_despite_majority`.)
  The harness (harness/src/bin/cluster/sim.rs `ev_heal`) applies the same rule to the real nodes.
-/
import DEngine.Model.Cluster
namespace DEngine.Cluster

def nodeIds (c : Cluster) : List NodeId := (List.range (c.n + 1)).filter (· != 0)

def runEvents (c : Cluster) (es : List Event) : Cluster := es.foldl (fun c e => (step c e).1) c

/-- deliver candidate `cand`'s vote request to every other node and bring every response back, then end the election
    (each event is a no-op when it is not enabled) -/
def electionEvents (c : Cluster) (cand : NodeId) : List Event :=
  ((nodeIds c).filter (· != cand)).flatMap (fun p => [Event.voteReq cand p, Event.voteResp cand p]) ++ [Event.voteEnd cand]

def finishElections (c : Cluster) : Cluster :=
  (nodeIds c).foldl (fun c cand => if (c.nodes cand).up && (c.nodes cand).blocked then runEvents c (electionEvents c cand) else c) c

/-- the up leader with the highest term (smallest id among equals) -/
def bestLeader (c : Cluster) : Option NodeId :=
  (nodeIds c).foldl (fun best i =>
    let nd := c.nodes i
    if nd.ready && nd.role == .leader then
      match best with
      | none => some i
      | some b => if nd.term > (c.nodes b).term then some i else some b
    else best) none

/-- the ready node with the most up-to-date log (last term, then last index; smallest id among equals): the node whose
    election timer fires in a round without a leader -/
def bestCandidate (c : Cluster) : Option NodeId :=
  (nodeIds c).foldl (fun best i =>
    let nd := c.nodes i
    if nd.ready then
      match best with
      | none => some i
      | some b =>
        let lb := lastPair (c.nodes b).log
        let li := lastPair nd.log
        if li.2 > lb.2 || (li.2 == lb.2 && li.1 > lb.1) then some i else some b
    else best) none

def smallestMsg (c : Cluster) : Option (Nat × Msg) :=
  c.msgs.foldl (fun best x => match best with
    | none => some x
    | some b => if x.1 < b.1 then some x else some b) none

/-- deliver everything in flight, smallest id first -/
def deliverAll : Nat → Cluster → Cluster
  | 0, c => c
  | fuel + 1, c =>
    match smallestMsg c with
    | none => c
    | some (id, .ae _ dst _ _ _) =>
      if (c.nodes dst).ready && c.valid dst then deliverAll fuel (step c (.deliverAe id)).1
      else deliverAll fuel (step c (.drop id)).1
    | some (id, .resp _ _ _ _ _) => deliverAll fuel (step c (.deliverResp id)).1

def fairRound (c : Cluster) (r : Nat) : Cluster :=
  let c1 := finishElections c
  match bestLeader c1 with
  | some l =>
    let c2 := (step c1 (.tick l)).1
    deliverAll (2 * c2.msgs.length + 2) c2
  | none =>
    match bestCandidate c1 with
    | some cand => runEvents c1 ([Event.tick cand, Event.tick cand] ++ electionEvents c1 cand)
    | none => c1

def heal : Nat → Nat → Cluster → Cluster
  | 0, _, c => c
  | k + 1, r, c => heal k (r + 1) (fairRound c r)

-- ---------------------------------------------------------------------------------------- instrumented heal
/-- is this a prev=(0,0) AppendEntries request (the one `filter_out_conflicts_and_append` answers with a reset)? -/
def isResetMsg : Msg → Bool
  | .ae _ _ _ r _ => r.prevI == 0 && r.prevT == 0
  | _ => false

/-- `deliverAll` that also reports the nodes to which a prev=(0,0) request was delivered (the trace prints them after
    the state of a heal event, so that the C05 / C10 monitors can attribute a discard inside a heal to F9). -/
def deliverAllR : Nat → Cluster → List NodeId → Cluster × List NodeId
  | 0, c, acc => (c, acc)
  | fuel + 1, c, acc =>
    match smallestMsg c with
    | none => (c, acc)
    | some (id, .ae s dst sid req rp) =>
      if (c.nodes dst).ready && c.valid dst then
        deliverAllR fuel (step c (.deliverAe id)).1 (if isResetMsg (.ae s dst sid req rp) then dst :: acc else acc)
      else deliverAllR fuel (step c (.drop id)).1 acc
    | some (id, .resp _ _ _ _ _) => deliverAllR fuel (step c (.deliverResp id)).1 acc

def fairRoundR (c : Cluster) (r : Nat) (acc : List NodeId) : Cluster × List NodeId :=
  let c1 := finishElections c
  match bestLeader c1 with
  | some l =>
    let c2 := (step c1 (.tick l)).1
    deliverAllR (2 * c2.msgs.length + 2) c2 acc
  | none =>
    match bestCandidate c1 with
    | some cand => (runEvents c1 ([Event.tick cand, Event.tick cand] ++ electionEvents c1 cand), acc)
    | none => (c1, acc)

def healR : Nat → Nat → Cluster → List NodeId → Cluster × List NodeId
  | 0, _, c, acc => (c, acc)
  | k + 1, r, c, acc => let x := fairRoundR c r acc; healR k (r + 1) x.1 x.2

theorem deliverAllR_fst : ∀ (fuel : Nat) (c : Cluster) (acc : List NodeId), (deliverAllR fuel c acc).1 = deliverAll fuel c := by
  intro fuel
  induction fuel with
  | zero => intro c acc; rfl
  | succ f ih =>
    intro c acc
    unfold deliverAllR deliverAll
    split
    · rfl
    · split
      · exact ih _ _
      · exact ih _ _
    · exact ih _ _

theorem fairRoundR_fst (c : Cluster) (r : Nat) (acc : List NodeId) : (fairRoundR c r acc).1 = fairRound c r := by
  unfold fairRoundR fairRound
  dsimp only
  split
  · exact deliverAllR_fst _ _ _
  · split <;> rfl

/-- the instrumented heal is the heal the C32 statements are about -/
theorem healR_fst : ∀ (k r : Nat) (c : Cluster) (acc : List NodeId), (healR k r c acc).1 = heal k r c := by
  intro k
  induction k with
  | zero => intro r c acc; rfl
  | succ k ih =>
    intro r c acc
    unfold healR heal
    dsimp only
    rw [ih, fairRoundR_fst]

/-- recovered: some ready node leads, every node that is up and not blocked has the leader's log, and the leader has
    committed all of it -/
def recovered (c : Cluster) : Bool :=
  match bestLeader c with
  | some l =>
    let ln := c.nodes l
    ln.commit == lastIndex ln.log &&
      (nodeIds c).all fun i => let nd := c.nodes i; !nd.up || (nd.ready && nd.log == ln.log && nd.term == ln.term)
  | none => false

def majorityUp (c : Cluster) : Bool := ((nodeIds c).filter fun i => (c.nodes i).up).length * 2 > c.n

end DEngine.Cluster
