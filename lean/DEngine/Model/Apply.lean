/-
  M-APPLY: the commit → dispatch → apply pipeline of one node, as separately schedulable actors
  (commit notification arrival, commit-handler iteration, worker fetch, worker apply, restart).

  Rust code modelled (all in /repo/d-engine-core/src):
  * `state_machine_handler/default_state_machine_handler.rs`
      `DefaultStateMachineHandler::update_pending`   → `updatePending`
      `DefaultStateMachineHandler::pending_range`    → the `pending > lastApplied` test in `processBatch`
      `DefaultStateMachineHandler::apply_chunk`      → `fetch` (`decode_entries` failure ⇒ `Err`) and
                                                        `applyHeld` (`StateMachine::apply_chunk`, then
                                                        `last_applied.store(last index of the chunk)`)
  * `command.rs` `decode_entries`                    → `decode` / `isBad` (Config and Noop become `ACmd.noop`)
  * `commit_handler/default_commit_handler.rs`
      `DefaultCommitHandler::run` (one `select!` iteration: recv one notification, `try_recv` up to
        `max_batch_size - 1` more, `update_pending` each, then `process_batch`)            → `run1`
      `process_batch` (every `send_to_sm_worker(..)?` fails once the worker is gone; range from `pending_range`, `start = max(range.start, dispatched_up_to + 1)`,
        `get_entries_range`, the per-entry loop, early `Err` return that drops the unsent tail)  → `processBatch`
      `apply_config_change` (called for every Config entry; the first error is the one returned) → `cfgCalls`
      `send_to_sm_worker` (non-empty batch is sent, `dispatched_up_to.fetch_max(last index)`) → `dispatchedAfter`
  * `state_machine_handler/worker.rs` `StateMachineWorker::{run, apply_and_notify}`   → `fetch`, `applyHeld`
      (an `Err` from `apply_chunk` makes `run` return: the worker is gone, its receiver is dropped, the
       channel is closed and every later `send_to_sm_worker` of the commit handler fails)
  * `storage/buffered_raft_log.rs` `get_entries_range` (returns the entries *present* in the range) → `entriesFrom`
  * node restart (`d-engine-server/src/node/builder.rs`: handler rebuilt with
      `last_applied_index = state_machine.last_applied().index`, fresh channels, `dispatched_up_to = 0`) → `restart`

  The raft log is a list of payloads; entry number `i` (1-based) is `log[i-1]` (no purge in this model).
  The state machine is an association-list KV store with the CAS rule of the File engine
  (`expected = none` matches an absent key).
-/
namespace DEngine.Apply

/-- A client write command (keys and values are numbers in the model). -/
inductive Cmd where
  | put (k v : Nat)
  | del (k : Nat)
  | cas (k : Nat) (exp : Option Nat) (v : Nat)
deriving Repr, DecidableEq, BEq

/-- `EntryPayload` of a raft log entry. `bad` = `Payload::Command` whose bytes do not decode to a
    `WriteCommand` with an operation; `config ok` = `Payload::Config`, `ok` says whether
    `Membership::apply_config_change` succeeds for it; `empty` = `entry.payload == None`. -/
inductive Payload where
  | cmd (c : Cmd)
  | noop
  | config (ok : Bool)
  | bad
  | empty
deriving Repr, DecidableEq, BEq

/-- What the state machine receives (`Command` in command.rs). -/
inductive ACmd where
  | noop
  | op (c : Cmd)
  | snap          -- marker in the observation: `StateMachine::apply_snapshot_from_file(last_included = index)`
deriving Repr, DecidableEq, BEq

abbrev IEntry := Nat × Payload      -- (index, payload)
abbrev Batch := List IEntry

/-! ### KV state machine (reference apply function) -/

abbrev KV := List (Nat × Nat)        -- association list, first match wins; no duplicate keys kept

def kvGet (m : KV) (k : Nat) : Option Nat := (m.find? (·.1 == k)).map (·.2)
def kvErase (m : KV) (k : Nat) : KV := m.filter (·.1 != k)
def kvPut (m : KV) (k v : Nat) : KV := (k, v) :: kvErase m k

def applyCmd (m : KV) : Cmd → KV
  | .put k v => kvPut m k v
  | .del k => kvErase m k
  | .cas k exp v => if kvGet m k == exp then kvPut m k v else m

def applyACmd (m : KV) : ACmd → KV
  | .noop => m
  | .op c => applyCmd m c
  | .snap => m

/-- `decode_entries` on one entry (only called on entries that are not `bad`). -/
def decode : Payload → ACmd
  | .cmd c => .op c
  | _ => .noop

def isBad : Payload → Bool
  | .bad => true
  | .empty => true      -- "Entry at index … has no payload" (cannot reach the queue: process_batch skips it)
  | _ => false

/-! ### State -/

structure St where
  log : List Payload := []
  base : Nat := 0                 -- raft log purge boundary (`purge_logs_up_to`): entries ≤ base are gone
  lastApplied : Nat := 0          -- DefaultStateMachineHandler.last_applied
  pending : Nat := 0              -- DefaultStateMachineHandler.pending_commit
  dispatched : Nat := 0           -- DefaultCommitHandler.dispatched_up_to
  notif : List Nat := []          -- new_commit_rx (NewCommitData.new_commit_index values)
  queue : List Batch := []        -- sm_apply channel
  holding : Option Batch := none  -- batch the worker has received (inside apply_and_notify, not applied yet)
  workerDead : Bool := false      -- StateMachineWorker::run has returned Err (its receiver is dropped:
                                  -- the channel is closed, every later send_to_sm_worker fails)
  applied : List (Nat × ACmd) := []   -- every (index, command) handed to StateMachine::apply_chunk, in order
  chunks : List (List Nat) := []  -- the same, grouped per apply_chunk call (indexes only)
  kv : KV := []                   -- state machine content
  smLast : Nat := 0               -- StateMachine::last_applied().index
  cfgCalls : List (Nat × Bool) := []  -- Membership::apply_config_change calls (entry index, succeeded)
  startLa : Nat := 0              -- ghost: `last_applied` the handler was constructed with (start / last restart)
deriving Repr

/-- Number entries from index `i`. -/
def number : Nat → List Payload → Batch
  | _, [] => []
  | i, p :: ps => (i, p) :: number (i + 1) ps

/-- `raft_log.get_entries_range(lo..=hi)` on a log holding entries `base+1..=log.length`
    (`log` keeps the purged prefix only so that indexes stay positions). -/
def entriesFrom (log : List Payload) (base lo hi : Nat) : Batch :=
  let lo' := max lo (base + 1)
  number lo' ((log.drop (lo' - 1)).take (hi + 1 - lo'))

/-! ### process_batch -/

/-- Loop state of `process_batch`: `command_batch`, batches sent so far, `last_error.is_some()`,
    membership calls made. -/
structure PB where
  batch : Batch := []
  sent : List Batch := []
  err : Bool := false
  cfg : List (Nat × Bool) := []
deriving Repr

def pbStep (a : PB) (e : IEntry) : PB :=
  match e.2 with
  | .cmd _ => { a with batch := a.batch ++ [e] }
  | .bad => { a with batch := a.batch ++ [e] }
  | .noop => { a with batch := [], sent := a.sent ++ [a.batch ++ [e]] }
  | .config ok =>
      { batch := [], sent := a.sent ++ [a.batch ++ [e]],
        err := a.err || !ok,
        cfg := a.cfg ++ [(e.1, ok)] }   -- every config entry is applied, also after an earlier failure (fix ff1aa00)
  | .empty => a

/-- After the loop: `if let Some(e) = last_error { return Err(e) } else { send_to_sm_worker(batch) }`. -/
def pbFinish (a : PB) : List Batch :=
  if a.err then a.sent else if a.batch.isEmpty then a.sent else a.sent ++ [a.batch]

def lastIdx (b : Batch) : Nat := (b.getLast?.map (·.1)).getD 0

/-- `dispatched_up_to.fetch_max(last_index)` once per sent batch. -/
def dispatchedAfter (d : Nat) (sent : List Batch) : Nat := sent.foldl (fun d b => max d (lastIdx b)) d

def processBatch (s : St) : St :=
  -- worker gone ⇒ channel closed ⇒ the first `send_to_sm_worker(..)?` returns Err before anything is
  -- recorded (`fetch_max` and `apply_config_change` both come after the send)
  if s.workerDead then s else
  if s.pending > s.lastApplied then
    let start := max (s.lastApplied + 1) (s.dispatched + 1)
    if start > s.pending then s
    else
      let a := (entriesFrom s.log s.base start s.pending).foldl pbStep {}
      let sent := pbFinish a
      { s with queue := s.queue ++ sent,
               dispatched := dispatchedAfter s.dispatched sent,
               cfgCalls := s.cfgCalls ++ a.cfg }
  else s

/-- `process_batch` whose `pending_range()` read an older value `lread` of `last_applied` (the SM worker
    stored a newer one before `dispatched_up_to` was read). Used only to show that such a stale read is harmless. -/
def processBatchRead (lread : Nat) (s : St) : St :=
  if s.workerDead then s else
  if s.pending > lread then
    let start := max (lread + 1) (s.dispatched + 1)
    if start > s.pending then s
    else
      let a := (entriesFrom s.log s.base start s.pending).foldl pbStep {}
      let sent := pbFinish a
      { s with queue := s.queue ++ sent,
               dispatched := dispatchedAfter s.dispatched sent,
               cfgCalls := s.cfgCalls ++ a.cfg }
  else s

def updatePending (p c : Nat) : Nat := if c > p then c else p

/-- One iteration of `DefaultCommitHandler::run`'s loop body (no-op when no notification is queued). -/
def run1 (maxBatch : Nat) (s : St) : St :=
  match s.notif with
  | [] => s
  | c :: rest =>
    let more := rest.take (maxBatch - 1)
    processBatch { s with notif := rest.drop (maxBatch - 1),
                          pending := (c :: more).foldl updatePending s.pending }

/-! ### SM worker -/

/-- The worker's `sm_apply_rx.recv()` followed by `decode_entries` inside `apply_chunk`: a batch that does
    not decode makes `apply_and_notify` and then `run` return `Err` (worker gone, receiver dropped). -/
def fetch (s : St) : St :=
  if s.workerDead || s.holding.isSome then s else
  match s.queue with
  | [] => s
  | b :: q =>
    if b.any (fun e => isBad e.2) then { s with queue := [], workerDead := true }
    else { s with queue := q, holding := some b }

/-- The rest of `apply_and_notify` for the batch the worker holds: `StateMachine::apply_chunk`,
    `last_applied.store(last index)`. -/
def applyHeld (s : St) : St :=
  match s.holding with
  | none => s
  | some b =>
      let cmds := b.map (fun e => (e.1, decode e.2))
      { s with holding := none,
               applied := s.applied ++ cmds,
               chunks := s.chunks ++ [b.map (·.1)],
               kv := cmds.foldl (fun m c => applyACmd m c.2) s.kv,
               lastApplied := if b.isEmpty then s.lastApplied else lastIdx b,
               smLast := if b.isEmpty then s.smLast else lastIdx b }

/-- Process restart: channels and in-memory counters are lost; the handler is rebuilt from the state
    machine's own `last_applied`. -/
def restart (s : St) : St :=
  { s with lastApplied := s.smLast, pending := 0, dispatched := 0, notif := [], queue := [],
           holding := none, workerDead := false, startLa := s.smLast }

/-- Snapshot install on a follower (`follower_state.rs` `InstallSnapshotChunk` →
    `apply_snapshot_stream_from_leader` → `StateMachine::apply_snapshot_from_file`, then
    `raft_log.purge_logs_up_to(last_included)`): the state machine content becomes the leader's state after
    entries `1..=S`, its `last_applied` becomes `S`, the raft log loses entries `≤ S`.
    Neither the handler's `last_applied`, nor `dispatched_up_to`, nor the batches already handed to the
    SM worker are touched. -/
def installSnapshot (s : St) (S : Nat) : St :=
  if S = 0 ∨ S > s.log.length then s else
  { s with kv := (s.log.take S).foldl (fun m p => applyACmd m (decode p)) [],
           smLast := S,
           base := max s.base S,
           applied := s.applied ++ [(S, ACmd.snap)],
           chunks := s.chunks ++ [[0, S]] }

/-! ### Schedules -/

inductive Op where
  | append (p : Payload)   -- the raft log receives one more entry
  | commit (c : Nat)       -- a commit notification is put on the channel
  | run1                   -- the commit handler executes one loop iteration
  | fetch                  -- the SM worker receives (and decodes) the next queued batch
  | apply                  -- the SM worker applies the batch it holds and stores last_applied
  | restart
  | snap (S : Nat)         -- a snapshot with last_included index S is installed
deriving Repr, DecidableEq

def step (mb : Nat) (s : St) : Op → St
  | .append p => { s with log := s.log ++ [p] }
  | .commit c => { s with notif := s.notif ++ [c] }
  | .run1 => run1 mb s
  | .fetch => fetch s
  | .apply => applyHeld s
  | .restart => restart s
  | .snap S => installSnapshot s S

def exec (mb : Nat) (s : St) (ops : List Op) : St := ops.foldl (step mb) s

/-- The order predicate on the sequence of state-machine inputs (the C06 monitor): a command at index `i`
    is in order iff `i = pos + 1`; a snapshot install moves the position to its index and must not lie
    behind what has already been applied. `some p` = in order, final position `p`. -/
def walk : Nat → List (Nat × ACmd) → Option Nat
  | pos, [] => some pos
  | pos, (i, .snap) :: rest => if i < pos then none else walk i rest
  | pos, (i, .noop) :: rest => if i = pos + 1 then walk i rest else none
  | pos, (i, .op _) :: rest => if i = pos + 1 then walk i rest else none

/-- Indexes handed to the state machine, in order. -/
def appliedIdx (s : St) : List Nat := s.applied.map (·.1)

end DEngine.Apply
