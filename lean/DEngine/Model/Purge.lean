/-
  M-PURGE (C33): one node's compaction-relevant state and the handlers that touch it. Models

  * d-engine-core/src/raft_role/leader_state.rs   `can_purge_logs`, `handle_snapshot_created` (Phase 1 schedule via
      `scheduled_purge_upto`, Phase 2 execute whatever is scheduled + `LogPurgeCompleted`), `handle_log_purge_completed`
  * d-engine-core/src/raft_role/follower_state.rs / learner_state.rs  `can_purge_logs`, `handle_snapshot_created`
      (purge + `last_purged_index := last_included`), role conversions (`From<&…>`: which fields survive)
  * d-engine-core/src/purge/default_executor.rs `execute_purge` = `raft_log.purge_logs_up_to`
  * d-engine-core/src/storage/buffered_raft_log.rs `purge_logs_up_to` (memory: remove `0..=cutoff`, new min/max,
      purge-boundary atomics; IO task `Purge`), `entry_term` (boundary fallback), constructor `new`
      (load `1..=last_index` from the store, `load_purge_boundary`)
  * d-engine-core/src/state_machine_handler/default_state_machine_handler.rs `create_snapshot`
      (label = last_applied − retained_log_entries, saturating) and the engines' `generate_snapshot_data`
      (`update_last_snapshot_metadata`), `snapshot_metadata`, `persist_last_snapshot_metadata`
      (File: `snapshot_metadata.bin`; RocksDB: META column family), `LogStore::load_purge_boundary`
      (File: `purge_boundary.bin`; RocksDB: META column family; both written by the purge IO task)
  * d-engine-core/src/replication/replication_handler.rs `prepare_batch_requests`: snapshot-target rule
      `min_log_index > 1 && next_index < min_log_index`, otherwise `build_append_request` prev = next−1,
      prev_term = `entry_term(prev).unwrap_or(0)`
  * d-engine-core/src/raft.rs `SnapshotPushCompleted{success}` → `init_peers_next_index_and_match_index(last, [peer])`
  * graceful restart: raft log closed (everything flushed), state machine stopped; a fresh role state
    (`last_purged_index = None`, `scheduled_purge_upto = None`, commit index 0).
-/
namespace DEngine.Purge

inductive Eng where | file | rocks
deriving Repr, DecidableEq

inductive Role where | L | F | N
deriving Repr, DecidableEq

structure PState where
  eng : Eng
  role : Role
  ret : Nat                       -- snapshot.retained_log_entries
  first : Nat                     -- raft log min_index (0 = empty log)
  last : Nat                      -- raft log max_index
  terms : List Nat                -- ghost: term of every index ever appended (position i-1 ↦ index i)
  bIdx : Nat                      -- purge boundary atomics (last_purged_index, last_purged_term)
  bTerm : Nat
  commit : Nat
  applied : Nat                   -- state machine last_applied.index
  snap : Option Nat               -- state machine `snapshot_metadata().last_included.index`
  rolePurged : Option Nat         -- role state's `last_purged_index`
  sched : Option (Nat × Nat)      -- leader's `scheduled_purge_upto` (index, term)
deriving Repr

def termAt (s : PState) (i : Nat) : Nat := if i = 0 then 0 else s.terms.getD (i - 1) 0

/-- `BufferedRaftLog::entry_term` -/
def entryTerm (s : PState) (i : Nat) : Option Nat :=
  if s.last = 0 ∨ i < s.first ∨ i > s.last then
    (if s.bIdx > 0 ∧ i = s.bIdx then some s.bTerm else none)
  else some (termAt s i)

/-- `can_purge_logs` (identical in leader, follower and learner) -/
def canPurge (commit : Nat) (lastPurged : Option Nat) (lastIncluded : Nat) : Bool :=
  decide (lastIncluded < commit) &&
  (match lastPurged with
   | some lp => decide (lp < lastIncluded)
   | none => true)

/-- `BufferedRaftLog::purge_logs_up_to(cutoff)` with cutoff term `t` -/
def purgeLog (s : PState) (cutoff t : Nat) : PState :=
  if s.last = 0 ∨ cutoff ≥ s.last then
    { s with first := 0, last := 0, bIdx := cutoff, bTerm := t }      -- everything removed
  else if cutoff < s.first then
    { s with bIdx := cutoff, bTerm := t }                               -- nothing to remove
  else
    { s with first := cutoff + 1, bIdx := cutoff, bTerm := t }

/-- `create_snapshot`: the label and the engine's metadata update -/
def snapshotLabel (s : PState) : Nat := s.applied - s.ret

/-- The harness writes entry `i` as `put k{i % 3}`; the File engine keeps, per live key, the term of the entry that
    wrote it. These are the stored terms after applying `1..=applied`. -/
def liveKeyTerms (s : PState) : List Nat :=
  (List.range 3).filterMap (fun j =>
    ((List.range (s.applied + 1)).reverse.find? (fun i => decide (i ≥ 1) && i % 3 == j)).map (termAt s))

/-- term the label carries: `state_machine.entry_term(label).unwrap_or(last_applied.term)`.
    RocksDB's `entry_term` is always `None`. The File engine's `entry_term(id)` searches the live values for one
    whose stored *term* equals `id` and returns that term (so it answers `Some(id)` by coincidence or `None`). -/
def labelTerm (s : PState) (label : Nat) : Nat :=
  match s.eng with
  | .rocks => termAt s s.applied
  | .file => if (liveKeyTerms s).contains label then label else termAt s s.applied

/-- What handling `SnapshotCreated(label, lt)` decides: (new `scheduled_purge_upto`, the purge to execute).
    Leader: Phase 1 schedules the label if `can_purge_logs` allows it and it is newer than what is scheduled; Phase 2
    executes whatever is scheduled (also an older schedule when Phase 1 refused). Follower / learner: purge the label
    iff `can_purge_logs`. -/
def snapDecision (role : Role) (commit : Nat) (rolePurged : Option Nat) (sched : Option (Nat × Nat))
    (label lt : Nat) : Option (Nat × Nat) × Option (Nat × Nat) :=
  match role with
  | .L =>
      let sched' := if canPurge commit rolePurged label then
          (match sched with
           | some e => if e.1 ≥ label then some e else some (label, lt)
           | none => some (label, lt))
        else sched
      (sched', sched')
  | _ => if canPurge commit rolePurged label then (sched, some (label, lt)) else (sched, none)

/-- the role's `last_purged_index` after a purge to `p`: leader via `handle_log_purge_completed` (monotone),
    follower / learner assign -/
def newRolePurged (role : Role) (cur : Option Nat) (p : Nat) : Option Nat :=
  match role with
  | .L => (match cur with
           | some c => if p > c then some p else some c
           | none => some p)
  | _ => some p

/-- `handle_snapshot_created(Ok((metadata, path)))` after `create_snapshot`; returns the purge that was executed. -/
def onSnapshotCreated (s0 : PState) : PState × Option Nat :=
  let label := snapshotLabel s0
  let lt := labelTerm s0 label
  let d := snapDecision s0.role s0.commit s0.rolePurged s0.sched label lt
  let s := { s0 with snap := some label, sched := d.1 }
  match d.2 with
  | some p => ({ purgeLog s p.1 p.2 with rolePurged := newRolePurged s0.role s0.rolePurged p.1 }, some p.1)
  | none => (s, none)

/-- graceful restart into role `r`: the log (with its purge boundary), the applied index and the snapshot metadata
    are persistent on both engines (File engine: since fixes 8997011 `snapshot_metadata.bin` and aab5543
    `purge_boundary.bin`; before them the boundary and the metadata were lost: F26a / F26b); the role state is fresh -/
def restart (s : PState) (r : Role) : PState :=
  { s with role := r, commit := 0, rolePurged := none, sched := none }

inductive POp where
  | write (k t : Nat)
  | commit (i : Nat)
  | apply (i : Nat)
  | snapshot
  | query (lp li : Nat)
  | trans (r : Role)
  | restart (r : Role)
  | peer (next : Nat)
  | pushDone
deriving Repr

inductive PeerPlan where
  | append (prev prevTerm : Nat)
  | snapshotTarget (snap : Option Nat)
deriving Repr, DecidableEq

/-- `prepare_batch_requests` for one peer + what Phase 6 of `execute_and_process_raft_rpc` can push -/
def planPeer (s : PState) (next : Nat) : PeerPlan :=
  if s.first > 1 ∧ next < s.first then .snapshotTarget s.snap
  else .append (next - 1) ((entryTerm s (next - 1)).getD 0)

structure PObs where
  first : Nat
  last : Nat
  bt : Option Nat
  rp : Option Nat
  sc : Option Nat
  sn : Option Nat
  la : Nat
  c : Nat
  purged : Option Nat
deriving Repr, DecidableEq

def observe (s : PState) (purged : Option Nat) : PObs :=
  { first := s.first, last := s.last, bt := if s.first ≥ 2 then entryTerm s (s.first - 1) else none,
    rp := s.rolePurged, sc := if s.role = .L then s.sched.map (·.1) else none, sn := s.snap, la := s.applied, c := s.commit,
    purged }

inductive POut where
  | st (o : PObs)
  | ans (b : Bool)
  | plan (p : PeerPlan)
  | next (n : Option Nat)
  | refused
deriving Repr, DecidableEq

def step (s : PState) : POp → PState × POut × String
  | .write k t =>
      let s' := { s with terms := s.terms.take s.last ++ List.replicate k t,
                         first := if s.last = 0 then (if k = 0 then s.first else 1) else s.first,
                         last := s.last + k }
      (s', .st (observe s' none), "write")
  | .commit i =>
      -- `LeaderState::update_commit_index` only advances; the default (follower / learner) stores any value
      let s' := if s.role = .L then (if s.commit < i then { s with commit := i } else s) else { s with commit := i }
      (s', .st (observe s' none), "commit")
  | .apply i =>
      let s' := if i > s.applied then { s with applied := i } else s
      (s', .st (observe s' none), "apply")
  | .snapshot =>
      let (s', p) := onSnapshotCreated s
      -- the harness reports a purge through the moved log start
      let moved := if s'.first ≠ s.first ∧ s'.first ≥ 1 then some (s'.first - 1) else none
      (s', .st (observe s' moved),
        match p with
        | some _ => if moved.isSome then "snapshot-purge" else "snapshot-purge-noop"
        | none => "snapshot-nopurge")
  | .query lp li =>
      (s, .ans (canPurge s.commit (if lp = 0 then none else some lp) li), "query")
  | .trans r =>
      match s.role, r with
      | .L, .F => let s' := { s with role := .F, sched := none }; (s', .st (observe s' none), "trans-L-F")
      | .F, .L => let s' := { s with role := .L, sched := none }; (s', .st (observe s' none), "trans-F-L")
      | .N, .F => let s' := { s with role := .F, sched := none, rolePurged := none }
                  (s', .st (observe s' none), "trans-N-F")
      | _, _ => (s, .refused, "trans-refused")
  | .restart r => let s' := restart s r; (s', .st (observe s' none), "restart")
  | .peer next =>
      (s, .plan (planPeer s next),
        match planPeer s next with
        | .append _ _ => "peer-append"
        | .snapshotTarget (some _) => "peer-snapshot"
        | .snapshotTarget none => "peer-snapshot-missing")
  | .pushDone =>
      (s, .next (if s.role = .L then some (s.last + 1) else none), "push-done")

def run : PState → List POp → List POut × List String × PState
  | s, [] => ([], [], s)
  | s, op :: ops =>
      let (s', o, tag) := step s op
      let (os, tags, sf) := run s' ops
      (o :: os, tag :: tags, sf)

def initState (eng : Eng) (role : Role) (ret : Nat) : PState :=
  { eng, role, ret, first := 0, last := 0, terms := [], bIdx := 0, bTerm := 0, commit := 0, applied := 0,
    snap := none, rolePurged := none, sched := none }

/-! ## Monitor (the decidable form of the two C33 theorems, evaluated on the implementation's observations) -/

/-- the snapshot the node holds covers the start of its log, and the term at the boundary is known -/
def servedOk (first : Nat) (bt sn : Option Nat) : Option String :=
  if first ≤ 1 then none
  else match sn with
    | none => some "purged-log-without-snapshot"
    | some m => if m + 1 < first then some "snapshot-behind-purge-boundary"
                else if bt.isNone then some "purge-boundary-term-unknown" else none

/-- monitor state: commit index and log start before the op -/
def monRun : (commit : Nat) → (first : Nat) → List POp → List POut → Option String
  | _, _, [], _ => none
  | _, _, _ :: _, [] => some "missing-observation"
  | c, f, op :: ops, o :: os =>
      match op, o with
      | .query lp li, .ans b =>
          if b && !(decide (li < c) && (lp == 0 || decide (lp < li))) then some "can-purge-accepts-unsafe"
          else monRun c f ops os
      | .peer next, .plan p =>
          (match p with
           | .snapshotTarget none => some "lagging-peer-no-snapshot"
           | .snapshotTarget (some m) =>
               if m + 1 < f then some "lagging-peer-snapshot-behind-boundary" else monRun c f ops os
           | .append prev pt =>
               if next < f then some "lagging-peer-not-snapshot-target"
               else if prev ≥ 1 ∧ prev + 1 = f ∧ pt = 0 then some "append-at-boundary-without-term"
               else monRun c f ops os)
      | _, .st ob =>
          -- a purge (log start moved forward) must be below the commit index seen before the op and covered by the
          -- snapshot the node holds afterwards
          let bad : Option String :=
            match op with
            | .snapshot =>
                if ob.first > f ∧ f ≥ 1 ∨ (f = 0 ∧ False) then
                  (if !(decide (ob.first - 1 < c)) then some "purged-uncommitted"
                   else match ob.sn with
                     | some m => if ob.first - 1 ≤ m then none else some "purged-beyond-snapshot"
                     | none => some "purged-without-snapshot")
                else none
            | _ => none
          (match bad with
           | some sig => some sig
           | none => monRun ob.c ob.first ops os)
      | _, _ => monRun c f ops os


/-! ## The per-follower replication worker for a peer below the purge boundary

  Models d-engine-core/src/raft_role/leader_state.rs `execute_and_process_raft_rpc` Phase 5 / Phase 6 (per-peer
  backoff window `snapshot_next_retry_at`), `send_to_worker_or_spawn`, `run_replication_worker` (one
  `snapshot_in_progress` flag per worker: set when a `Snapshot` task is taken, cleared when the push completes —
  successfully or not; while set, `Snapshot` and `Append` tasks are dropped), `handle_snapshot_push_completed`
  (failure counter, `snapshot_push_backoff_duration` = min(base · 2^min(count,20), cap)) and raft.rs
  `SnapshotPushCompleted{success}` → `init_peers_next_index_and_match_index(last, [peer])`.
  One step = one heartbeat round `dt` ms after the previous one (dt ≥ the heartbeat interval), the push attempt
  completes within the round; the transport's push fails `failsLeft` more times.
  Stream break (`wBreak`): the ack stream yields an error → the recv task sets `stream_broken` and emits
  `PeerStreamError` → raft.rs resets next_index to match_index + 1 (match 0 here). The worker notices the flag only
  when it pops its next task: that task (Append or Snapshot) is dropped and the stream is re-opened. -/

structure WState where
  first : Nat
  last : Nat
  snap : Option Nat
  base : Nat
  cap : Nat
  now : Nat
  next : Nat                  -- leader's next_index for the peer
  failsLeft : Nat             -- environment: how many more pushes fail
  failCount : Nat             -- `snapshot_failure_count`
  retryAt : Option Nat        -- `snapshot_next_retry_at`
  inProgress : Bool           -- the worker's `snapshot_in_progress`
  broken : Bool               -- the worker's `stream_broken` (set by its recv task when the ack stream fails)
  hasWorker : Bool            -- a worker (and its stream) exists: some task has been handed over
deriving Repr

inductive WCall where
  | pushFailed
  | pushOk
  | append (prev : Nat)
deriving Repr, DecidableEq

/-- `snapshot_push_backoff_duration(failure_count, policy)` in ms -/
def pushBackoff (base cap count : Nat) : Nat := min (base * 2 ^ (min count 20)) cap

/-- Phase 6: `Instant::now() < retry_at` -/
def inBackoff (retryAt : Option Nat) (now : Nat) : Bool :=
  match retryAt with
  | some r => decide (now < r)
  | none => false

def wStep (s0 : WState) (dt : Nat) : WState × List WCall :=
  let s := { s0 with now := s0.now + dt }
  if s.first > 1 ∧ s.next < s.first then
    -- snapshot target (prepare_batch_requests); Phase 6
    match s.snap with
    | none => (s, [])
    | some _ =>
        if inBackoff s0.retryAt (s0.now + dt) then (s, [])
        else if s.broken then ({ s with broken := false, hasWorker := true }, [])   -- popped task dropped, stream re-opened
        else if s.inProgress then ({ s with hasWorker := true }, [])   -- worker drops the duplicate Snapshot task
        else if s.failsLeft > 0 then
          -- flag set, push fails, flag cleared, SnapshotPushCompleted{false}
          let c := s.failCount + 1
          ({ s with hasWorker := true, failsLeft := s.failsLeft - 1, inProgress := false, failCount := c,
                    retryAt := some (s.now + pushBackoff s.base s.cap c) }, [.pushFailed])
        else
          ({ s with hasWorker := true, inProgress := false, failCount := 0, retryAt := none, next := s.last + 1 },
            [.pushOk])
  else
    -- AppendEntries: prev = next - 1, entries next..=last, speculative next_index advance
    let s' := if s.next ≤ s.last then { s with next := s.last + 1, hasWorker := true } else { s with hasWorker := true }
    if s.broken then ({ s' with broken := false }, [])
    else if s.inProgress then (s', []) else (s', [.append (s.next - 1)])

/-- the ack stream of the peer fails: `stream_broken`, `PeerStreamError` → next_index := match_index + 1 = 1 -/
def wBreak (s : WState) : WState :=
  if s.hasWorker && !s.broken then { s with broken := true, next := 1 } else s

inductive WOp where
  | hb (dt : Nat)
  | brk
deriving Repr, DecidableEq

def wApply (s : WState) : WOp → WState × List WCall
  | .hb dt => wStep s dt
  | .brk => (wBreak s, [])

def wRun : WState → List WOp → List (List WCall × Nat)
  | _, [] => []
  | s, op :: ops => let (s', cs) := wApply s op; (cs, s'.next) :: wRun s' ops

/-- monitor of the worker kind, on the implementation's per-op observations (calls, next_index): whenever a push /
    an append is due, something must reach the peer — except in the one round that consumes a stream break. -/
def wMon (first last : Nat) (snap : Option Nat) (base cap : Nat) :
    (now next failCount : Nat) → (retryAt : Option Nat) → (broken hadBreak hasWorker : Bool) →
    List WOp → List (List WCall × Nat) → Option String
  | _, _, _, _, _, _, _, [], _ => none
  | _, _, _, _, _, _, _, _ :: _, [] => some "missing-observation"
  | now, _, fc, ra, broken, hadBreak, hw, .brk :: ops, (_, next') :: os =>
      wMon first last snap base cap now next' fc ra (broken || hw) (hadBreak || hw) hw ops os
  | now0, next, fc, ra, broken, hadBreak, hw, .hb dt :: ops, (calls, next') :: os =>
      let now := now0 + dt
      let target := decide (first > 1) && decide (next < first)
      let pushed := calls.contains .pushFailed || calls.contains .pushOk
      let appended := calls.any (fun c => match c with | .append _ => true | _ => false)
      let due := target && snap.isSome && (match ra with | some r => decide (r ≤ now) | none => true)
      let taskSent := due || !target
      -- the round that consumes a stream break may deliver nothing
      if taskSent && broken && !pushed && !appended then
        wMon first last snap base cap now next' fc ra false hadBreak true ops os
      else if due && !pushed then
        some (if fc > 0 then "peer-never-served-after-failed-push"
              else if hadBreak then "peer-never-served-after-stream-break" else "lagging-peer-push-not-attempted")
      else if !target && !appended then some "peer-append-dropped"
      else if calls.contains .pushOk && next' != last + 1 then some "next-index-not-reset-after-push"
      else if calls.contains .pushOk && (match snap with | some m => decide (m + 1 < first) | none => true) then
        some "pushed-snapshot-behind-boundary"
      else
        let fc' := if calls.contains .pushOk then 0 else if calls.contains .pushFailed then fc + 1 else fc
        let ra' := if calls.contains .pushOk then none
                   else if calls.contains .pushFailed then some (now + pushBackoff base cap (fc + 1)) else ra
        wMon first last snap base cap now next' fc' ra' (broken && !taskSent) hadBreak (hw || taskSent) ops os

end DEngine.Purge
