import DEngine.Model.Proto
import DEngine.Model.Elect
import DEngine.Model.ElectCluster
/-
  Family `elect`: line protocol (model side) and the decidable monitors of C01, C02, C03, C31.
  The Bool predicates defined here (`votesOK`, `sortedLE`, `leadersOK`, `skipOK`, `pubsTruthful`, …) are the ones the
  theorems in Props/C01, C02, C03, C31 are stated with; the monitors evaluate them on observations rebuilt
  from the IMPLEMENTATION's output line.
-/
namespace DEngine.Elect
open DEngine.Proto

/-! ### decidable predicates shared by theorems and monitors -/

/-- votes = (voter, candidate, term), any order: one candidate per (voter, term) -/
def votesOK (vs : List (Nat × Nat × Nat)) : Bool :=
  vs.all fun a => vs.all fun b => !(a.1 == b.1 && a.2.2 == b.2.2) || a.2.1 == b.2.1

def sortedLE : List Nat → Bool
  | [] => true
  | [_] => true
  | a :: b :: rest => decide (a ≤ b) && sortedLE (b :: rest)

/-- leaders = (node, term): one node per term -/
def leadersOK (ls : List (Nat × Nat)) : Bool :=
  ls.all fun a => ls.all fun b => !(a.2 == b.2) || a.1 == b.1

/-- C03: an election won without sending a single vote request is only acceptable with no other voter -/
def skipOK (o : Outcome) (voters : List Nat) : Bool :=
  !(o == .wonWithoutVotes) || voters.isEmpty

/-- terms of the `Some(leader, term)` values, chronological -/
def pubTerms (ps : List Pub) : List Nat := ps.filterMap fun p => p.map (·.2)

def pubsTruthful (ps : List Pub) (leaders : List (Nat × Nat)) : Bool :=
  ps.all fun p => match p with
    | none => true
    | some lt => leaders.contains lt

/-! ### parsing helpers -/

def parseVF (s : String) : Option (Option VF) :=
  if s == "-" then some none
  else match s.splitOn ":" with
    | [a, b, c] => do
      let id ← a.toNat?
      let t ← b.toNat?
      some (some ⟨id, t, c == "1"⟩)
    | _ => none

def showVF : Option VF → String
  | none => "-"
  | some v => s!"{v.id}:{v.term}:{if v.committed then 1 else 0}"

def showPub : Pub → String
  | none => "N"
  | some (l, t) => s!"{l}.{t}"

def parsePub (s : String) : Option Pub :=
  if s == "N" then some none
  else match s.splitOn "." with
    | [a, b] => do
      let l ← a.toNat?
      let t ← b.toNat?
      some (some (l, t))
    | _ => none

def statusOf (s : String) : Option Nat :=
  if s == "a" then some 3 else if s == "p" then some 1 else if s == "r" then some 2 else if s == "u" then some 0 else none

def parseMembers (s : String) : Option (List MNode) :=
  if s.isEmpty || s == "-" then some []
  else (s.splitOn "+").mapM fun x =>
    match x.splitOn ":" with
    | [a, r, st] => do
      let id ← a.toNat?
      let status ← statusOf st
      some ⟨id, r == "l", status⟩
    | _ => none

def parseIds (s : String) : Option (List Nat) :=
  if s.isEmpty || s == "-" then some [] else (s.splitOn "+").mapM String.toNat?

def parseChange (s : String) : Option Change :=
  match s.splitOn "." with
  | ["add", a, st] => do some (.addNode (← a.toNat?) (← statusOf st))
  | ["rm", a] => do some (.removeNode (← a.toNat?))
  | ["pro", a] => do some (.promote (← a.toNat?))
  | ["bp", ids, st] => do some (.batchPromote (← parseIds ids) (← statusOf st))
  | ["br", ids] => do some (.batchRemove (← parseIds ids))
  | _ => none

inductive RespSpec where
  | grant | deny (t i l : Nat) | rpcErr | real (j : Nat)

def parseRespSpec (x : String) : Option RespSpec :=
  if x == "g" then some .grant
  else if x == "e" then some .rpcErr
  else if x.startsWith "r" then (x.drop 1).toString.toNat?.map .real
  else if x.startsWith "d" then
    match ((x.drop 1).toString.splitOn ".").mapM String.toNat? with
    | some [a, b, c] => some (.deny a b c)
    | _ => none
  else none

/-- (transport error, specs); separators `+` or `,` -/
def parseResps (s : String) : Option (Bool × List RespSpec) :=
  if s == "X" then some (true, [])
  else if s.isEmpty || s == "-" then some (false, [])
  else do
    let parts := (s.splitOn "+").flatMap (·.splitOn ",")
    let l ← parts.mapM parseRespSpec
    some (false, l)

/-! ### kinds hvr / tal / svr -/

def outcomeStr : Outcome → String
  | .wonWithoutVotes => "ok"
  | .won => "ok"
  | .noVoters => "err no-voters"
  | .transportErr => "err transport"
  | .higherTerm t => s!"err higher-term {t}"
  | .logConflict => "err log-conflict"
  | .quorumFailure r s => s!"err quorum {r} {s}"

def outcomeTag : Outcome → String
  | .wonWithoutVotes => "el:won-without-votes"
  | .won => "el:won"
  | .noVoters => "el:no-voters"
  | .transportErr => "el:transport-err"
  | .higherTerm _ => "el:higher-term"
  | .logConflict => "el:log-conflict"
  | .quorumFailure _ _ => "el:quorum-failure"

def modelHvr (line : String) : String :=
  let fs := fields line
  match natField fs "cur", natField fs "lli", natField fs "llt", natField fs "rt", natField fs "rc",
        natField fs "rli", natField fs "rlt", (lookup fs "vf").bind parseVF with
  | some cur, some lli, some llt, some rt, some rc, some rli, some rlt, some vf =>
    let r : VoteReq := ⟨rt, rc, rli, rlt⟩
    let su := handleVoteRequest r cur vf lli llt
    let legal := checkVoteRequestIsLegal r cur lli llt vf
    let tu := match su.termUpdate with | some t => toString t | none => "-"
    s!"tu={tu} nv={showVF su.newVote} legal={if legal then 1 else 0}\t{(voteDecision r cur vf lli llt).tag},legal:{legal}"
  | _, _, _, _, _, _, _, _ => "bad-case\t-"

def specToResp (term : Nat) : RespSpec → Resp
  | .grant => .ok true term 0 0
  | .deny t i l => .ok false t i l
  | _ => .err

/-- membership of the `tal` kind: `k` initial Active voters `my .. my+k-1`, first `r` peers removed, `a` added
    as Promotable learners and batch-promoted to Active -/
def talMemb (my k a r : Nat) : Memb :=
  let initial := (List.range k).map fun i => (⟨my + i, false, 3⟩ : MNode)
  let m0 := Memb.mk' my initial
  let m1 := if r > 0 then (m0.apply (.batchRemove ((List.range r).map fun i => my + 1 + i))).1 else m0
  let added := (List.range a).map fun i => my + 1000 + i
  let m2 := added.foldl (fun m id => (m.apply (.addNode id 1)).1) m1
  if added.isEmpty then m2 else (m2.apply (.batchPromote added 3)).1

def modelTal (line : String) : String :=
  let fs := fields line
  match natField fs "my", natField fs "term", natField fs "lli", natField fs "llt", natField fs "init",
        natField fs "add", natField fs "rm", lookup fs "pids", (lookup fs "rs").bind parseResps with
  | some my, some term, some lli, some llt, some k, some a, some r, some pids, some (_, specs) =>
    let m0 := talMemb my k a r
    let chs : List Change := match lookup fs "ch" with
      | some c => if c == "-" || c.isEmpty then [] else (c.splitOn "/").filterMap parseChange
      | none => []
    let m := m0.applyAll chs
    let transport := if pids == "x" then none else some (pids.toNat?.getD 0, specs.map (specToResp term))
    let o := broadcastOutcome m term lli llt transport
    let sent := if m.isSingleNodeCluster || m.voters.isEmpty then 0 else 1
    s!"{outcomeStr o} sent={sent} voters={m.voters.length}\t{outcomeTag o}"
  | _, _, _, _, _, _, _, _, _ => "bad-case\t-"

/-- `GrpcTransport::send_vote_requests` with every voter unreachable: the id joins `peer_ids` before the channel
    is fetched, no task is spawned, no response comes back. -/
def modelSvr (line : String) : String :=
  let fs := fields line
  match natField fs "voters" with
  | some 0 => "err empty-peer-list\tsvr:empty"
  | some n => s!"pids={n} resp=0 ok=0\tsvr:unreachable-counted"
  | none => "bad-case\t-"

/-! ### kind cl -/

structure Head where
  id : Nat
  learner : Bool
  image : Option Hard
  lli : Nat
  llt : Nat
  initial : List MNode

def parseHead (s : String) : Option Head :=
  match s.splitOn "," with
  | [id, role, term, vf, lli, llt, members] => do
    let id ← id.toNat?
    let image ← if term == "-" then some none else do
      let t ← term.toNat?
      let v ← parseVF vf
      some (some (⟨t, v⟩ : Hard))
    some ⟨id, role == "l", image, ← lli.toNat?, ← llt.toNat?, ← parseMembers members⟩
  | _ => none

def mkProc (h : Head) : Proc :=
  { node := bootNode h.id h.learner h.image h.lli h.llt [], up := true, image := h.image,
    memb := Memb.mk' h.id h.initial, initial := h.initial, startLearner := h.learner }

def mkCluster (hs : List Head) : Cluster :=
  { proc := fun i => match hs.find? (·.id == i) with
      | some h => mkProc h
      | none => default
    flight := fun _ => none, leaders := [], grants := [], fv := fun _ _ => none }

/-- persist-order tag of one handled request: since c4109f0 every change of term / vote is saved by the mutator that
    makes it, i.e. before the handler hands the reply over: `pb` when the hard state changed, `pn` when it did not.
    (`pa` — a save after the reply — is what the harness reports when the code replies first.) -/
def persistTag (n n' : Node) : String :=
  if n.term == n'.term && n.vf == n'.vf then "pn" else "pb"

def roleCh : Role → String
  | .follower => "f" | .candidate => "c" | .leader => "L" | .learner => "l"

def parseIEv (noop : Option Nat) (x : String) : Option IEv :=
  match x.splitOn "." with
  | ["nci", k] => k.toNat?.map .commitIdx
  | ["nc", t] => if t == "@" then noop.map .noopCommitted else t.toNat?.map .noopCommitted
  | ["bf", l] => if l == "-" then some (.becomeFollower none) else l.toNat?.map fun v => .becomeFollower (some v)
  | ["bc"] => some .becomeCandidate
  | ["ld", l, t] => do some (.leaderDiscovered (← l.toNat?) (← t.toNat?))
  | ["ht", t] => t.toNat?.map .higherTermReply
  | _ => none

structure Exec where
  c : Cluster
  seen : Nat → Nat            -- number of pubs of a node already printed
  tags : List String

def Exec.tail (e : Exec) (p : Nat) : String × Exec :=
  let n := (e.c.proc p).node
  let fresh := (n.pubs.take (n.pubs.length - e.seen p)).reverse
  let ps := if fresh.isEmpty then "-" else "+".intercalate (fresh.map showPub)
  (s!"{roleCh n.role}{n.term}/{showVF n.vf}/{ps}", { e with seen := upd e.seen p n.pubs.length })

def Exec.step (e : Exec) (l : Label) : Exec := { e with c := DEngine.Elect.step e.c l }
def Exec.tag (e : Exec) (t : String) : Exec := { e with tags := t :: e.tags }

/-- one harness op → (output, state) -/
def execOp (ids : List Nat) (e : Exec) (op : String) : String × Exec :=
  let p := op.splitOn ","
  let name := p.getD 0 ""
  let argN (k : Nat) : Nat := ((p.getD k "").toNat?).getD 0
  let idx := if name == "hb" then argN 2 else argN 1
  match ids[idx]? with
  | none => ("nonode", e)
  | some me =>
    let up := (e.c.proc me).up
    if !up && name != "restart" then ("down", e)
    else
      let node := (e.c.proc me).node
      let (res, e1) : String × Exec :=
        if name == "vr" then
          let r : VoteReq := ⟨argN 2, argN 3, argN 4, argN 5⟩
          let (c', resp) := e.c.handleVoteReq me r
          (s!"g{if resp.granted then 1 else 0}.t{resp.term}.{persistTag node (c'.proc me).node}",
            (e.step (.voteReq me r)).tag (voteReqTag node r))
        else if name == "ae" then
          let (n', o) := onAppendEntries node (argN 2) (argN 3)
          let s := (match o with | .accepted => "ok" | .higherTerm t => s!"ht{t}") ++ "." ++ persistTag node n'
          (s, (e.step (.appendEntries me (argN 2) (argN 3))).tag (aeTag node (argN 2)))
        else if name == "hb" then
          match ids[argN 1]? with
          | none => ("nl", e)
          | some l =>
            let ln := (e.c.proc l).node
            if l == me || !(e.c.proc l).up || ln.role != .leader then ("nl", e)
            else
              let (n', o) := onAppendEntries node ln.term l
              let s := (match o with | .accepted => "ok" | .higherTerm t => s!"ht{t}") ++ "." ++ persistTag node n'
              (s, (e.step (.heartbeat l me)).tag ("hb-" ++ aeTag node ln.term))
        else if name == "to" then
          match node.role with
          | .follower => ("cand", (e.step (.timeout me)).tag "to:follower")
          | .candidate =>
            let m := (e.c.proc me).memb
            let voters := m.voters
            let single := m.isSingleNodeCluster
            let willSend := !single && !voters.isEmpty
            match parseResps (p.getD 2 "-") with
            | none => ("badspec", e)
            | some (xerr, specs) =>
              let e0 := e.step (.start me)
              let t1 := node.term + 1
              let (extra, e2, _) := specs.foldl (init := ("", e0, ([] : List Nat))) fun (acc : String × Exec × List Nat) s =>
                let (extra, ex, done) := acc
                match s with
                | .real j =>
                  match ids[j]? with
                  | some pj =>
                    if willSend && !xerr && pj != me && (ex.c.proc pj).up && voters.contains pj && !done.contains pj then
                      let (_, resp) := ex.c.handleVoteReq pj (ex.c.requestOf me)
                      let ex1 := ex.step (.deliver me pj)
                      let ptag := persistTag (ex.c.proc pj).node (ex1.c.proc pj).node
                      let (tl, ex2) := ex1.tail pj
                      (extra ++ s!".r{j}=g{if resp.granted then 1 else 0}t{resp.term}{ptag}({tl})", ex2, pj :: done)
                    else (extra ++ s!".r{j}=x", ex.step (.scripted me .err), done)
                  | none => (extra ++ s!".r{j}=x", ex.step (.scripted me .err), done)
                | other => (extra, ex.step (.scripted me (specToResp t1 other)), done)
              let pr := e2.c.proc me
              let fl := (e2.c.flight me).getD ⟨[]⟩
              let transport := if xerr then none else some (voters.length, fl.resps.map (·.2))
              let o := tally pr.node.term pr.node.lli pr.node.llt single voters.length transport
              let e3 := (e2.step (.finish me (!xerr))).tag (outcomeTag o)
              let r2 := (e3.c.proc me).node.role
              let outcome := if r2 == .leader then "ok" else if r2 == .follower then "ht" else "lost"
              (s!"el.{outcome}.e{t1}.s{if willSend then 1 else 0}.v{voters.length}{extra}", e3)
          | _ => ("skip", e.tag "to:skip")
        else if name == "sd" then ("ok", (e.step (.stepDown me)).tag s!"sd:{roleCh node.role}")
        else if name == "ht" then ("ok", (e.step (.higherTerm me (argN 2))).tag s!"ht:{roleCh node.role}")
        else if name == "nc" then
          match node.role, node.noopTerm with
          | .leader, some _ => ("ok", (e.step (.noopCommitted me)).tag "nc:leader")
          | _, _ => ("noop", e.tag "nc:noop")
        else if name == "iq" then
          -- internal event queue `A[~B]`: A buffered, B in the channel (ElectQueue in Model/Elect.lean: `runIQ`)
          let spec := p.getD 2 "-"
          let (a, b) := match spec.splitOn "~" with
            | [a, b] => (a, b)
            | _ => (spec, "-")
          let evs (x : String) : List IEv := if x == "-" || x.isEmpty then [] else (x.splitOn "+").filterMap (parseIEv (if node.role == .leader then node.noopTerm else none))
          let q0 : IQ := ⟨node, evs a, evs b, []⟩
          let q := runIQ false 100 (4 * ((evs a).length + (evs b).length) + 8) q0
          let items := q.log.reverse.map fun (r, t, pb) =>
            s!"{roleCh r}{t}={match pb with | some v => showPub v | none => "-"}"
          let st := if items.isEmpty then "-" else "_".intercalate items
          (s!"iq.{st}", { e with c := e.c.setNode me q.node }.tag "iq")
        else if name == "lg" then ("ok", e.step (.logChange me (argN 2) (argN 3)))
        else if name == "cc" then
          match parseChange (p.getD 2 "") with
          | some ch =>
            let ok := ((e.c.proc me).memb.apply ch).2
            (if ok then "ok" else "err", (e.step (.confChange me ch)).tag "cc")
          | none => ("badchange", e)
        else if name == "stop" then ("ok", (e.step (.stop me)).tag "stop")
        else if name == "crash" then ("ok", (e.step (.crash me)).tag "crash")
        else if name == "restart" then
          if up then ("noop", e) else ("ok", (e.step (.restart me)).tag "restart")
        else ("badop", e)
      if (e1.c.proc me).up then
        let (tl, e2) := e1.tail me
        (s!"{res}/{tl}", e2)
      else (s!"{res}/down", e1)

def parseCl (line : String) : Option (List Head × List String) :=
  if !line.startsWith "cl " then none
  else
    let body := (line.drop 3).toString
    match body.splitOn "|" with
    | [head, ops] => do
      let hs ← (head.splitOn "/").mapM parseHead
      some (hs, (ops.splitOn ";").filter (· != ""))
    | _ => none

def runCl (hs : List Head) (ops : List String) : List String × Exec :=
  let ids := hs.map (·.id)
  let e0 : Exec := ⟨mkCluster hs, fun _ => 0, []⟩
  ops.foldl (init := ([], e0)) fun (acc : List String × Exec) op =>
    let (o, e') := execOp ids acc.2 op
    (acc.1 ++ [o], e')

def modelCl (line : String) : String :=
  match parseCl line with
  | none => "bad-case\t-"
  | some (hs, ops) =>
    let (outs, e) := runCl hs ops
    let tags := e.tags.eraseDups
    s!"{";".intercalate outs}\t{",".intercalate tags}"

def modelLine (line : String) : String :=
  if line.startsWith "hvr " then modelHvr line
  else if line.startsWith "tal " then modelTal line
  else if line.startsWith "svr " then modelSvr line
  else if line.startsWith "cl " then modelCl line
  else "bad-case\t-"

/-! ### observations rebuilt from the implementation's output of a `cl` case -/

structure TailObs where
  role : String
  term : Nat
  vf : String
  pubs : List Pub

def parseTail (role_term vf pubs : String) : Option TailObs := do
  let role := (role_term.take 1).toString
  let term ← (role_term.drop 1).toString.toNat?
  let ps ← if pubs == "-" then some [] else (pubs.splitOn "+").mapM parsePub
  some ⟨role, term, vf, ps⟩

/-- an observed event, in the order the implementation produced them -/
inductive Ev where
  | vote (node cand term : Nat)          -- `vote_granted = true` reply, or the self-vote of an election
  | term (node term : Nat)               -- term reported by a node after an op
  | leader (node term : Nat)             -- node became leader in term
  | claim (leader term : Nat)            -- an injected AppendEntries asserts that `leader` leads `term`
  | pub (node : Nat) (v : Pub)
  | skip (node voters : Nat)             -- election won without sending a request, with that many other voters
  | mark (node : Nat) (what : String)    -- crash / restart / sd / ae (attribution of a failure to a trigger)
  | lateSave (node : Nat) (granted : Bool)  -- the hard state was saved after the reply had been handed over
  | staleSelf (node : Nat)               -- the node announced itself as leader while it was not in the leader role
deriving Repr

/-- the `.r<j>=g<b>t<term>(<tail of j>)` pieces of an election result -/
def parseExtras (ids : List Nat) (cand eterm : Nat) (segs : List String) : Option (List Ev) :=
  segs.foldlM (init := []) fun acc seg =>
    match seg.splitOn "=" with
    | [j, rest] =>
      if rest == "x" then some acc
      else do
        let pj ← ids[(← j.toNat?)]?
        match rest.splitOn "(" with
        | [gt, tl] =>
          let granted := gt.startsWith "g1"
          match ((tl.dropEnd 1).toString).splitOn "/" with
          | [rt, vf, pubs] => do
            let t ← parseTail rt vf pubs
            some (acc ++ (if granted then [Ev.vote pj cand eterm] else [])
                      ++ (if gt.endsWith "pa" then [Ev.lateSave pj granted] else []) ++ [Ev.term pj t.term]
                      ++ t.pubs.map (Ev.pub pj))
          | _ => none
        | _ => none
    | _ => none

def opEvents (ids : List Nat) (op out : String) : Option (List Ev) :=
  let p := op.splitOn ","
  let name := p.getD 0 ""
  let argN (k : Nat) : Nat := ((p.getD k "").toNat?).getD 0
  let idx := if name == "hb" then argN 2 else argN 1
  match ids[idx]? with
  | none => if out == "nonode" then some [] else none
  | some me =>
    if out == "down" then some []
    else
      let parts := out.splitOn "/"
      if parts.getLast? == some "down" then
        some [Ev.mark me name]
      else if parts.length < 4 then none
      else do
        let n := parts.length
        let t ← parseTail (parts.getD (n - 3) "") (parts.getD (n - 2) "") (parts.getD (n - 1) "")
        let res := "/".intercalate (parts.take (n - 3))
        let tailEvs := [Ev.term me t.term] ++ t.pubs.map (Ev.pub me)
        if name == "vr" then
          let g := res.startsWith "g1"
          some ((if g then [Ev.vote me (argN 3) (argN 2)] else [])
                ++ (if res.endsWith ".pa" then [Ev.lateSave me g] else []) ++ tailEvs)
        else if name == "ae" then
          some ([Ev.claim (argN 3) (argN 2), Ev.mark me "ae"]
                ++ (if res.endsWith ".pa" then [Ev.lateSave me false] else []) ++ tailEvs)
        else if name == "hb" then
          some ((if res == "nl" then [] else [Ev.mark me "ae"])
                ++ (if res.endsWith ".pa" then [Ev.lateSave me false] else []) ++ tailEvs)
        else if name == "to" then
          if res.startsWith "el." then
            match res.splitOn ".r" with
            | first :: segs =>
              match first.splitOn "." with
              | [_, outcome, et, s, v] => do
                let eterm ← (et.drop 1).toString.toNat?
                let sent ← (s.drop 1).toString.toNat?
                let nv ← (v.drop 1).toString.toNat?
                let ex ← parseExtras ids me eterm segs
                let won := outcome == "ok"
                some (ex ++ [Ev.vote me me eterm] ++ (if won then [Ev.leader me eterm] else [])
                      ++ (if won && sent == 0 then [Ev.skip me nv] else []) ++ tailEvs)
              | _ => none
            | [] => none
          else some tailEvs
        else if name == "iq" then
          -- items `<role><term>=<pub>`: a publication of the node itself needs the leader role at that moment
          let items := ((res.drop 3).toString.splitOn "_").filter (· != "-")
          let bad := items.any fun it =>
            match it.splitOn "=" with
            | [rt, pb] =>
              match parsePub pb with
              | some (some (l, _)) => l == me && !(rt.startsWith "L")
              | _ => false
            | _ => false
          -- events the node cannot enqueue itself in that form (explicit NoopCommitted term, BecomeFollower(Some),
          -- LeaderDiscovered) are a malformed stream: correspondence only, no C31 judgement
          let spec := p.getD 2 "-"
          let flat := (spec.splitOn "~").flatMap (·.splitOn "+")
          -- a leader never enqueues NoopCommitted behind its own BecomeFollower
          let ncAfterBf := ((flat.dropWhile fun x => !x.startsWith "bf.").any fun x => x.startsWith "nc.")
          let adversarial := ncAfterBf || flat.any fun x =>
            (x.startsWith "nc." && x != "nc.@") || (x.startsWith "bf." && x != "bf.-") || x.startsWith "ld."
          some ((if bad then [Ev.staleSelf me] else []) ++ (if adversarial then [Ev.mark me "adversarial-iq"] else [])
                ++ tailEvs)
        else if name == "sd" || name == "crash" || name == "restart" || name == "stop" || name == "cc" then
          some ([Ev.mark me name] ++ tailEvs)
        else some tailEvs

def clEvents (line out : String) : Option (List Ev) :=
  match parseCl line with
  | none => none
  | some (hs, ops) =>
    let outs := out.splitOn ";"
    if outs.length != ops.length then none
    else
      let ids := hs.map (·.id)
      (ops.zip outs).foldlM (init := []) fun acc (op, o) => do
        let evs ← opEvents ids op o
        some (acc ++ evs)

def votesOf (evs : List Ev) : List (Nat × Nat × Nat) :=
  evs.filterMap fun | .vote n c t => some (n, c, t) | _ => none
def termsOf (evs : List Ev) (node : Nat) : List Nat :=
  evs.filterMap fun | .term n t => if n == node then some t else none | _ => none
def leadersOf (evs : List Ev) : List (Nat × Nat) :=
  evs.filterMap fun | .leader n t => some (n, t) | _ => none
def claimsOf (evs : List Ev) : List (Nat × Nat) :=
  evs.filterMap fun | .claim l t => some (l, t) | _ => none
def pubsOf (evs : List Ev) (node : Nat) : List Pub :=
  evs.filterMap fun | .pub n v => if n == node then some v else none | _ => none
def allPubs (evs : List Ev) : List Pub :=
  evs.filterMap fun | .pub _ v => some v | _ => none
def nodesOf (evs : List Ev) : List Nat :=
  (evs.filterMap fun | .term n _ => some n | .pub n _ => some n | _ => none).eraseDups
def hasMark (evs : List Ev) (what : String) : Bool :=
  evs.any fun | .mark _ w => w == what | _ => false
def hasMarkOn (evs : List Ev) (node : Nat) (what : String) : Bool :=
  evs.any fun | .mark n w => n == node && w == what | _ => false

/-- events strictly between the first and the last vote of `node` in `term` -/
def betweenVotes (evs : List Ev) (node term : Nat) : List Ev :=
  let isV : Ev → Bool := fun | .vote n _ t => n == node && t == term | _ => false
  let after := (evs.dropWhile (fun e => !isV e)).drop 1
  (after.reverse.dropWhile (fun e => !isV e)).reverse

/-- first (voter, term) with two different candidates -/
def firstDoubleVote (vs : List (Nat × Nat × Nat)) : Option (Nat × Nat) :=
  (vs.find? fun a => vs.any fun b => a.1 == b.1 && a.2.2 == b.2.2 && a.2.1 != b.2.1).map fun a => (a.1, a.2.2)

/-! ### monitors -/

/-- C02, crash point "after the reply, before the save": a reply must never leave the node before the term / vote
    it reveals is on stable storage (a crash right there + restart would let the node vote again in that term) -/
def persistedBeforeReplyOK (evs : List Ev) : Bool :=
  !(evs.any fun | .lateSave _ _ => true | _ => false)

def monC02 (_learners : List Nat) (evs : List Ev) : String :=
  if !persistedBeforeReplyOK evs then
    (if evs.any (fun | .lateSave _ g => g | _ => false) then "bad grant-replied-before-persist"
     else "bad reply-before-persist")
  else if !votesOK (votesOf evs) then
    match firstDoubleVote (votesOf evs) with
    | some (n, t) =>
      -- open finding F32: the vote was overwritten by the AppendEntries of a leader, whose request was then granted
      if hasMarkOn (betweenVotes evs n t) n "ae" then "bad revote-for-announced-leader" else "bad double-vote"
    | none => "bad double-vote"
  else
    match (nodesOf evs).find? fun n => !sortedLE (termsOf evs n) with
    | some _ => "bad term-regressed"
    | none => "ok"

/-- chronologically: a `cc` on `n`, later a `restart` of `n`, later a request-free win of `n` -/
def expandedThenRestartedBefore (evs : List Ev) (n : Nat) : Bool :=
  let isMark (w : String) : Ev → Bool := fun | .mark m x => m == n && x == w | _ => false
  let isSkip : Ev → Bool := fun | .skip m _ => m == n | _ => false
  let afterCc := (evs.dropWhile (fun e => !isMark "cc" e)).drop 1
  let afterRestart := (afterCc.dropWhile (fun e => !isMark "restart" e)).drop 1
  afterRestart.any isSkip

/-- hypothesis of `election_safety` evaluated on the case itself: at every timer op the node's membership (initial
    list, `cc` ops applied, reset to the initial list by `restart`) has exactly the other header nodes as voters -/
def membStaticAtTimers (hs : List Head) (ops : List String) : Bool :=
  let ids := hs.map (·.id)
  let init : List Memb := hs.map fun h => Memb.mk' h.id h.initial
  let step (acc : List Memb × Bool) (op : String) : List Memb × Bool :=
    let p := op.splitOn ","
    let name := p.getD 0 ""
    let idx := ((p.getD 1 "").toNat?).getD 0
    match acc.1[idx]?, hs[idx]? with
    | some m, some h =>
      if name == "cc" then
        match parseChange (p.getD 2 "") with
        | some ch => (acc.1.set idx (m.apply ch).1, acc.2)
        | none => acc
      else if name == "restart" then (acc.1.set idx (Memb.mk' h.id h.initial), acc.2)
      else if name == "to" then
        let vs := m.voters
        let ok := vs.all (fun v => ids.contains v && v != h.id) && ids.all (fun v => v == h.id || vs.contains v)
        (acc.1, acc.2 && ok)
      else acc
    | _, _ => acc
  (ops.foldl step (init, true)).2

def monC01 (static : Bool) (evs : List Ev) : String :=
  if leadersOK (leadersOf evs) then
    (if (leadersOf evs).isEmpty then "skip" else "ok")
  -- open finding F25 (C28): a node that was started alone, expanded by configuration changes and then restarted
  -- rebuilds its membership from the configuration file, believes it is alone again and elects itself without
  -- asking anybody (outside C01's static-membership hypothesis). Only exactly this mechanism is matched:
  -- cc on n ... restart of n ... request-free win of n with no voters.
  else if evs.any (fun | .skip n v => v == 0 && expandedThenRestartedBefore evs n | _ => false) then
    "bad two-leaders-after-restart-with-initial-config"
  -- the trace leaves the theorem's hypothesis (the nodes do not share one static voter list): no C01 judgement
  else if !static then "skip"
  else "bad two-leaders"

def monC03cl (evs : List Ev) : String :=
  let skips := evs.filterMap fun | .skip _ v => some v | _ => none
  if skips.isEmpty then "skip"
  else if skips.all (· == 0) then "ok" else "bad skip-with-other-voters"

def monC31 (_learners : List Nat) (evs : List Ev) : String :=
  let ps := allPubs evs
  if hasMark evs "adversarial-iq" then "skip"
  else if evs.any (fun | .staleSelf _ => true | _ => false) then "bad announced-itself-after-step-down"
  else if ps.isEmpty then "skip"
  else
    match (nodesOf evs).find? fun n => !sortedLE (pubTerms (pubsOf evs n)) with
    | some _ => "bad notified-term-regressed"
    | none =>
      let evidence := leadersOf evs ++ claimsOf evs
      if !pubsTruthful ps evidence then "bad notified-leader-never-led-that-term"
      else if !leadersOK (ps.filterMap id) then
        (if leadersOK (leadersOf evs ++ claimsOf evs) then "bad two-notified-leaders-one-term" else "skip")
      else "ok"

def monitorLine (prop : String) (line : String) : String :=
  match line.splitOn "\t" with
  | [case, out] =>
    if out == "panic" then "bad panic"
    else if case.startsWith "cl " then
      match clEvents case out with
      | none => "bad unparsable-output"
      | some evs =>
        let learners := match parseCl case with
          | some (hs, _) => (hs.filter (·.learner)).map (·.id)
          | none => []
        let static := match parseCl case with
          | some (hs, ops) => membStaticAtTimers hs ops
          | none => true
        if prop == "C01" then monC01 static evs
        else if prop == "C02" then monC02 learners evs
        else if prop == "C03" then monC03cl evs
        else if prop == "C31" then monC31 learners evs
        else "skip"
    else if case.startsWith "tal " then
      if prop == "C03" then
        -- `ok sent=0 voters=n`
        let fs := fields out
        match natField fs "sent", natField fs "voters" with
        | some s, some v => if out.startsWith "ok" && s == 0 then (if v == 0 then "ok" else "bad skip-with-other-voters") else "skip"
        | _, _ => "bad unparsable-output"
      else "skip"
    else if case.startsWith "svr " then
      if prop == "C01" then
        -- every configured voter must be counted (quorum over all voters, not only reachable ones)
        let fs := fields case
        let fo := fields out
        match natField fs "voters", natField fo "pids" with
        | some n, some k => if n == k then "ok" else "bad quorum-over-reachable-peers-only"
        | some 0, none => "ok"
        | _, _ => "bad unparsable-output"
      else "skip"
    else "skip"
  | _ => "bad-line"

end DEngine.Elect
