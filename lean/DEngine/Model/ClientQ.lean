/-
  M-CLIENTQ — the leader's client bookkeeping as a state machine over events, as coded
  (C29, C14, C30, C11).

  Modelled Rust (d-engine @ /repo, d-engine-core/src/raft_role/leader_state.rs unless said otherwise):
  * `pushWrite` / `pushRead` / scan  = `LeaderState::push_client_cmd` (back-pressure first, then the
                                 empty-command check; reads routed by the client's policy — the harness runs
                                 with allow_client_override = true)
  * `flush`                    = `flush_cmd_buffers` (pure-write fast path → `process_batch`, otherwise
                                 `unified_write_and_linear_read`; then `process_lease_read` per queued lease read,
                                 then `process_eventual_read`)
  * `execRpc`                  = `execute_and_process_raft_rpc` (Phase 0 send timestamp, Phase 1 append via
                                 `ReplicationHandler::prepare_batch_requests`/`generate_new_entries`, Phase 2
                                 `pending_client_writes.insert(end_log_index, meta)`, noop gate, Phase 3 read routing
                                 with `calculate_read_index`)
  * `tick`                     = `tick` (heartbeat-or-batch when the replication timer fired, then the four
                                 deadline sweeps, noop timeout ⇒ step-down request)
  * `ackSuccess`               = `handle_append_result` on a same-term success response of a voter
                                 (`update_peer_index`, `calculate_new_commit_index`, `drain_pending_client_writes`,
                                 `drain_commit_actions`, `quorum_confirmed`, lease renewal,
                                 `drain_pending_lease_reads`, Path A drain of `pending_reads`)
  * `ackHigherTerm`            = same function, `response.term > leader_term`
  * `logFlushed`               = `handle_log_flushed`
  * `applyUpTo`                = environment (state-machine worker) applying committed entries, then
                                 `handle_apply_completed` (responses by index from `pending_write_apply`, Path B drain)
  * `stepDown`                 = raft.rs `handle_internal_event(BecomeFollower)`: `drain_read_buffer`, then
                                 `become_follower` (revokes the lease) replaces the role: the LeaderState is dropped
                                 (every remaining sender is dropped)
  * `fatalInbound`             = `handle_inbound_event(InboundEvent::FatalError)`; `fatalInternal` = raft.rs
                                 `InternalEvent::FatalError` (returns the error, touches no queue)
  * `initNoop`                 = `initiate_noop_commit`; `join` = `handle_join_cluster`
  * `majorityOf`               = storage/buffered_raft_log.rs `calculate_majority_matched_index`
  * follower role: role_state.rs `RaftRoleState::push_client_cmd` (writes / scans rejected "Not leader")

  Request ids are assigned by arrival order (one counter for writes, reads, scans, joins). Every response that
  becomes observable is recorded (`Resp`); dropping a sender is recorded as `.dropped`.
-/
namespace DEngine.ClientQ

/-- Client write operation on the single modelled key (values ≥ 1; 0 = absent). -/
inductive WOp
  | put (v : Nat)
  | del
  | cas (exp new : Nat)
  | empty
  deriving DecidableEq, Repr, Inhabited

inductive EntKind
  | old                      -- entry of an earlier term that was in the log when this leader started
  | write (id : Nat) (op : WOp)
  | noop
  | conf
  deriving DecidableEq, Repr, Inhabited

structure LogEnt where
  term : Nat
  kind : EntKind
  deriving DecidableEq, Repr, Inhabited

inductive Resp
  | ok | casFail                       -- write_success / cas_failure (from an apply result)
  | exhausted | emptyCmd | notLeader   -- rejections (never proposed)
  | proposeFailed | termOutdated       -- indeterminate: the entry is in the log
  | deadline | fatal | dropped
  | val (v applied : Nat)              -- read result: value of the key and the applied index it was read at
  | notReady | stepDown
  | scanOk | joinOk | joinExists
  deriving DecidableEq, Repr, Inhabited

abbrev Out := List (Nat × Resp)

structure WMeta where
  start : Nat
  senders : List Nat
  wait : Bool
  deadline : Nat
  deriving DecidableEq, Repr, Inhabited

inductive CAct | noop | join (id : Nat)
  deriving DecidableEq, Repr, Inhabited

inductive Phase | running | stepped | halted
  deriving DecidableEq, Repr, Inhabited

structure Cfg where
  voters : Nat      -- voters including the leader; peers are 2..voters
  maxW : Nat
  maxR : Nat
  timeout : Nat     -- general_raft_timeout_duration_in_ms
  ptimeout : Nat    -- membership.verify_leadership_persistent_timeout (noop / join deadline)
  lease : Nat       -- read_consistency.lease_duration_ms
  hb : Nat          -- replication.rpc_append_entries_clock_in_ms
  leader : Bool     -- false: the node is a follower (only push events are meaningful)
  deriving Repr, Inhabited

structure St where
  now : Nat := 0
  term : Nat := 2
  log : List LogEnt := []
  commit : Nat := 0
  noopIdx : Option Nat := none
  applied : Nat := 0
  kv : Nat := 0
  matchIdx : List Nat := []          -- match_index of peers 2.., in order; 0 = NO ENTRY in the map
                                     -- (`update_match_index` inserts only when new > current, so 0 is never stored)
  leaseDl : Nat := 0                 -- lease deadline (0 = revoked / never granted), lease term = `leaseTerm`
  leaseTerm : Nat := 0
  replDl : Nat := 0                  -- replication timer deadline
  lastSendTs : Nat := 0              -- last_heartbeat_send_ts
  propose : List (Nat × WOp) := []
  linBuf : List Nat := []
  leaseQ : List Nat := []
  evQ : List Nat := []
  pcw : List (Nat × WMeta) := []     -- pending_client_writes, ascending by key
  pwa : List (Nat × Nat) := []       -- pending_write_apply: (log index, request id)
  preads : List (Nat × Nat × List Nat) := []   -- pending_reads: (read_index, deadline, request ids)
  pleases : List (Nat × Nat) := []   -- pending_lease_reads: (request id, deadline)
  pca : List (Nat × Nat × CAct) := []          -- pending_commit_actions: (log index, deadline, action)
  phase : Phase := .running
  wantStepDown : Bool := false       -- a BecomeFollower internal event has been emitted
  nextId : Nat := 0
  rounds : Nat := 0                  -- ghost: AppendEntries rounds started so far
  deriving Repr, Inhabited

def St.lastEntry (s : St) : Nat := s.log.length
def Cfg.single (c : Cfg) : Bool := c.voters == 1

/-- `ReadLease::is_valid_for_leader(current_term, now)`. -/
def St.leaseValid (s : St) : Bool := s.leaseTerm == s.term && s.leaseDl > s.now

/-- term of the entry at 1-based `idx` (0 if absent). -/
def St.termAt (s : St) (idx : Nat) : Nat :=
  if idx == 0 then 0 else (s.log.getD (idx - 1) default).term

def insertDesc (x : Nat) : List Nat → List Nat
  | [] => [x]
  | y :: ys => if x ≥ y then x :: y :: ys else y :: insertDesc x ys

def sortDesc (l : List Nat) : List Nat := l.foldr insertDesc []

/-- storage/buffered_raft_log.rs `calculate_majority_matched_index(current_term, commit_index, ids)`. -/
def majorityOf (s : St) (peerIds : List Nat) : Option Nat :=
  let ids := sortDesc (peerIds ++ [s.lastEntry])
  let m := ids.getD (ids.length / 2) 0
  if m < s.commit then none
  else if m ≠ 0 && s.termAt m == s.term then some m else none

/-- `calculate_new_commit_index` (after fix 6ed8b1f): EVERY voter counts, one without a map entry as 0. -/
def newCommit (s : St) : Option Nat :=
  match majorityOf s s.matchIdx with
  | some m => if m > s.commit then some m else none
  | none => none

/-- the `quorum_confirmed` computation inside `handle_append_result` (after fix a5e530a): every voter counts,
    one without a map entry as 0 — the same rule as `calculate_new_commit_index`. It is still a function of the
    MONOTONE match indexes, not of which round an acknowledgement answers. -/
def quorumConfirmed (s : St) : Bool := (majorityOf s s.matchIdx).isSome

/-- The read answer: `read_from_state_machine` on the simulated state machine. -/
def St.readVal (s : St) : Resp := .val s.kv s.applied

def answerAll (ids : List Nat) (r : Resp) : Out := ids.map fun i => (i, r)

/-! ### push_client_cmd -/

def pushWrite (c : Cfg) (s : St) (op : WOp) : St × Out :=
  let id := s.nextId
  let s := { s with nextId := id + 1 }
  if !c.leader then (s, [(id, .notLeader)])
  else if c.maxW > 0 && s.propose.length ≥ c.maxW then (s, [(id, .exhausted)])
  else if op == .empty then (s, [(id, .emptyCmd)])
  else ({ s with propose := s.propose ++ [(id, op)] }, [])

/-- read policy as the client asked (override allowed): 0 = linearizable, 1 = lease, 2 = eventual -/
def pushRead (c : Cfg) (s : St) (pol : Nat) : St × Out :=
  let id := s.nextId
  let s := { s with nextId := id + 1 }
  if !c.leader then
    -- role_state.rs: override allowed ⇒ only an eventual read is served locally
    (s, [(id, if pol == 2 then s.readVal else .notLeader)])
  else if pol == 0 then
    if c.maxR > 0 && s.linBuf.length ≥ c.maxR then (s, [(id, .exhausted)])
    else ({ s with linBuf := s.linBuf ++ [id] }, [])
  else if pol == 1 then
    if c.maxR > 0 && s.leaseQ.length ≥ c.maxR then (s, [(id, .exhausted)])
    else ({ s with leaseQ := s.leaseQ ++ [id] }, [])
  else
    if c.maxR > 0 && s.evQ.length ≥ c.maxR then (s, [(id, .exhausted)])
    else ({ s with evQ := s.evQ ++ [id] }, [])

def pushScan (c : Cfg) (s : St) : St × Out :=
  let id := s.nextId
  let s := { s with nextId := id + 1 }
  (s, [(id, if c.leader then .scanOk else .notLeader)])

/-! ### execute_and_process_raft_rpc -/

/-- Phase 3: insert a read batch into `pending_reads` (`entry(read_index).or_insert_with(..).extend`): the batch
    registered under `ri` is extended (its deadline kept), otherwise a new batch is inserted in key order. -/
def preadsInsert : List (Nat × Nat × List Nat) → Nat → Nat → List Nat → List (Nat × Nat × List Nat)
  | [], ri, dl, ids => [(ri, dl, ids)]
  | e :: rest, ri, dl, ids =>
    if e.1 == ri then (e.1, e.2.1, e.2.2 ++ ids) :: rest
    else if ri < e.1 then (ri, dl, ids) :: e :: rest
    else e :: preadsInsert rest ri dl ids

/-- `calculate_read_index`. -/
def St.readIndex (s : St) : Nat := max s.commit (s.noopIdx.getD 0)

/-- Phases 0–2 of `execute_and_process_raft_rpc`: send timestamp, local append, `pending_client_writes.insert`. -/
def execAppend (c : Cfg) (s : St) (ents : List EntKind) (wm : Option WMeta) : St :=
  let s1 : St := { s with lastSendTs := s.now, log := s.log ++ ents.map fun k => { term := s.term, kind := k } }
  match wm with
  | some m =>
    if m.senders.isEmpty then s1
    else { s1 with pcw := s1.pcw ++ [(m.start + m.senders.length - 1, { m with deadline := s1.now + c.timeout })] }
  | none => s1

/-- the noop gate: before the noop commits every linearizable read of the batch is refused -/
def gateReads (s : St) (reads : Option (List Nat)) : Option (List Nat) × Out :=
  match s.noopIdx, reads with
  | none, some rs => (none, answerAll rs .notReady)
  | _, r => (r, [])

/-- Phase 3: serve now (single voter or valid lease, and the state machine has reached the read index) or park
    the batch in `pending_reads` under the read index. -/
def routeReads (c : Cfg) (s : St) (reads : Option (List Nat)) : St × Out :=
  match reads with
  | some rs =>
    if (c.single || s.leaseValid) && s.applied ≥ s.readIndex then (s, answerAll rs s.readVal)
    else ({ s with preads := preadsInsert s.preads s.readIndex (s.now + c.timeout) rs }, [])
  | none => (s, [])

def execRpc (c : Cfg) (s : St) (ents : List EntKind) (wm : Option WMeta) (reads : Option (List Nat)) :
    St × Out :=
  let s1 := execAppend c s ents wm
  let g := gateReads s1 reads
  let r := routeReads c s1 g.1
  -- Phase 4/5: a round goes out iff there are peers (ghost counter)
  let s2 : St := if c.single then r.1 else { r.1 with rounds := r.1.rounds + 1 }
  (s2, g.2 ++ r.2)

def flushPropose (s : St) : St × Option (List EntKind × WMeta) :=
  if s.propose.isEmpty then (s, none)
  else
    let ents := s.propose.map fun p => EntKind.write p.1 p.2
    let m : WMeta := { start := s.lastEntry + 1, senders := s.propose.map (·.1), wait := true, deadline := 0 }
    ({ s with propose := [] }, some (ents, m))

/-- `process_lease_read` for one queued lease read. -/
def processLeaseRead (c : Cfg) (s : St) (id : Nat) : St × Out :=
  if s.leaseValid then (s, [(id, s.readVal)])
  else if c.single then
    let s := { s with leaseDl := s.now + c.lease, leaseTerm := s.term }
    (s, [(id, s.readVal)])
  else
    let s := { s with pleases := s.pleases ++ [(id, s.now + c.timeout)] }
    execRpc c s [] none none

def processLeaseReads (c : Cfg) : St → List Nat → St × Out
  | s, [] => (s, [])
  | s, id :: rest =>
    let r1 := processLeaseRead c s id
    let r2 := processLeaseReads c r1.1 rest
    (r2.1, r1.2 ++ r2.2)

/-- first part of `flush_cmd_buffers`: the write / linearizable-read batch -/
def flushMain (c : Cfg) (s : St) : St × Out :=
  let hasW := !s.propose.isEmpty
  let hasR := !s.linBuf.isEmpty
  if hasW && !hasR then
    -- process_batch: resets the replication timer
    let r := flushPropose s
    let s1 : St := { r.1 with replDl := r.1.now + c.hb }
    match r.2 with
    | some b => execRpc c s1 b.1 (some b.2) none
    | none => (s1, [])
  else if hasW || hasR then
    -- unified_write_and_linear_read: no timer reset
    let r := flushPropose s
    let reads := if r.1.linBuf.isEmpty then none else some r.1.linBuf
    let s1 : St := { r.1 with linBuf := [] }
    match r.2 with
    | some b => execRpc c s1 b.1 (some b.2) reads
    | none => execRpc c s1 [] none reads
  else (s, [])

def flush (c : Cfg) (s : St) : St × Out :=
  let r1 := flushMain c s
  let r2 := processLeaseReads c { r1.1 with leaseQ := [] } r1.1.leaseQ
  let s3 : St := { r2.1 with evQ := [] }
  (s3, r1.2 ++ r2.2 ++ answerAll r2.1.evQ s3.readVal)

/-! ### commit-driven drains -/

/-- `drain_pending_client_writes(new_commit)`. -/
def drainWrites (s : St) (nc : Nat) : St × Out :=
  let committed := s.pcw.filter (·.1 ≤ nc)
  let remaining := s.pcw.filter (fun e => !(e.1 ≤ nc))
  let toApply : List (Nat × Nat) :=
    committed.flatMap fun e => if e.2.wait then (e.2.senders.zipIdx.map fun (id, i) => (e.2.start + i, id)) else []
  let out : Out :=
    committed.flatMap fun e => if e.2.wait then [] else answerAll e.2.senders .ok
  ({ s with pcw := remaining, pwa := s.pwa ++ toApply }, out)

/-- the answer a commit action's sender gets (only NodeJoin actions carry a sender) -/
def joinAnswer (r : Resp) (e : Nat × Nat × CAct) : Option (Nat × Resp) :=
  match e.2.2 with
  | .join id => some (id, r)
  | .noop => none

/-- `drain_commit_actions(new_commit)`; `on_noop_committed` records `last_entry_id()` (as coded). -/
def drainActions (s : St) (nc : Nat) : St × Out :=
  let committed := s.pca.filter (·.1 ≤ nc)
  let remaining := s.pca.filter (fun e => !(e.1 ≤ nc))
  let s := { s with pca := remaining }
  let s := if committed.any (fun e => e.2.2 == .noop) then { s with noopIdx := some s.lastEntry } else s
  let out : Out := committed.filterMap (joinAnswer .joinOk)
  (s, out)

def drainPleases (s : St) : St × Out :=
  ({ s with pleases := [] }, answerAll (s.pleases.map (·.1)) s.readVal)

/-- serve `pending_reads` with key ≤ `upto` (Path A: `last_applied`; Path B: `last_index` of the apply event). -/
def servePreads (s : St) (upto : Nat) : St × Out :=
  let ready := s.preads.filter (·.1 ≤ upto)
  let rest := s.preads.filter (fun e => !(e.1 ≤ upto))
  ({ s with preads := rest }, ready.flatMap fun e => answerAll e.2.2 s.readVal)

def setMatch (l : List Nat) (i v : Nat) : List Nat :=
  l.zipIdx.map fun (x, j) => if j == i then max x v else x

/-- commit index := `nc`, then `drain_pending_client_writes(nc)` and `drain_commit_actions(nc)`. -/
def commitTo (s : St) (nc : Nat) : St × Out :=
  let r1 := drainWrites { s with commit := nc } nc
  let r2 := drainActions r1.1 nc
  (r2.1, r1.2 ++ r2.2)

def advanceCommit (s : St) (nc : Option Nat) : St × Out :=
  match nc with
  | some n => commitTo s n
  | none => (s, [])

/-- the `quorum_confirmed` block of `handle_append_result`: lease renewal anchored at the last send
    timestamp, `drain_pending_lease_reads`, Path A drain of `pending_reads` up to `last_applied`. -/
def onQuorum (c : Cfg) (s : St) : St × Out :=
  let sendTs := if s.lastSendTs > 0 then s.lastSendTs else s.now
  let s1 : St := { s with leaseDl := sendTs + c.lease, leaseTerm := s.term }
  let r2 := drainPleases s1
  let r3 := servePreads r2.1 r2.1.applied
  (r3.1, r2.2 ++ r3.2)

/-- `handle_append_result`, same-term success from voter `peer` (2-based) with `last_match.index = m`. -/
def ackSuccess (c : Cfg) (s : St) (peer m : Nat) : St × Out :=
  if peer < 2 || peer > c.voters then (s, [])     -- not a replication target: `is_voter` = false, nothing observable
  else
    let s0 : St := { s with matchIdx := setMatch s.matchIdx (peer - 2) m }
    let r1 := advanceCommit s0 (newCommit s0)
    if quorumConfirmed r1.1 then
      let r2 := onQuorum c r1.1
      (r2.1, r1.2 ++ r2.2)
    else r1

/-- `drain_pending_writes_with_error`. -/
def drainWritesErr (s : St) (r : Resp) : St × Out :=
  ({ s with pcw := [] }, s.pcw.flatMap fun e => answerAll e.2.senders r)

/-- `handle_append_result` with `response.term > leader_term`. -/
def ackHigherTerm (s : St) (t : Nat) : St × Out :=
  if t ≤ s.term then (s, [])
  else
    let s := { s with term := t }
    let (s, o) := drainWritesErr s .termOutdated
    ({ s with leaseDl := 0, leaseTerm := 0, wantStepDown := true }, o)

/-- `handle_log_flushed(durable)`. -/
def logFlushed (c : Cfg) (s : St) : St × Out :=
  let nc : Option Nat :=
    if c.single then (if s.lastEntry > s.commit then some s.lastEntry else none) else newCommit s
  match nc with
  | none => (s, [])
  | some n =>
    let r1 := commitTo s n
    if c.single then
      let s1 : St := { r1.1 with leaseDl := r1.1.now + c.lease, leaseTerm := r1.1.term }
      let r2 := drainPleases s1
      (r2.1, r1.2 ++ r2.2)
    else r1

/-! ### the environment's state machine and `handle_apply_completed` -/

def applyOp (kv : Nat) : WOp → Nat × Bool
  | .put v => (v, true)
  | .del => (0, true)
  | .cas e n => if kv == e then (n, true) else (kv, false)
  | .empty => (kv, true)

/-- apply entries `from+1 ..= to` (1-based) of `log` to `kv`; results per index. -/
def applyRange (log : List LogEnt) (kv : Nat) : Nat → Nat → Nat × List (Nat × Bool)
  | _, 0 => (kv, [])
  | idx, n + 1 =>
    let e := log.getD idx default          -- entry with index idx+1
    let (kv', okk) := match e.kind with
      | .write _ op => applyOp kv op
      | _ => (kv, true)
    let (kvf, rs) := applyRange log kv' (idx + 1) n
    (kvf, (idx + 1, okk) :: rs)

/-- responses of `handle_apply_completed` for the write results. -/
def applyResponses (pwa : List (Nat × Nat)) (results : List (Nat × Bool)) : Out :=
  results.filterMap fun r =>
    match pwa.find? (·.1 == r.1) with
    | some e => some (e.2, if r.2 then Resp.ok else Resp.casFail)
    | none => none

def applyUpTo (s : St) (k : Nat) : St × Out :=
  let k := min k (min s.commit s.lastEntry)
  if k ≤ s.applied then (s, [])
  else
    let ar := applyRange s.log s.kv s.applied (k - s.applied)
    let s1 : St := { s with kv := ar.1, applied := k }
    let o1 := applyResponses s1.pwa ar.2
    let s2 : St := { s1 with pwa := s1.pwa.filter fun e => !(ar.2.any (·.1 == e.1)) }
    let r3 := servePreads s2 k
    (r3.1, o1 ++ r3.2)

/-! ### tick -/

def sweep (c : Cfg) (s : St) : St × Out :=
  let o1 := (s.pcw.filter (fun e => s.now ≥ e.2.deadline)).flatMap fun e => answerAll e.2.senders .deadline
  let s := { s with pcw := s.pcw.filter (fun e => !(s.now ≥ e.2.deadline)) }
  let o2 := (s.preads.filter (fun e => s.now ≥ e.2.1)).flatMap fun e => answerAll e.2.2 .deadline
  let s := { s with preads := s.preads.filter (fun e => !(s.now ≥ e.2.1)) }
  let o3 := answerAll ((s.pleases.filter (fun e => s.now ≥ e.2)).map (·.1)) .deadline
  let s := { s with pleases := s.pleases.filter (fun e => !(s.now ≥ e.2)) }
  let expired := s.pca.filter (fun e => s.now ≥ e.2.1)
  let o4 : Out := expired.filterMap (joinAnswer .deadline)
  let s := { s with pca := s.pca.filter (fun e => !(s.now ≥ e.2.1)) }
  let s := if expired.any (fun e => e.2.2 == .noop) then { s with wantStepDown := true } else s
  let _ := c
  (s, o1 ++ o2 ++ o3 ++ o4)

/-- the heartbeat-or-batch part of `tick` -/
def heartbeat (c : Cfg) (s : St) : St × Out :=
  if s.now ≥ s.replDl then
    let r := flushPropose s
    let s1 : St := { r.1 with replDl := r.1.now + c.hb }
    match r.2 with
    | some b => execRpc c s1 b.1 (some b.2) none
    | none => execRpc c s1 [] none none
  else (s, [])

def tick (c : Cfg) (s : St) (ms : Nat) : St × Out :=
  let r1 := heartbeat c { s with now := s.now + ms }
  let r2 := sweep c r1.1
  (r2.1, r1.2 ++ r2.2)

/-! ### role change / fatal -/

/-- raft.rs BecomeFollower: `drain_read_buffer()` (order as coded), then the LeaderState is dropped. -/
def stepDown (s : St) : St × Out :=
  let o :=
    answerAll s.linBuf .stepDown ++ answerAll s.leaseQ .stepDown ++ answerAll s.evQ .stepDown ++
    (s.preads.flatMap fun e => answerAll e.2.2 .stepDown) ++
    answerAll (s.pleases.map (·.1)) .stepDown ++
    answerAll (s.propose.map (·.1)) .notLeader ++
    (s.pcw.flatMap fun e => answerAll e.2.senders .proposeFailed) ++
    -- dropped with the state:
    answerAll (s.pwa.map (·.2)) .dropped ++
    (s.pca.filterMap (joinAnswer .dropped))
  ({ s with linBuf := [], leaseQ := [], evQ := [], preads := [], pleases := [], propose := [], pcw := [],
            pwa := [], pca := [], phase := .stepped,
            -- `become_follower` revokes the read lease
            leaseDl := 0, leaseTerm := 0 }, o)

/-- `handle_inbound_event(InboundEvent::FatalError)`: five queues are notified, the rest is left. -/
def fatalInbound (s : St) : St × Out :=
  let o :=
    answerAll (s.pwa.map (·.2)) .fatal ++ answerAll s.linBuf .fatal ++
    (s.preads.flatMap fun e => answerAll e.2.2 .fatal) ++
    answerAll s.leaseQ .fatal ++ answerAll s.evQ .fatal
  ({ s with pwa := [], linBuf := [], preads := [], leaseQ := [], evQ := [], phase := .halted }, o)

def initNoop (c : Cfg) (s : St) : St × Out :=
  let idx := s.lastEntry + 1
  let s := { s with pca := s.pca ++ [(idx, s.now + c.ptimeout, CAct.noop)], replDl := s.now + c.hb }
  execRpc c s [EntKind.noop] (some { start := idx, senders := [], wait := false, deadline := 0 }) none

def join (c : Cfg) (s : St) (node : Nat) : St × Out :=
  let id := s.nextId
  let s0 : St := { s with nextId := id + 1 }
  if node ≥ 1 && node ≤ c.voters then (s0, [(id, .joinExists)])
  else
    let dl := s0.now + c.ptimeout
    let s1 : St := { s0 with replDl := s0.now + c.hb }
    let r := execRpc c s1 [EntKind.conf] (some { start := s1.lastEntry + 1, senders := [], wait := false, deadline := 0 }) none
    ({ r.1 with pca := r.1.pca ++ [(r.1.lastEntry, dl, CAct.join id)] }, r.2)

/-! ### events -/

inductive Ev
  | write (op : WOp)
  | read (pol : Nat)
  | scan
  | join (node : Nat)
  | flush
  | tick (ms : Nat)
  | ack (peer m round : Nat)      -- `round` is ghost information (which round this ack answers)
  | ackConflict (peer : Nat)
  | ackHigher (t : Nat)
  | ackStale
  | logFlushed
  | apply (k : Nat)
  | stepDown
  | fatalInbound
  | fatalInternal
  | noop
  deriving DecidableEq, Repr, Inhabited

def step (c : Cfg) (s : St) (e : Ev) : St × Out :=
  if s.phase != .running then (s, [])
  else if !c.leader then
    match e with
    | .write op => pushWrite c s op
    | .read p => pushRead c s p
    | .scan => pushScan c s
    | _ => (s, [])
  else
    match e with
    | .write op => pushWrite c s op
    | .read p => pushRead c s p
    | .scan => pushScan c s
    | .join n => join c s n
    | .flush => flush c s
    | .tick ms => tick c s ms
    | .ack p m _ => ackSuccess c s p m
    | .ackConflict _ => (s, [])
    | .ackHigher t =>
      -- the harness sends `Success{last_match = 0}` from peer 2 with `response.term = t`
      if t > s.term then ackHigherTerm s t else if t == s.term then ackSuccess c s 2 0 else (s, [])
    | .ackStale => (s, [])
    | .logFlushed => logFlushed c s
    | .apply k => applyUpTo s k
    | .stepDown => stepDown s
    | .fatalInbound => fatalInbound s
    | .fatalInternal => ({ s with phase := .halted }, [])
    | .noop => initNoop c s

/-- initial leader state: `pre` old-term entries, all committed and applied. -/
def init (c : Cfg) (pre : Nat) : St :=
  { log := List.replicate pre { term := 1, kind := .old }, commit := pre, applied := pre,
    matchIdx := List.replicate (c.voters - 1) 0, replDl := c.hb }

/-- run a trace; the per-event outputs are kept (event number = position). -/
def run (c : Cfg) : St → List Ev → St × List Out
  | s, [] => (s, [])
  | s, e :: es =>
    let r1 := step c s e
    let r2 := run c r1.1 es
    (r2.1, r1.2 :: r2.2)

end DEngine.ClientQ
