import DEngine.Model.Elect
/-
  M-ELECT, cluster level (L3): message-passing cluster whose per-node steps ARE the functions of
  `DEngine.Model.Elect` (tied to the code by the `elect` correspondence).  Executable: `step` is a total
  function `Cluster → Label → Cluster`; the driver runs harness op lists through it, the theorems
  (Props/C01, C31) quantify over all label lists.

  Network: a vote request of candidate `c` may reach any node at any time (`deliver`), any node may be
  handed any vote request at any time (`voteReq`: duplicates, delays, stale or forged requests), replies may be
  lost or replaced by non-grant replies (`scripted`), AppendEntries of a leader may reach any node at any time
  and any number of times (`heartbeat`, `appendEntries`).  A candidate is blocked inside `tick` between
  `start` and `finish` (the real `broadcast_vote_requests` awaits all replies inside the tick).

  Ghost state (not read by any step function's non-ghost part): `leaders`, `grants`, `fv`.
-/
namespace DEngine.Elect

def upd {α : Type} (f : Nat → α) (i : Nat) (v : α) : Nat → α := fun j => if j = i then v else f j

/-- replies collected so far by a candidate that is inside `tick` -/
structure Flight where
  resps : List (Option Nat × Resp)     -- (responding modelled node, reply), arrival order
deriving Repr, Inhabited

structure Cluster where
  proc : Nat → Proc                    -- by node id
  flight : Nat → Option Flight
  -- ghost
  leaders : List (Nat × Nat × List Nat)   -- (node, term, the voters whose grants it counted, itself first)
  grants : List (Nat × Nat × Nat)         -- (voter, candidate, term): a `vote_granted = true` reply was produced,
                                          -- or the candidate voted for itself (`vote_myself`)
  fv : Nat → Nat → Option Nat             -- first candidate a node voted for in a term (incl. itself)
deriving Inhabited

inductive Label where
  | voteReq (p : Nat) (r : VoteReq)
  | appendEntries (p t l : Nat)
  | heartbeat (l p : Nat)
  | timeout (p : Nat)
  | start (c : Nat)
  | deliver (c j : Nat)
  | scripted (c : Nat) (r : Resp)
  | finish (c : Nat) (transportOk : Bool)
  | stepDown (p : Nat)
  | higherTerm (p t : Nat)
  | noopCommitted (p : Nat)
  | logChange (p lli llt : Nat)
  | confChange (p : Nat) (ch : Change)
  | stop (p : Nat)
  | crash (p : Nat)
  | restart (p : Nat)
deriving Repr

/-- a node can take part in a step: it is up and not blocked inside its own election -/
def Cluster.ready (c : Cluster) (p : Nat) : Bool := (c.proc p).up && (c.flight p).isNone

def Cluster.setNode (c : Cluster) (p : Nat) (n : Node) : Cluster :=
  { c with proc := upd c.proc p { c.proc p with node := n } }

def recordVote (fv : Nat → Nat → Option Nat) (p t cand : Nat) : Nat → Nat → Option Nat :=
  fun p' t' => if p' = p ∧ t' = t then (match fv p t with | some x => some x | none => some cand) else fv p' t'

/-- node `p` handles vote request `r`; ghost bookkeeping of a granted reply -/
def Cluster.handleVoteReq (c : Cluster) (p : Nat) (r : VoteReq) : Cluster × VoteResp :=
  let (n', resp) := onVoteReq (c.proc p).node r
  let c1 := c.setNode p n'
  if resp.granted then
    ({ c1 with grants := (p, r.cand, r.term) :: c1.grants, fv := recordVote c1.fv p r.term r.cand }, resp)
  else (c1, resp)

def Cluster.isLeaderAt (c : Cluster) (l t : Nat) : Bool :=
  c.leaders.any fun x => x.1 == l && x.2.1 == t

/-- the request a candidate sends after `start` -/
def Cluster.requestOf (c : Cluster) (cand : Nat) : VoteReq :=
  let n := (c.proc cand).node
  ⟨n.term, cand, n.lli, n.llt⟩

def grantedBy : List (Option Nat × Resp) → List Nat
  | [] => []
  | (some j, .ok true _ _ _) :: rest => j :: grantedBy rest
  | _ :: rest => grantedBy rest

def step (c : Cluster) : Label → Cluster
  | .voteReq p r => if c.ready p then (c.handleVoteReq p r).1 else c
  | .appendEntries p t l =>
    if c.ready p then c.setNode p (onAppendEntries (c.proc p).node t l).1 else c
  | .heartbeat l p =>
    let ln := (c.proc l).node
    if c.ready p ∧ c.ready l ∧ l ≠ p ∧ ln.role = .leader then
      c.setNode p (onAppendEntries (c.proc p).node ln.term l).1
    else c
  | .timeout p =>
    if c.ready p ∧ (c.proc p).node.role = .follower then c.setNode p (becomeCandidate (c.proc p).node) else c
  | .start cand =>
    if c.ready cand ∧ (c.proc cand).node.role = .candidate then
      let n' := startElection (c.proc cand).node
      let c1 := c.setNode cand n'
      { c1 with flight := upd c1.flight cand (some ⟨[]⟩), grants := (cand, cand, n'.term) :: c1.grants,
                fv := recordVote c1.fv cand n'.term cand }
    else c
  | .deliver cand j =>
    match c.flight cand with
    | none => c
    | some f =>
      if (c.proc cand).up ∧ c.ready j ∧ j ≠ cand ∧ j ∈ (c.proc cand).memb.voters
          ∧ ¬ (f.resps.any fun x => x.1 == some j) then
        let (c1, resp) := c.handleVoteReq j (c.requestOf cand)
        let f' : Flight := ⟨f.resps ++ [(some j, Resp.ok resp.granted resp.term resp.lli resp.llt)]⟩
        { c1 with flight := upd c1.flight cand (some f') }
      else c
  | .scripted cand r =>
    match c.flight cand with
    | none => c
    | some f =>
      let f' : Flight := ⟨f.resps ++ [(none, r)]⟩
      if (c.proc cand).up then { c with flight := upd c.flight cand (some f') } else c
  | .finish cand transportOk =>
    match c.flight cand with
    | none => c
    | some f =>
      if (c.proc cand).up then
        let p := c.proc cand
        let n := p.node
        let transport := if transportOk then some (p.memb.voters.length, f.resps.map (·.2)) else none
        let o := tally n.term n.lli n.llt p.memb.isSingleNodeCluster p.memb.voters.length transport
        let c1 := (c.setNode cand (finishElection n o))
        let c2 := { c1 with flight := upd c1.flight cand none }
        if o.isOk ∧ n.role = .candidate then
          { c2 with leaders := (cand, n.term, cand :: (if o = .won then grantedBy f.resps else [])) :: c2.leaders }
        else c2
      else c
  | .stepDown p => if c.ready p then c.setNode p (becomeFollower (c.proc p).node none) else c
  | .higherTerm p t => if c.ready p then c.setNode p (leaderOnHigherTerm (c.proc p).node t) else c
  | .noopCommitted p =>
    if c.ready p then
      match (c.proc p).node.role, (c.proc p).node.noopTerm with
      | .leader, some t => c.setNode p (noopCommitted (c.proc p).node t)
      | _, _ => c
    else c
  | .logChange p lli llt =>
    if c.ready p then c.setNode p { (c.proc p).node with lli := lli, llt := llt } else c
  | .confChange p ch =>
    if c.ready p then { c with proc := upd c.proc p { c.proc p with memb := ((c.proc p).memb.apply ch).1 } } else c
  | .stop p => if c.ready p then { c with proc := upd c.proc p (c.proc p).stop } else c
  | .crash p =>
    if (c.proc p).up then { c with proc := upd c.proc p (c.proc p).crash, flight := upd c.flight p none } else c
  | .restart p => if (c.proc p).up then c else { c with proc := upd c.proc p (c.proc p).restart }

def run (c : Cluster) (ls : List Label) : Cluster := ls.foldl step c

end DEngine.Elect
