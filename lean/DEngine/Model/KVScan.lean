import DEngine.Model.KV
/-
  M-KV, scan/apply interleaving (C25).

  * `fileApplyMem` / `fileSetLa`  — `FileStateMachine::apply_chunk` split at the point where the data write
                                    lock has been released (end of PHASE 3) and `update_last_applied`
                                    (PHASE 4) has not run yet.  `scan_prefix` (one step: data read lock +
                                    `last_applied_index.load`) can run in between on another thread.
  * revision read / `rocksIter`   — `RocksDBStateMachine::scan_prefix` split between `last_applied_index.load`
                                    (first, since the F24 fix) and the creation of the iterator.  `apply_chunk`
                                    (`write_wbwi` then `update_last_applied`) can run in between on another
                                    thread.  `rstepOld` keeps the rule before the fix (iterate, then load).
  * `fileGapScan` / `rocksGapScan`— exactly those two interleavings, as driven by the harness through the
                                    guarded callbacks `verif_set_file_apply_gap_callback` /
                                    `verif_set_rocks_scan_gap_callback`.
  * `Sys`, `Ev`, `step`           — the general interleaving model: any schedule of apply steps and scan steps
                                    (apply is serial, as in the single-task commit handler / SM worker).
  * `replay`                      — the client side of the documented resynchronisation: apply the watch
                                    events with `revision > scan.revision` on top of the scan result.
-/
namespace DEngine.KV

/-! ## apply split in "data" and "last_applied" -/

/-- PHASES 1–3 of the File engine's `apply_chunk`: data updated, `last_applied` not yet. -/
def fileApplyMem (st : FileSt) (chunk : List Entry) : Option (FileSt × List Bool) :=
  if !ordered none chunk then none else
  let base := fileBase st.data chunk
  let outs := filePre base [] chunk
  let r := filePhase3 st.data (chunk.zip outs)
  some ({ st with data := r.1 }, r.2)

/-- PHASE 4: `update_last_applied(highest)`. -/
def fileSetLa (st : FileSt) (chunk : List Entry) : FileSt :=
  match highest chunk with
  | some (i, t) => { st with laIndex := i, laTerm := t }
  | none => st

/-- The scan runs between the memory update and `update_last_applied` of `chunk`
    (empty chunk: no apply at all, the scan just runs). -/
def fileGapScan (st : FileSt) (p : Bytes) (chunk : List Entry) :
    Option (FileSt × List Bool × (List (Key × Val) × Nat)) :=
  if chunk.isEmpty then some (st, [], fileScan st p) else
  match fileApplyMem st chunk with
  | none => none
  | some (st1, fl) => some (fileSetLa st1 chunk, fl, fileScan st1 p)

/-- First read of the RocksDB scan: the iteration (nothing for the empty prefix). -/
def rocksIter (st : RocksSt) (p : Bytes) : List (Key × Val) := (rocksScan st p).1

/-- `write_wbwi` of `apply_chunk` (data visible) without `update_last_applied`. -/
def rocksApplyWrite (st : RocksSt) (chunk : List Entry) : Option (RocksSt × List Bool) :=
  match rocksLoop st.db [] none chunk with
  | none => none
  | some (batch, res) => some ({ st with db := writeBatch st.db batch }, res)

def rocksSetLa (st : RocksSt) (chunk : List Entry) : RocksSt :=
  match highest chunk with
  | some (i, t) => { st with laIndex := i, laTerm := t }
  | none => st

/-- `chunk` is applied between the revision load and the iteration of the scan (the gap of the current code).
    With the empty prefix the real function returns before the gap, the apply happens afterwards. -/
def rocksGapScan (st : RocksSt) (p : Bytes) (chunk : List Entry) :
    Option (RocksSt × List Bool × (List (Key × Val) × Nat)) :=
  match rocksApplyChunk st chunk with
  | none => none
  | some (st', fl) => some (st', fl, (if p.isEmpty then [] else rocksIter st' p, st.laIndex))

/-! ## general interleaving model: any schedule of apply steps and scan steps -/

/-- Atomic steps. `apply_chunk` is serial (single SM worker): `applyData` then `applyLa`, never overlapping
    with another apply.  A scan runs on another thread and may be scheduled anywhere. -/
inductive Ev where
  | applyData (chunk : List Entry)  -- apply_chunk up to the point where the data is visible
  | applyLa                         -- `update_last_applied` of the chunk in flight
  | scanBegin (p : Bytes)           -- first read of a scan (RocksDB: revision load; File: the whole lock-protected scan)
  | scanEnd                         -- second read of the scan in flight (RocksDB: the iteration)
deriving Repr

/-- A completed scan with ghost versions: how many chunks the data it saw contained (`dataVer`) and how many
    chunks had published `last_applied` when the revision was read (`laVer`). -/
structure ScanObs where
  pfx : Bytes
  entries : List (Key × Val)
  revision : Nat
  dataVer : Nat
  laVer : Nat
deriving Repr

structure RSys where
  st : RocksSt
  inflight : Option (List Entry) := none
  /-- scan in flight: (prefix, revision already loaded, ghost `laVer` at that load) -/
  scan : Option (Bytes × Nat × Nat) := none
  dataVer : Nat := 0
  laVer : Nat := 0
  /-- ghost: the states a purely sequential execution goes through (after 0, 1, 2, … chunks) -/
  seq : List RocksSt
  done : List ScanObs := []

def RSys.init (st : RocksSt) : RSys := { st := st, seq := [st] }

def lastOr {α : Type} (l : List α) (d : α) : α := l.getLast?.getD d

/-- One step of the RocksDB engine under concurrency (current code: revision load, then iteration);
    `none` = step not enabled (or the ordering panic). -/
def rstep (s : RSys) : Ev → Option RSys
  | .applyData chunk =>
    if s.inflight.isSome then none else
    match rocksApplyWrite s.st chunk, rocksApplyChunk (lastOr s.seq s.st) chunk with
    | some (st', _), some (sq, _) =>
      some { s with st := st', inflight := some chunk, dataVer := s.dataVer + 1, seq := s.seq ++ [sq] }
    | _, _ => none
  | .applyLa =>
    match s.inflight with
    | none => none
    | some chunk => some { s with st := rocksSetLa s.st chunk, inflight := none, laVer := s.laVer + 1 }
  | .scanBegin p =>
    if s.scan.isSome || p.isEmpty then none
    else some { s with scan := some (p, s.st.laIndex, s.laVer) }
  | .scanEnd =>
    match s.scan with
    | none => none
    | some (p, rev, l) =>
      some { s with scan := none, done := s.done ++ [⟨p, rocksIter s.st p, rev, s.dataVer, l⟩] }

/-- The rule BEFORE the F24 fix (iterate first, load the revision afterwards), without ghost sequence. -/
structure ROld where
  st : RocksSt
  inflight : Option (List Entry) := none
  scan : Option (Bytes × List (Key × Val) × Nat) := none
  dataVer : Nat := 0
  laVer : Nat := 0
  done : List ScanObs := []

def rstepOld (s : ROld) : Ev → Option ROld
  | .applyData chunk =>
    if s.inflight.isSome then none else
    match rocksApplyWrite s.st chunk with
    | some (st', _) => some { s with st := st', inflight := some chunk, dataVer := s.dataVer + 1 }
    | none => none
  | .applyLa =>
    match s.inflight with
    | none => none
    | some chunk => some { s with st := rocksSetLa s.st chunk, inflight := none, laVer := s.laVer + 1 }
  | .scanBegin p =>
    if s.scan.isSome || p.isEmpty then none
    else some { s with scan := some (p, rocksIter s.st p, s.dataVer) }
  | .scanEnd =>
    match s.scan with
    | none => none
    | some (p, es, d) =>
      some { s with scan := none, done := s.done ++ [⟨p, es, s.st.laIndex, d, s.laVer⟩] }

structure FSys where
  st : FileSt
  inflight : Option (List Entry) := none
  dataVer : Nat := 0
  laVer : Nat := 0
  seq : List FileSt
  done : List ScanObs := []

def FSys.init (st : FileSt) : FSys := { st := st, seq := [st] }

/-- One step of the File engine under concurrency (the scan is one step: both reads under the data lock). -/
def fstep (s : FSys) : Ev → Option FSys
  | .applyData chunk =>
    if s.inflight.isSome then none else
    match fileApplyMem s.st chunk, fileApplyChunk (lastOr s.seq s.st) chunk with
    | some (st', _), some (sq, _) =>
      some { s with st := st', inflight := some chunk, dataVer := s.dataVer + 1, seq := s.seq ++ [sq] }
    | _, _ => none
  | .applyLa =>
    match s.inflight with
    | none => none
    | some chunk => some { s with st := fileSetLa s.st chunk, inflight := none, laVer := s.laVer + 1 }
  | .scanBegin p =>
    some { s with done := s.done ++ [⟨p, (fileScan s.st p).1, (fileScan s.st p).2, s.dataVer, s.laVer⟩] }
  | .scanEnd => none

def runSched {σ : Type} (step : σ → Ev → Option σ) : σ → List Ev → Option σ
  | s, [] => some s
  | s, e :: es => match step s e with
    | none => none
    | some s' => runSched step s' es

/-! ## the API path: the role state serves `ClientCmd::Scan` inline -/

inductive Role where
  | leader | follower | candidate | learner
deriving Repr, DecidableEq

/-- `push_client_cmd(ClientCmd::Scan(prefix, sender))`:
    leader (leader_state.rs): `sender.send(ctx.state_machine().scan_prefix(&prefix))` — the engine's answer is
    passed through untouched, whatever the leader's commit index is (entries committed but not yet applied are
    neither in the entries nor covered by the revision);
    every other role (role_state.rs default): `Err(failed_precondition("Not leader"))` = `none`. -/
def roleScan (role : Role) (_commitIndex : Nat) (engineScan : List (Key × Val) × Nat) :
    Option (List (Key × Val) × Nat) :=
  match role with
  | .leader => some engineScan
  | _ => none

/-! ## client side: resynchronisation from a scan + watch events -/

/-- A watch event: one successful mutation (`revision` = entry index). -/
structure WEvent where
  revision : Nat
  key : Key
  value : Option Val      -- `some v` = PUT, `none` = DELETE
deriving Repr

def applyEvent (s : Store) (e : WEvent) : Store := s.set e.key e.value

def replay (s : Store) (es : List WEvent) : Store := es.foldl applyEvent s

/-- Documented client rule: skip events with `revision ≤ scan.revision`, apply the rest. -/
def resync (scanStore : Store) (scanRev : Nat) (buffered : List WEvent) : Store :=
  replay scanStore (buffered.filter fun e => e.revision > scanRev)

end DEngine.KV
