import DEngine.Model.KV
/-
  M-KV, scan/apply interleaving (C25).

  * `fileApplyMem` / `fileSetLa`  — `FileStateMachine::apply_chunk` split at the point where the data write
                                    lock has been released (end of PHASE 3) and `update_last_applied`
                                    (PHASE 4) has not run yet.  `scan_prefix` (one step: data read lock +
                                    `last_applied_index.load`) can run in between on another thread.
  * `rocksIter` / revision read   — `RocksDBStateMachine::scan_prefix` split between the end of the iteration
                                    and `last_applied_index.load`.  `apply_chunk` (`write_wbwi` then
                                    `update_last_applied`) can run in between on another thread.
  * `fileGapScan` / `rocksGapScan`— exactly those two interleavings, as driven by the harness through the
                                    guarded callbacks `verif_set_file_apply_gap_callback` /
                                    `verif_set_rocks_scan_gap_callback`.
  * `Sys`, `Ev`, `step`           — the general interleaving model: any schedule of apply steps and scan steps
                                    (apply is serial, as in the single-task commit handler / SM worker).
  * `replay`                      — the client side of the documented resynchronisation: apply the watch
                                    events with `revision > scan.revision` on top of the scan result.
-/
namespace DEngine.KV

/-! ## apply split in "data" and "last_applied" -/

/-- PHASES 1–3 of the File engine's `apply_chunk`: data updated, `last_applied` not yet. -/
def fileApplyMem (st : FileSt) (chunk : List Entry) : Option (FileSt × List Bool) :=
  if !ordered none chunk then none else
  let base := fileBase st.data chunk
  let outs := filePre base [] chunk
  let r := filePhase3 st.data (chunk.zip outs)
  some ({ st with data := r.1 }, r.2)

/-- PHASE 4: `update_last_applied(highest)`. -/
def fileSetLa (st : FileSt) (chunk : List Entry) : FileSt :=
  match highest chunk with
  | some (i, t) => { st with laIndex := i, laTerm := t }
  | none => st

/-- The scan runs between the memory update and `update_last_applied` of `chunk`
    (empty chunk: no apply at all, the scan just runs). -/
def fileGapScan (st : FileSt) (p : Bytes) (chunk : List Entry) :
    Option (FileSt × List Bool × (List (Key × Val) × Nat)) :=
  if chunk.isEmpty then some (st, [], fileScan st p) else
  match fileApplyMem st chunk with
  | none => none
  | some (st1, fl) => some (fileSetLa st1 chunk, fl, fileScan st1 p)

/-- First read of the RocksDB scan: the iteration (nothing for the empty prefix). -/
def rocksIter (st : RocksSt) (p : Bytes) : List (Key × Val) := (rocksScan st p).1

/-- `write_wbwi` of `apply_chunk` (data visible) without `update_last_applied`. -/
def rocksApplyWrite (st : RocksSt) (chunk : List Entry) : Option (RocksSt × List Bool) :=
  match rocksLoop st.db [] none chunk with
  | none => none
  | some (batch, res) => some ({ st with db := writeBatch st.db batch }, res)

def rocksSetLa (st : RocksSt) (chunk : List Entry) : RocksSt :=
  match highest chunk with
  | some (i, t) => { st with laIndex := i, laTerm := t }
  | none => st

/-- `chunk` is applied between the iteration and the revision read of the scan.  With the empty prefix the
    real function returns before the gap (revision read first), the apply happens afterwards. -/
def rocksGapScan (st : RocksSt) (p : Bytes) (chunk : List Entry) :
    Option (RocksSt × List Bool × (List (Key × Val) × Nat)) :=
  let es := rocksIter st p
  match rocksApplyChunk st chunk with
  | none => none
  | some (st', fl) => some (st', fl, (es, if p.isEmpty then st.laIndex else st'.laIndex))

end DEngine.KV
