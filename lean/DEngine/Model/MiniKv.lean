/-
  Minimal key-value apply model shared by the families `ttl` (C23), `snap` (C16) and `kvcrash` (C15).
  (Family `kv` / C22 owns the detailed engine-level KV semantics; this is the small sequential view
  those three families need: one command at a time, outcome flag for CAS.)

  Models (d-engine-server/src/storage/adaptors/{file/file_state_machine.rs, rocksdb/rocksdb_state_machine.rs}
  `apply_chunk`, per entry, data part only):
    Insert{key,value,ttl} -> data.insert(key,value)              (flag success)
    Delete{key}           -> data.remove(key)                    (flag success)
    CompareAndSwap{key,expected,value}
                          -> success iff (current, expected) is (Some c, Some e) with c == e, or (None, None);
                             on success data.insert(key,value)   (flag = success)
    Noop                  -> nothing                             (flag success)
  Keys and values are naturals here (the harness maps `k<n>` / `v<n>` byte strings to them; only equality
  of keys/values matters for these semantics).  A map is an association list with at most one binding
  per key (`set` removes older bindings).
-/
namespace DEngine.MiniKv

abbrev AMap := List (Nat × Nat)

def get : AMap → Nat → Option Nat
  | [], _ => none
  | (k', v) :: m, k => if k' = k then some v else get m k

def erase (m : AMap) (k : Nat) : AMap := m.filter (fun p => !(p.1 == k))

def set (m : AMap) (k v : Nat) : AMap := (k, v) :: erase m k

def eraseAll (m : AMap) (ks : List Nat) : AMap := m.filter (fun p => !(ks.contains p.1))

theorem get_filter_of_true (m : AMap) (f : Nat × Nat → Bool) (k : Nat)
    (h : ∀ v, f (k, v) = true) : get (m.filter f) k = get m k := by
  induction m with
  | nil => rfl
  | cons p m ih =>
    obtain ⟨k', v⟩ := p
    by_cases hk : k' = k
    · subst hk; simp [List.filter, h, get]
    · by_cases hf : f (k', v) = true
      · simp [List.filter, hf, get, hk, ih]
      · simp [List.filter, hf, get, hk, ih]

theorem get_filter_of_false (m : AMap) (f : Nat × Nat → Bool) (k : Nat)
    (h : ∀ v, f (k, v) = false) : get (m.filter f) k = none := by
  induction m with
  | nil => rfl
  | cons p m ih =>
    obtain ⟨k', v⟩ := p
    by_cases hk : k' = k
    · subst hk; simp [List.filter, h, ih]
    · by_cases hf : f (k', v) = true
      · simp [List.filter, hf, get, hk, ih]
      · simp [List.filter, hf, ih]

@[simp] theorem get_erase_eq (m : AMap) (k : Nat) : get (erase m k) k = none :=
  get_filter_of_false m _ k (by simp)

theorem get_erase_ne (m : AMap) {k k' : Nat} (h : k' ≠ k) : get (erase m k') k = get m k :=
  get_filter_of_true m _ k (by intro v; simp; exact fun e => h e.symm)

@[simp] theorem get_set_eq (m : AMap) (k v : Nat) : get (set m k v) k = some v := by
  simp [set, get]

theorem get_set_ne (m : AMap) {k k' : Nat} (v : Nat) (h : k' ≠ k) : get (set m k' v) k = get m k := by
  simp [set, get, h, get_erase_ne m h]

theorem get_eraseAll_of_mem (m : AMap) (ks : List Nat) {k : Nat} (h : k ∈ ks) :
    get (eraseAll m ks) k = none :=
  get_filter_of_false m _ k (by intro v; simp [h])

theorem get_eraseAll_of_not_mem (m : AMap) (ks : List Nat) {k : Nat} (h : k ∉ ks) :
    get (eraseAll m ks) k = get m k :=
  get_filter_of_true m _ k (by intro v; simp [h])

/-- Every binding of a key-filtered map is a binding of the map. -/
theorem get_filter_some (m : AMap) (f : Nat × Nat → Bool) {k v : Nat}
    (h : get (m.filter f) k = some v) : get m k = some v ∨ ∃ v', get m k = some v' := by
  induction m with
  | nil => simp [get] at h
  | cons p m ih =>
    obtain ⟨k', w⟩ := p
    by_cases hk : k' = k
    · subst hk; right; exact ⟨w, by simp [get]⟩
    · by_cases hf : f (k', w) = true
      · simp [List.filter, hf, get, hk] at h ⊢; exact ih h
      · simp [List.filter, hf, get, hk] at h ⊢; exact ih h

/-! ## commands -/

inductive Cmd where
  | noop
  | put (k v : Nat) (ttl : Option Nat)
  | del (k : Nat)
  | cas (k : Nat) (expected : Option Nat) (v : Nat)
deriving DecidableEq, Repr, Inhabited

/-- The CAS rule of both engines. -/
def casMatch (cur expected : Option Nat) : Bool :=
  match cur, expected with
  | some c, some e => c == e
  | none, none => true
  | _, _ => false

/-- One entry applied to the data map: new map and the per-entry success flag. -/
def applyCmd (m : AMap) : Cmd → AMap × Bool
  | .noop => (m, true)
  | .put k v _ => (set m k v, true)
  | .del k => (erase m k, true)
  | .cas k e v => if casMatch (get m k) e then (set m k v, true) else (m, false)

def applyAll (m : AMap) (cs : List Cmd) : AMap := cs.foldl (fun m c => (applyCmd m c).1) m

theorem applyAll_append (m : AMap) (a b : List Cmd) :
    applyAll m (a ++ b) = applyAll (applyAll m a) b := by
  simp [applyAll, List.foldl_append]

/-! ## canonical printing helpers (driver side) -/

def sortMap (m : AMap) : AMap := m.mergeSort (fun a b => a.1 ≤ b.1)

def showMap (sep : String) (m : AMap) : String :=
  if m.isEmpty then "-" else ",".intercalate ((sortMap m).map fun p => s!"{p.1}{sep}{p.2}")

def showOpt : Option Nat → String
  | none => "-"
  | some v => toString v

def parseOpt (s : String) : Option (Option Nat) :=
  if s == "-" then some none else (s.toNat?).map some

end DEngine.MiniKv
