/-
  M-READ — read-policy routing, as coded (C13).

  Modelled Rust (d-engine @ /repo):
  * `nonLeaderCmd`   = d-engine-core/src/raft_role/role_state.rs `RaftRoleState::push_client_cmd`,
                       `ClientCmd::Read` arm (Follower / Candidate / Learner do not override it)
  * `determinePolicy`= d-engine-core/src/raft_role/leader_state.rs `LeaderState::determine_read_policy`
                       (same decision as the dead-code helper raft_role/mod.rs `can_serve_read_locally`)
  * `leaderCmd`      = leader_state.rs `push_client_cmd`, `ClientCmd::Read` arm (routing to
                       linearizable_read_buffer / lease_read_queue / eventual_read_queue)
  * `serveRead`      = d-engine-server/src/read_actor.rs `serve_read`
  * `standaloneGetBatch` = d-engine-server/src/api/standalone_read_handle.rs `get_batch`
  * `grpcRead`       = d-engine-server/src/network/grpc/grpc_raft_service.rs `handle_client_read`
                       (+ proto_convert.rs `to_core_read_req`: an unknown enum value becomes `None`)
  * `embRead`        = d-engine-server/src/api/embedded_read_handle.rs `get_batch` / `cmd_tx_path`

  One case = (role, server default policy, allow_client_override, client policy, API path, lease valid).
  Outcome = the policy under which the read is answered, and by which mechanism.
-/
namespace DEngine.ReadRoute

inductive Role | follower | candidate | learner | leader
  deriving DecidableEq, Repr, Inhabited

inductive Policy | lin | lease | ev
  deriving DecidableEq, Repr, Inhabited

/-- API path: Raft command channel (`ClientCmd::Read` pushed directly), gRPC `handle_client_read`,
    embedded client `get_multi_with_consistency`. -/
inductive Path | raft | grpc | emb
  deriving DecidableEq, Repr, Inhabited

/-- What the client put on the wire: nothing, a policy, or (gRPC only) an enum value the server
    does not know. -/
inductive Cli | none | some (p : Policy) | unknown
  deriving DecidableEq, Repr, Inhabited

structure Case where
  role : Role
  dflt : Policy
  ovr : Bool
  cli : Cli
  path : Path
  leaseValid : Bool
  deriving DecidableEq, Repr, Inhabited

inductive Outcome
  /-- answered from this node's state machine under policy `p`; `fast` = without entering the Raft loop -/
  | localRead (fast : Bool) (p : Policy)
  /-- leader: accepted into the queue that is served under policy `p` -/
  | leaderQ (p : Policy)
  /-- FAILED_PRECONDITION "Not leader" -/
  | notLeader
  /-- the API path cannot express this request (embedded client without a policy, …) -/
  | na
  deriving DecidableEq, Repr, Inhabited

/-- `LeaderState::determine_read_policy` (and `can_serve_read_locally`'s first half). -/
def determinePolicy (dflt : Policy) (ovr : Bool) (cli : Option Policy) : Policy :=
  match cli with
  | some p => if ovr then p else dflt
  | none => dflt

/-- `RaftRoleState::push_client_cmd`, Read arm, for Follower/Candidate/Learner. Branch order as coded:
    the client policy is looked at only if it is present AND override is allowed. -/
def nonLeaderCmd (dflt : Policy) (ovr : Bool) (cli : Option Policy) : Outcome × String :=
  match cli, ovr with
  | some p, true =>
    match p with
    | .ev => (.localRead false .ev, "nl:override-ev")
    | _ => (.notLeader, "nl:override-strong-reject")
  | _, _ =>
    match dflt with
    | .ev => (.localRead false .ev, "nl:default-ev")
    | _ => (.notLeader, "nl:default-strong-reject")

/-- Leader `push_client_cmd`, Read arm (no back-pressure: queues empty). -/
def leaderCmd (dflt : Policy) (ovr : Bool) (cli : Option Policy) : Outcome × String :=
  match determinePolicy dflt ovr cli with
  | .lin => (.leaderQ .lin, "leader:lin")
  | .lease => (.leaderQ .lease, "leader:lease")
  | .ev => (.leaderQ .ev, "leader:ev")

/-- What the Raft loop does with `ClientCmd::Read` (role dispatch in raft_role/mod.rs). -/
def raftCmd (role : Role) (dflt : Policy) (ovr : Bool) (cli : Option Policy) : Outcome × String :=
  match role with
  | .leader => leaderCmd dflt ovr cli
  | _ => nonLeaderCmd dflt ovr cli

/-- read_actor.rs `serve_read` with a running state machine: `true` = served from the local SM. -/
def serveRead (p : Policy) (leaseValid : Bool) : Bool :=
  match p with
  | .ev => true
  | .lease => leaseValid
  | .lin => false

/-- standalone_read_handle.rs `get_batch` with a ReadActor present. -/
def standaloneGetBatch (c : Case) (p : Policy) : Outcome × String :=
  if (p == .ev || p == .lease) then
    if serveRead p c.leaseValid then
      (.localRead true p, if p == .ev then "fast:actor-ev" else "fast:actor-lease")
    else
      let r := raftCmd c.role c.dflt c.ovr (some p)
      (r.1, "fast:actor-fallback," ++ r.2)
  else raftCmd c.role c.dflt c.ovr (some p)

/-- What the fast-path front ends do with the client's policy since fix "read fast paths honour
    allow_client_override": a client-supplied policy is replaced by the server default when overrides are
    disallowed (grpc_raft_service.rs `handle_client_read`; embedded_read_handle.rs `with_server_policy` /
    `get_batch`). An absent / unknown policy stays absent. -/
def effCli (c : Case) : Cli :=
  match c.cli with
  | .some p => if c.ovr then .some p else .some c.dflt
  | other => other

/-- grpc_raft_service.rs `handle_client_read`. -/
def grpcRead (c : Case) : Outcome × String :=
  match effCli c with
  | .some .ev => standaloneGetBatch c .ev
  | .some .lease => standaloneGetBatch c .lease
  | .some .lin => let r := raftCmd c.role c.dflt c.ovr (some .lin); (r.1, "grpc:cmd," ++ r.2)
  | .none => let r := raftCmd c.role c.dflt c.ovr none; (r.1, "grpc:cmd-nopolicy," ++ r.2)
  | .unknown => let r := raftCmd c.role c.dflt c.ovr none; (r.1, "grpc:cmd-unknown," ++ r.2)

/-- embedded_read_handle.rs `get_batch` (the API always carries a policy). -/
def embRead (c : Case) : Outcome × String :=
  match effCli c with
  | .some .ev => (.localRead true .ev, "emb:direct-ev")
  | .some .lease =>
    if c.leaseValid then (.localRead true .lease, "emb:direct-lease")
    else let r := raftCmd c.role c.dflt c.ovr (some .lease); (r.1, "emb:lease-fallback," ++ r.2)
  | .some .lin => let r := raftCmd c.role c.dflt c.ovr (some .lin); (r.1, "emb:cmd," ++ r.2)
  | _ => (.na, "emb:na")

def routeT (c : Case) : Outcome × String :=
  match c.path with
  | .raft =>
    match c.cli with
    | .some p => raftCmd c.role c.dflt c.ovr (some p)
    | .none => raftCmd c.role c.dflt c.ovr none
    | .unknown => (.na, "raft:na")
  | .grpc => grpcRead c
  | .emb => embRead c

/-- The model's decision for a case. -/
def route (c : Case) : Outcome := (routeT c).1

/-! ## The property's predicates (decidable; the monitor runs them on the implementation's outcome) -/

def Policy.strong : Policy → Bool
  | .ev => false
  | _ => true

/-- A non-leader's answer is acceptable iff it is "not leader" or an eventual local read. -/
def nonLeaderOk (o : Outcome) : Bool :=
  match o with
  | .notLeader => true
  | .localRead _ .ev => true
  | .na => true
  | _ => false

/-- "Served under policy `d`": answered locally / queued at the leader under exactly `d`, or — for a strong
    `d` on a non-leader — refused with not-leader (that is how a non-leader honours a strong policy). -/
def servedUnder (role : Role) (d : Policy) (o : Outcome) : Bool :=
  match o with
  | .localRead _ p => p == d
  | .leaderQ p => p == d
  | .notLeader => d.strong && role != .leader
  | .na => true

/-- The trigger of the (fixed) finding F14, kept to describe the regression cases: override disallowed, the client names a policy different from the default,
    and the request is one the fast paths answer without asking the Raft loop. -/
def f14Trigger (c : Case) : Bool :=
  !c.ovr && (c.path == .grpc || c.path == .emb) &&
  match c.cli with
  | .some .ev => c.dflt != .ev
  | .some .lease => c.leaseValid && c.dflt != .lease
  | _ => false

/-- The policy the client is entitled to when overrides are allowed. -/
def clientPolicy (c : Case) : Policy :=
  match c.cli with
  | .some p => if c.ovr then p else c.dflt
  | _ => c.dflt

/-- Monitor for C13 on an observed outcome; `none` = ok, `some sig` = violated (signature). -/
def monitorC13 (c : Case) (o : Outcome) : Option String :=
  if o == .na then none
  else if c.role != .leader && !c.leaseValid && !nonLeaderOk o then some "nonleader-serves-strong"
  else if !c.ovr && !servedUnder c.role c.dflt o then
    some "override-off-not-default"
  else if c.ovr && !servedUnder c.role (clientPolicy c) o then some "override-on-client-policy-ignored"
  else none

end DEngine.ReadRoute
