/-
  M-SNAP (receive side): model of
    * `DefaultStateMachineHandler::process_snapshot_stream`
      (d-engine-core/src/state_machine_handler/default_state_machine_handler.rs): per chunk, in this order — leader/term
      pinned by the FIRST received chunk (which also supplies metadata and `total_chunks`; missing metadata ⇒ error),
      checksum validation, `SnapshotAssembler::write_chunk` (seq must equal the running expected index), ACK; at
      end of stream: timeout if the channel was not closed, count check `received == total`, metadata must carry
      `last_included`, `SnapshotAssembler::finalize` = flush + rename of the temp file to `<prefix><index>-<term>.tar.gz`
      (d-engine-core/src/state_machine_handler/snapshot_assembler.rs);
    * the archive check: the assembled temp file is unpacked before `finalize` (since /repo 814e6ba; before, the
      finalized file was unpacked afterwards — F33);
    * `apply_snapshot_stream_from_leader`: process the stream, then `StateMachine::apply_snapshot_from_file` on the
      unpacked directory (state := snapshot, last_applied := label).
  Chunk payloads are symbolic: `(piece index, pristine | altered | empty)`; the assembled file is the list of payloads
  written (an empty payload contributes no bytes). The checksum field is modelled by its length and whether its bytes
  agree with the payload's CRC32: `validate_checksum` accepts only a 4-byte field that agrees.
  The archive unpacks iff its first `n` non-empty payloads are the pristine pieces 0..n-1 in order (a gzip member followed by
  trailing bytes still unpacks; a truncated or altered one does not) — observed on the real code by the family.
-/
namespace DEngine.SnapStream

inductive MetaK where
  | none
  | noLast
  | label (i t : Nat)
deriving Repr, DecidableEq

/-- What a chunk's payload is, relative to the genuine piece with that index. -/
inductive Kind where
  | pristine    -- the genuine bytes
  | altered     -- same length, different bytes
  | empty       -- no bytes at all
deriving Repr, DecidableEq

abbrev Tok := Nat × Kind   -- (piece index, kind)

structure Chunk where
  seq : Nat
  total : Nat
  term : Nat
  leader : Nat
  md : MetaK
  /-- length in bytes of the `chunk_checksum` field -/
  sumLen : Nat
  /-- the checksum bytes agree with CRC32(data) (for a field that is not 4 bytes long: its low-order bytes do / a
      zero-extended one does) -/
  sumMatch : Bool
  data : Tok
deriving Repr, DecidableEq

/-- `file_io::validate_checksum(data, expected)` = `crc32(data).to_be_bytes() == expected`: a comparison of a 4-byte
    array with a slice — a checksum field of any other length never validates, whatever its bytes are (in particular an
    empty checksum never validates an empty payload although CRC32("") = 0). -/
def Chunk.sumOk (c : Chunk) : Bool := c.sumLen == 4 && c.sumMatch

inductive End where
  | closed
  | hold      -- the sender never closes the channel: the receive timeout fires
deriving Repr, DecidableEq

inductive Err where
  | order | leader | checksum | nometa | count | timeout | nolast | archive
deriving Repr, DecidableEq

inductive Status where
  | acc | sum | ooo | fail
deriving Repr, DecidableEq

structure Ack where
  seq : Nat
  status : Status
  next : Nat
deriving Repr, DecidableEq

/-- Loop state of `process_snapshot_stream` + the assembler. -/
structure St where
  expected : Nat                  -- assembler.expected_index (= received_chunks)
  pin : Option (Nat × Nat)        -- term_check
  md : MetaK                     -- captured_metadata
  total : Option Nat              -- total_chunks of the first chunk
  written : List Tok              -- content of the temp file
  acks : List Ack
deriving Repr, DecidableEq

def St.init : St := { expected := 0, pin := none, md := .none, total := none, written := [], acks := [] }

/-- One loop iteration; `Except.error` carries the error kind and the ACKs sent so far. -/
def stepChunk (s : St) (c : Chunk) : Except (Err × List Ack) St :=
  -- 1. leader legitimacy / first-chunk capture
  let r : Except (Err × List Ack) St :=
    match s.pin with
    | some (t, l) =>
      if c.term ≠ t ∨ c.leader ≠ l then .error (.leader, s.acks ++ [⟨c.seq, .ooo, 0⟩]) else .ok s
    | none =>
      let s1 := { s with pin := some (c.term, c.leader), md := c.md, total := some c.total }
      if c.md = .none then .error (.nometa, s.acks ++ [⟨c.seq, .fail, 0⟩]) else .ok s1
  match r with
  | .error e => .error e
  | .ok s1 =>
    -- 2. checksum
    if !c.sumOk then .error (.checksum, s1.acks ++ [⟨c.seq, .sum, c.seq⟩])
    -- 3. write_chunk: order check, then append
    else if c.seq ≠ s1.expected then .error (.order, s1.acks)
    else .ok { s1 with expected := s1.expected + 1, written := s1.written ++ [c.data],
                       acks := s1.acks ++ [⟨c.seq, .acc, c.seq + 1⟩] }

def run : St → List Chunk → Except (Err × List Ack) St
  | s, [] => .ok s
  | s, c :: cs =>
    match stepChunk s c with
    | .error e => .error e
    | .ok s' => run s' cs

inductive StreamRes where
  | ok (label : Nat × Nat) (content : List Tok) (acks : List Ack)
  | err (e : Err) (acks : List Ack)
deriving Repr, DecidableEq

/-- After the loop: timeout / count check / metadata / finalize. -/
def finish (s : St) : End → StreamRes
  | .hold => .err .timeout (s.acks ++ [⟨0, .fail, 0⟩])
  | .closed =>
    if s.expected ≠ s.total.getD 0 then .err .count (s.acks ++ [⟨s.expected, .fail, 0⟩])
    else match s.md with
      | .none => .err .nometa s.acks
      | .noLast => .err .nolast s.acks
      | .label i t => .ok (i, t) s.written s.acks

/-- `process_snapshot_stream`. -/
def processStream (cs : List Chunk) (e : End) : StreamRes :=
  match run St.init cs with
  | .error (er, acks) => .err er acks
  | .ok s => finish s e

/-! ### The specification of an acceptable stream -/

/-- Chunk number `j` of the list carries seq `k + j`, a valid checksum, and the pinned term and leader. -/
def wellFormedFrom (k t l : Nat) : List Chunk → Bool
  | [] => true
  | c :: cs => c.seq == k && c.sumOk && c.term == t && c.leader == l && wellFormedFrom (k + 1) t l cs

/-- The stream is exactly chunks 0..n−1 of one (term, leader), all checksums valid, n = the announced total, the first
    chunk carries the label, and the sender closed the stream. Result: label and the concatenation of the payloads. -/
def exact (cs : List Chunk) (e : End) : Option ((Nat × Nat) × List Tok) :=
  match cs, e with
  | c0 :: rest, .closed =>
    if wellFormedFrom 0 c0.term c0.leader (c0 :: rest) && (c0 :: rest).length == c0.total then
      match c0.md with
      | .label i t => some ((i, t), (c0 :: rest).map (·.data))
      | _ => none
    else none
  | _, _ => none

/-! ### Follower: state machine, final snapshot files, temp file -/

inductive Content where
  | old                       -- bytes of a snapshot file that existed before
  | toks (l : List Tok)       -- an assembled file
deriving Repr, DecidableEq

inductive Sm where
  | own                       -- the follower's own state (what it had applied itself)
  | snapshot (label : Nat × Nat)   -- replaced by the snapshot's content, last_applied = label
deriving Repr, DecidableEq

structure Follower where
  sm : Sm
  finals : List ((Nat × Nat) × Content)
  part : Bool
deriving Repr, DecidableEq

def upsert (fs : List ((Nat × Nat) × Content)) (k : Nat × Nat) (v : Content) : List ((Nat × Nat) × Content) :=
  if fs.any (·.1 == k) then fs.map (fun p => if p.1 == k then (k, v) else p) else fs ++ [(k, v)]

/-- The assembled archive unpacks: its first `n` payloads are the pristine pieces 0..n−1. -/
def archiveOk (n : Nat) (content : List Tok) : Bool :=
  (content.filter (·.2 ≠ .empty)).take n == (List.range n).map (fun i => (i, Kind.pristine))

inductive Res where
  | ok
  | err (e : Err)
deriving Repr, DecidableEq

/-- `apply_snapshot_stream_from_leader` on a follower; `n` = number of pieces of the genuine archive.
    Since /repo 814e6ba the assembled temp file is unpacked (validated) BEFORE `finalize` renames it; before that fix the
    rename came first and a failed unpack left a final snapshot file behind (F33). -/
def receive (f : Follower) (n : Nat) (cs : List Chunk) (e : End) : Follower × Res × List Ack :=
  match processStream cs e with
  | .err er acks => ({ f with part := true }, .err er, acks)      -- temp file stays behind; nothing else touched
  | .ok label content acks =>
    if archiveOk n content then
      -- unpack ok → rename → state machine applies the unpacked directory
      ({ sm := .snapshot label, finals := upsert f.finals label (.toks content), part := false }, .ok, acks)
    else ({ f with part := true }, .err .archive, acks)           -- unpack of the temp file fails: no rename

/-- Process-crash points of `apply_snapshot_stream_from_leader` (the rename in `finalize` is atomic; the temp file is
    flushed before it): before anything, while assembling / validating (temp file only), after `finalize` (complete,
    validated final file, state not yet replaced), after the state machine applied the snapshot. -/
def crashStates (f : Follower) (n : Nat) (cs : List Chunk) (e : End) : List Follower :=
  match processStream cs e with
  | .err _ _ => [f, { f with part := true }]
  | .ok label content _ =>
    if archiveOk n content then
      let f1 : Follower := { f with finals := upsert f.finals label (.toks content), part := false }
      [f, { f with part := true }, f1, { f1 with sm := .snapshot label }]
    else [f, { f with part := true }]

end DEngine.SnapStream
